----------------------------- MODULE WalClient -----------------------------
(* Wal.tla with a history of the client-visible actions, used to generate    *)
(* client scripts (request sequences with checkpoint points) for recording.  *)
EXTENDS Wal
VARIABLE hist
HInit == Init /\ hist = <<>>
HNext == /\ Next
         /\ hist' = IF req' # req THEN Append(hist, [a |-> "issue", cmds |-> writes'[req']])
                    ELSE IF pc # "ckPrep" /\ pc' = "ckPrep" THEN Append(hist, [a |-> "ckpt"])
                    ELSE hist
HSpec == HInit /\ [][HNext]_<<vars, hist>>
HView == <<View, hist>>
Emit == (req = MaxReq /\ Quiet) => PrintT(<<"BEH", ToJson(hist)>>)
=============================================================================
