------------------------------ MODULE CsvLoad ------------------------------
(***************************************************************************)
(* CSV import (C33): "importing a CSV file either loads every data row     *)
(* with the parsed values or reports an error; it never silently drops     *)
(* rows".                                                                  *)
(*                                                                         *)
(* Abstract part  : a file is a sequence of row classes.  A load ends with *)
(*                  a report (none / error / panic) and the sequence of    *)
(*                  chunks handed to the write client.  LoadedAllOrError   *)
(*                  IS the property.                                       *)
(* Implementation : the loop of cmd/connect/session/load.go around         *)
(* shaped part      loader.ReadMetadata / loader.CSVtoNumpyMulti, one      *)
(*                  operator per branch:                                   *)
(*                    meta    ReadMetadata: the header line (if configured) *)
(*                            is consumed through the same csv.Reader and   *)
(*                            fixes FieldsPerRecord                         *)
(*                    call    entry of CSVtoNumpyMulti (empty chunk)        *)
(*                    read    one csvReader.Read(): io.EOF / csv error /    *)
(*                            row; at most chunkSize rows per call          *)
(*                    chunk   len(csvChunk) = 0  =>  return nil, true, nil  *)
(*                    convert convertCSVtoCSM: time columns first (all rows *)
(*                            of the chunk), then the bucket's columns in   *)
(*                            schema order, each over all rows of the chunk *)
(*                    write   writeNumpy(chunk)                             *)
(*                    loop    endReached => break                           *)
(*                  encoding/csv is modelled by its FieldsPerRecord rule    *)
(*                  (0 = take the count of the first record read, then      *)
(*                  every record must have that count) and by a class of    *)
(*                  rows that are not lexically CSV (bare quote).           *)
(*                                                                         *)
(* Named deviations (constant Deviations) = behaviour of the unchanged     *)
(* tree that differs from the intended design; the module steps the pure   *)
(* loop (implP) and the deviating loop (implD) side by side:               *)
(*   CsvErrorIsEOF  utils.go:41-50  `if err2 != nil { endReached = true;   *)
(*                  break }` -- every reader error (ErrFieldCount,         *)
(*                  ErrBareQuote, ...) ends the load like io.EOF; the pure *)
(*                  loop returns the error.         BREAKS the property.   *)
(*   ConvertPanics  a row whose time does not parse makes convertCSVtoCSM  *)
(*                  return (nil, nil) and CSVtoNumpyMulti dereferences the *)
(*                  nil map entry; a first row shorter than the schema (it *)
(*                  fixes FieldsPerRecord when there is no header) makes   *)
(*                  row[index] run out of range.  The pure loop returns an *)
(*                  error.  Loud, therefore NOT property-relevant; kept so *)
(*                  that the prediction of the real observation is exact.  *)
(***************************************************************************)
EXTENDS Integers, Sequences, FiniteSets, TLC, Json

CONSTANTS MaxRows,     \* files have 0..MaxRows data rows
          NC,          \* number of value columns of the bucket schema (CSV layout: Epoch, c1..cNC); 1..3
          Classes,     \* subset of {"ok","few","many","quote","badts","bad1","bad2","bad3"}
          Chunks,      \* chunk sizes
          Headers,     \* subset of BOOLEAN: firstRowHasColumnNames
          Deviations,  \* subset of {"CsvErrorIsEOF", "ConvertPanics"}
          EmitCases    \* TRUE: print every finished case for the replay

VARIABLES file,     \* the case: sequence of row classes
          chunk,    \* the case: chunk size
          header,   \* the case: header option
          implP,    \* loop state, pure
          implD,    \* loop state with the deviations
          devHit    \* deviations whose guard fired in implD

vars == <<file, chunk, header, implP, implD, devHit>>

(***************************************************************************)
(* Row classes                                                             *)
(***************************************************************************)
NF == NC + 1                                     \* fields of a well-formed record
Fields(c) == IF c = "few" THEN NF - 1 ELSE IF c = "many" THEN NF + 1 ELSE NF
BadCol(c) == IF c = "bad1" THEN 1 ELSE IF c = "bad2" THEN 2 ELSE IF c = "bad3" THEN 3 ELSE 0
\* a row that CAN be loaded with its parsed values: every mapped column is present and parses
\* (an extra trailing field is not mapped to any bucket column)
Loadable(c) == c \in {"ok", "many"}

Files == UNION {[1..n -> Classes] : n \in 0..MaxRows}

(***************************************************************************)
(* encoding/csv Reader.Read on the row under the cursor                    *)
(***************************************************************************)
ReaderRead(cur, fpr) ==
  IF cur > Len(file) THEN [kind |-> "eof", fpr |-> fpr]
  ELSE LET c == file[cur] IN
       IF c = "quote" THEN [kind |-> "err", fpr |-> fpr]                 \* ErrBareQuote
       ELSE IF fpr = 0 THEN [kind |-> "row", fpr |-> Fields(c)]          \* first record fixes FieldsPerRecord
       ELSE IF Fields(c) # fpr THEN [kind |-> "err", fpr |-> fpr]        \* ErrFieldCount
       ELSE [kind |-> "row", fpr |-> fpr]

(***************************************************************************)
(* convertCSVtoCSM on one chunk (buf = row numbers)                        *)
(***************************************************************************)
RECURSIVE FirstProblem(_, _, _)
\* column k over the rows of the chunk in order: "error" (strconv), "panic" (row[index] out of range) or "ok"
FirstProblem(buf, k, p) ==
  IF p > Len(buf) THEN "ok"
  ELSE LET c == file[buf[p]] IN
       IF k > Fields(c) - 1 THEN "panic"
       ELSE IF BadCol(c) = k THEN "error"
       ELSE FirstProblem(buf, k, p + 1)

RECURSIVE Columns(_, _)
Columns(buf, k) == IF k > NC THEN "ok"
                   ELSE LET r == FirstProblem(buf, k, 1) IN IF r # "ok" THEN r ELSE Columns(buf, k + 1)

Convert(buf) == IF \E p \in 1..Len(buf) : file[buf[p]] = "badts" THEN "panic"    \* readTimeColumns -> nil -> nil deref
                ELSE Columns(buf, 1)

(***************************************************************************)
(* The loop, one step per branch                                           *)
(***************************************************************************)
S0 == [pc |-> "meta", cur |-> 1, fpr |-> 0, n |-> 0, buf |-> <<>>, end |-> FALSE,
       chunks |-> <<>>, report |-> "none", stage |-> "none", calls |-> 0]

ReadStep(s, devs) ==
  IF s.n = chunk THEN [s EXCEPT !.pc = "chunk"]
  ELSE LET r == ReaderRead(s.cur, s.fpr) IN
       IF r.kind = "eof" THEN [s EXCEPT !.end = TRUE, !.pc = "chunk"]
       ELSE IF r.kind = "err"
            THEN IF "CsvErrorIsEOF" \in devs
                 THEN [s EXCEPT !.end = TRUE, !.pc = "chunk", !.cur = @ + 1]
                 ELSE [s EXCEPT !.report = "error", !.stage = "read", !.pc = "done", !.cur = @ + 1]
       ELSE [s EXCEPT !.buf = Append(@, s.cur), !.cur = @ + 1, !.n = @ + 1, !.fpr = r.fpr]

ConvertStep(s, devs) ==
  LET r == Convert(s.buf) IN
  IF r = "ok" THEN [s EXCEPT !.pc = "write"]
  ELSE [s EXCEPT !.report = IF r = "panic" /\ "ConvertPanics" \in devs THEN "panic" ELSE "error",
                 !.stage = "convert", !.pc = "done"]

Step(s, devs) ==
  IF s.pc = "meta" THEN [s EXCEPT !.pc = "call", !.fpr = IF header THEN NF ELSE 0]
  ELSE IF s.pc = "call" THEN [s EXCEPT !.pc = "read", !.n = 0, !.buf = <<>>, !.end = FALSE, !.calls = @ + 1]
  ELSE IF s.pc = "read" THEN ReadStep(s, devs)
  ELSE IF s.pc = "chunk" THEN (IF s.buf = <<>> THEN [s EXCEPT !.end = TRUE, !.pc = "loop"]      \* return nil, true, nil
                               ELSE [s EXCEPT !.pc = "convert"])
  ELSE IF s.pc = "convert" THEN ConvertStep(s, devs)
  ELSE IF s.pc = "write" THEN [s EXCEPT !.chunks = Append(@, s.buf), !.pc = "loop"]
  ELSE IF s.pc = "loop" THEN (IF s.end THEN [s EXCEPT !.pc = "done"] ELSE [s EXCEPT !.pc = "call"])
  ELSE s

\* which deviation guard fires in the step about to be taken by the deviating loop
Fired(s) ==
  (IF s.pc = "read" /\ s.n # chunk /\ ReaderRead(s.cur, s.fpr).kind = "err" /\ "CsvErrorIsEOF" \in Deviations
   THEN {"CsvErrorIsEOF"} ELSE {})
  \cup
  (IF s.pc = "convert" /\ Convert(s.buf) = "panic" /\ "ConvertPanics" \in Deviations
   THEN {"ConvertPanics"} ELSE {})

Done == implP.pc = "done" /\ implD.pc = "done"

Init == /\ file \in Files /\ chunk \in Chunks /\ header \in Headers
        /\ implP = S0 /\ implD = S0 /\ devHit = {}

Next == /\ ~Done
        /\ implP' = Step(implP, {})
        /\ implD' = Step(implD, Deviations)
        /\ devHit' = devHit \cup Fired(implD)
        /\ UNCHANGED <<file, chunk, header>>

Spec == Init /\ [][Next]_vars

(***************************************************************************)
(* Properties (E1)                                                         *)
(***************************************************************************)
RECURSIVE Flat(_)
Flat(cs) == IF cs = <<>> THEN <<>> ELSE Head(cs) \o Flat(Tail(cs))
AllRows == [j \in 1..Len(file) |-> j]
AllLoadable == \A j \in 1..Len(file) : Loadable(file[j])

\* C33 on a finished load: an error was reported, or every data row was loaded (and then every row was loadable)
Satisfies(s) == s.report # "none" \/ (AllLoadable /\ Flat(s.chunks) = AllRows)

LoadedAllOrError == (implP.pc = "done") => Satisfies(implP)

\* rows are only ever written once, in file order, and only rows that were read
WrittenIsPrefixLike(s) == LET w == Flat(s.chunks) IN
                          /\ \A p \in 1..Len(w) : w[p] < s.cur
                          /\ \A p \in 1..(Len(w) - 1) : w[p] < w[p + 1]
                          /\ \A p \in 1..Len(s.chunks) : Len(s.chunks[p]) \in 1..chunk
ChunkingSane == WrittenIsPrefixLike(implP) /\ WrittenIsPrefixLike(implD)

Outcome(s) == [chunks |-> s.chunks, report |-> s.report]
\* the deviating loop differs from the pure one only when a listed deviation was exercised, and it breaks the
\* property only through CsvErrorIsEOF
DeviationsExplainAll == Done => /\ (devHit = {}) => (Outcome(implD) = Outcome(implP))
                                /\ (~Satisfies(implD)) => ("CsvErrorIsEOF" \in devHit)
                                /\ ("CsvErrorIsEOF" \notin devHit) => (Flat(implD.chunks) = Flat(implP.chunks))

\* every case, with the property's answer (pure loop) and the known answer of the unchanged tree
Emit == (EmitCases /\ Done) =>
          PrintT(<<"CASE", ToJson([file |-> file, chunk |-> chunk, header |-> header,
                                   silentok |-> AllLoadable,
                                   expect |-> [chunks |-> implP.chunks, report |-> implP.report, stage |-> implP.stage],
                                   known |-> [chunks |-> implD.chunks, report |-> implD.report, stage |-> implD.stage,
                                              calls |-> implD.calls, sat |-> Satisfies(implD)],
                                   hit |-> devHit])>>)
=============================================================================
