----------------------------- MODULE StoreQuery -----------------------------
(***************************************************************************)
(* Queries on one marketstore bucket (C11 ranges, C12 limits) and on       *)
(* several buckets at once / with a column list (C13).                     *)
(*                                                                         *)
(* Stored content : as in Store.tla -- interval ids 1..NI0 in year file 0, *)
(*                  NI0+1..NI0+NI1 in year file 1; a fixed bucket holds at *)
(*                  most one row per interval (offset class 0), a variable *)
(*                  bucket holds st[i][o] records at offset class o.       *)
(* Time axis      : "positions" -- an ordered axis of bound classes:       *)
(*                  0 = before the first year; for every interval id       *)
(*                  W = 2*NO+2 positions (0 = the interval start, 1 =      *)
(*                  inside before the first offset class, 2+2o = exactly   *)
(*                  the time of offset class o, 3+2o = after class o and   *)
(*                  before the next class / the end of the interval);      *)
(*                  GapPos = a year between the two year files;            *)
(*                  LastPos = after the last year.  start > end is just a  *)
(*                  pair of positions.  z0 says that offset class 0 sits   *)
(*                  exactly on the interval start (then inner positions 1  *)
(*                  and 2 do not exist).                                   *)
(* Abstract part  : the property statements.                               *)
(* Implementation : the read plan of executor.NewIOPlan / Reader.read /    *)
(* shaped part      readSecondStage / trimResultsToRange /                 *)
(*                  trimResultsToLimit, QueryService.ExecuteQuery,         *)
(*                  ColumnSeriesMap.FilterColumns, DataService.executeQuery*)
(* Known defects of the unchanged tree are named deviations (constant      *)
(* Deviations); every case carries the property's answer and the answer    *)
(* of the implementation with the deviations, plus the guards that fired.  *)
(*                                                                         *)
(* A behaviour is: choose the bucket kind, the timeframe class and the     *)
(* stored content (initial state), then ask one query (one step).  TLC's   *)
(* reachable states are the quantified input space.                        *)
(***************************************************************************)
EXTENDS Integers, Sequences, FiniteSets, TLC, Json, SequencesExt

CONSTANTS NI0, NI1,    \* interval ids per year file
          NO,          \* offset classes inside an interval (fixed buckets use class 0 only)
          Dup,         \* max records with the same (interval, offset class)
          Kinds,       \* subset of {"fixed", "variable"}
          Classes,     \* subset of {"intraday", "daily"}  (daily: slot index = day of year - 1, Jan 1 never stored)
          Mode,        \* "range" (C11) | "limit" (C12) | "multi" (C13)
          ChunkCodes,  \* set of chunk codes to enumerate when UseSample = FALSE.  A chunk code has the decimal
                       \* digits c_1..c_NI0: the read-buffer chunk of every year-0 interval id, counted back from
                       \* the end of the year file (cfg files cannot hold tuples)
          NMax,        \* limit mode: largest row limit N (N ranges over 1..min(rows + 1, NMax))
          ColMax,      \* multi mode: longest column list
          UseSample,   \* FALSE: every stored content; TRUE: only the contents listed in Sample
          Sample,      \* set of codes: z0 + 2*[fixed] + 4*[daily] + 8 * SUM count(i, o) * (Dup+1)^((i-1)*NO + o)
                       \*               + 2^20 * chunk code
          Deviations   \* subset of {"RangeTrimKeepsTail", "LimitBeforeRangeTrim", "BackwardMetaOverrun"}

VARIABLES kind,  \* "fixed" | "variable"
          tfc,   \* "intraday" | "daily"
          st,    \* stored content of the bucket (symbol "A")
          z0,    \* offset class 0 lies exactly on the interval start
          chk,   \* chunk code of the concretisation (see ChunkCodes)
          fl,    \* the year files holding st (implementation state)
          q,     \* query: [s, e : position, n : 0 (no limit) | 1.., dir : "first" | "last"]
          mq,    \* multi mode only: [star, syms, cols, stB, het]  (bucket C holds the complement of bucket B)
          phase  \* "stored": content chosen, no query yet; "case": one complete case

vars == <<kind, tfc, st, z0, chk, fl, q, mq, phase>>

NI   == NI0 + NI1
Ivs  == 1..NI
Offs == 0..(NO - 1)
YearOf(i) == IF i <= NI0 THEN 0 ELSE 1
Pos(i)    == IF i <= NI0 THEN i - 1 ELSE i - NI0 - 1
IsFirst(i) == Pos(i) = 0
MaxSlot == (IF NI0 > NI1 THEN NI0 ELSE NI1) + 1
Unl == 1000                                            \* math.MaxInt32: "no limit"
RECURSIVE Pow(_, _)
Pow(b, k) == IF k = 0 THEN 1 ELSE b * Pow(b, k - 1)

(***************************************************************************)
(* The axis of bound positions                                             *)
(***************************************************************************)
W       == 2 * NO + 2
GapPos  == 1 + NI0 * W
LastPos == 2 + NI * W
Positions == 0..LastPos
IvBase(i) == IF i <= NI0 THEN 1 + (i - 1) * W ELSE 2 + (i - 1) * W
PosIv(p)  == IF p = 0 \/ p = GapPos \/ p = LastPos THEN 0
             ELSE IF p < GapPos THEN ((p - 1) \div W) + 1 ELSE ((p - 2) \div W) + 1
PosK(p)   == p - IvBase(PosIv(p))
\* calendar year of a position: -1 before, 0 = year file 0, 1 = a year between, 2 = year file 1, 3 after
PosYear(p) == IF p = 0 THEN 0 - 1 ELSE IF p < GapPos THEN 0 ELSE IF p = GapPos THEN 1 ELSE IF p < LastPos THEN 2 ELSE 3
FileYear(y) == 2 * y
\* a fixed bucket has rows on interval starts only: inner positions 0 (start) and W-1 (inside) suffice
ValidPos(p, z) == \/ PosIv(p) = 0
                  \/ (kind = "fixed" /\ PosK(p) \in {0, W - 1})
                  \/ (kind = "variable" /\ (~z \/ PosK(p) \notin {1, 2}))
\* the position of a stored row
RP(r, z) == IvBase(r.i) + (IF kind = "fixed" \/ (r.o = 0 /\ z) THEN 0 ELSE 2 * r.o + 2)
\* start of the interval that contains position p (positions outside the interval ids are their own floor:
\* no stored row lies in their interval)
FloorPos(p) == IF PosIv(p) = 0 THEN p ELSE IvBase(PosIv(p))

(***************************************************************************)
(* Stored content                                                          *)
(***************************************************************************)
Content == [Ivs -> [Offs -> 0..Dup]]
DailyOK(c, tc) == tc = "daily" => \A i \in Ivs : IsFirst(i) => \A o \in Offs : c[i][o] = 0
FixedOK(c, k)  == k = "fixed" => \A i \in Ivs : \A o \in Offs : c[i][o] <= (IF o = 0 THEN 1 ELSE 0)
ContentOK(c, k, tc) == DailyOK(c, tc) /\ FixedOK(c, k)
Big == 1048576
OfCode(code) == [i \in Ivs |-> [o \in Offs |-> (((code % Big) \div 8) \div Pow(Dup + 1, (i - 1) * NO + o)) % (Dup + 1)]]
ChunkOfCode(code) == code \div Big
ZOfCode(code) == code % 2 = 1
KindOfCode(code) == IF (code \div 2) % 2 = 1 THEN "fixed" ELSE "variable"
ClassOfCode(code) == IF (code \div 4) % 2 = 1 THEN "daily" ELSE "intraday"
ChunkOf == [i \in 1..NI0 |-> (chk \div Pow(10, NI0 - i)) % 10]
Empty == [i \in Ivs |-> [o \in Offs |-> 0]]

RowsOfIv(c, i) == FlattenSeq([o1 \in 1..NO |-> [d \in 1..c[i][o1 - 1] |-> [i |-> i, o |-> o1 - 1, d |-> d]]])
AbsRead(c)     == FlattenSeq([i \in 1..NI |-> RowsOfIv(c, i)])      \* the unrestricted query: every row, time order

(***************************************************************************)
(* Abstract semantics = the property statements                            *)
(***************************************************************************)
\* C11: variable -- full-precision time in [start, end]; fixed -- interval start between the start of the
\* interval containing `start` and `end`
InRange(r, s, e, z) == IF kind = "variable" THEN s <= RP(r, z) /\ RP(r, z) <= e
                       ELSE FloorPos(s) <= IvBase(r.i) /\ IvBase(r.i) <= e
AbsRange(c, s, e, z) == SelectSeq(AbsRead(c), LAMBDA r : InRange(r, s, e, z))
\* C12: the first / last N rows of the same query without a limit
TakeN(rows, n, dir) == IF n = 0 \/ Len(rows) <= n THEN rows
                       ELSE IF dir = "first" THEN SubSeq(rows, 1, n) ELSE SubSeq(rows, Len(rows) - n + 1, Len(rows))
AbsQuery(c, qq, z) == TakeN(AbsRange(c, qq.s, qq.e, z), qq.n, qq.dir)

(***************************************************************************)
(* Implementation-shaped semantics                                         *)
(***************************************************************************)
\* year files: slot index -> cell; index 0 marks a hole (io.TimeToIndex: 1 + intervals since Jan 1; 1D: YearDay-1)
Slot(i) == Pos(i) + (IF tfc = "daily" THEN 0 ELSE 1)
IvOfSlot(y, s, tc) == LET p == s - (IF tc = "daily" THEN 0 ELSE 1) IN IF y = 0 THEN p + 1 ELSE NI0 + p + 1
NoCell == [idx |-> 0, iv |-> 0, recs |-> <<>>]
Files(c, tc) == [y \in 0..1 |-> [s \in 0..MaxSlot |->
                   LET i == IvOfSlot(y, s, tc)
                   IN  IF s >= 1 /\ i \in Ivs /\ YearOf(i) = y /\ RowsOfIv(c, i) # <<>>
                       THEN [idx |-> s, iv |-> i, recs |-> RowsOfIv(c, i)] ELSE NoCell]]

\* NewIOPlan: a year file takes part when start.Year <= file year <= end.Year; the scan starts at
\* TimeToOffset(start) in the start year's file (else at the first data slot) and ends with the slot of `end`
\* (TimeToOffset(end) + recordLength) in the end year's file (else with the last slot)
InPlan(y, qq) == PosYear(qq.s) <= FileYear(y) /\ FileYear(y) <= PosYear(qq.e)
LoSlot(y, qq) == IF PosYear(qq.s) = FileYear(y) THEN Slot(PosIv(qq.s)) ELSE 1
HiSlot(y, qq) == IF PosYear(qq.e) = FileYear(y) THEN Slot(PosIv(qq.e)) ELSE MaxSlot
\* packingReader: the scanned slots in order, holes skipped
CellsOf(f, y, lo, hi) == SelectSeq([k \in 1..(hi - lo + 1) |-> f[y][lo + k - 1]], LAMBDA c : c.idx # 0)
Plan(f, qq) == LET ys == SelectSeq(<<0, 1>>, LAMBDA y : InPlan(y, qq))
               IN  [k \in 1..Len(ys) |-> CellsOf(f, ys[k], LoSlot(ys[k], qq), HiSlot(ys[k], qq))]
AllCells(f, qq) == FlattenSeq(Plan(f, qq))

\* Reader.read, direction FIRST: file after file, stop as soon as limitBytes are there (readForward clips)
RECURSIVE Fwd(_, _, _, _)
Fwd(plan, k, buf, lim) == IF k > Len(plan) THEN buf
                          ELSE LET b == buf \o plan[k]
                               IN  IF Len(b) >= lim THEN SubSeq(b, 1, lim) ELSE Fwd(plan, k + 1, b, lim)

\* readBackward works through a file in read-buffer chunks from the end of the scanned area; bytesRead counts
\* whole chunks.  Overrun: the chunk that completes the request held more filled slots than were still needed.
MaxChunk == IF NI0 = 0 THEN 0 ELSE Max({ChunkOf[i] : i \in 1..NI0})
RECURSIVE Overrun(_, _, _)
Overrun(cells, ch, need) ==
  IF ch > MaxChunk THEN FALSE
  ELSE LET n == Cardinality({k \in 1..Len(cells) : cells[k].iv <= NI0 /\ ChunkOf[cells[k].iv] = ch})
       IN  IF n >= need THEN n > need ELSE Overrun(cells, ch + 1, need - n)

\* Reader.read, direction LAST: files from the last to the first, bytesLeftToFill.  When bytesLeftToFill goes
\* negative the index records of the *whole* result buffer are attributed to the file just read: if a later
\* file had already contributed, its records are looked up in the wrong file (BackwardMetaOverrun: the query
\* fails with EOF / corrupt input instead of returning the last N rows)
RECURSIVE Bwd(_, _, _, _, _)
Bwd(plan, k, buf, left, devs) ==
  IF k < 1 THEN [err |-> "", cells |-> buf]
  ELSE LET c == plan[k]
           n == Len(c)
       IN  IF n >= left
           THEN (IF /\ "BackwardMetaOverrun" \in devs /\ kind = "variable" /\ buf # <<>>
                    /\ c # <<>> /\ c[1].iv <= NI0 /\ Overrun(c, 0, left)
                 THEN [err |-> "overrun", cells |-> <<>>]
                 ELSE [err |-> "", cells |-> SubSeq(c, n - left + 1, n) \o buf])
           ELSE Bwd(plan, k - 1, c \o buf, left - n, devs)

ReadCells(f, qq, lim, devs) ==
  IF lim = Unl THEN [err |-> "", cells |-> AllCells(f, qq)]
  ELSE IF qq.dir = "first" THEN [err |-> "", cells |-> Fwd(Plan(f, qq), 1, <<>>, lim)]
  ELSE Bwd(Plan(f, qq), Len(Plan(f, qq)), <<>>, lim, devs)

\* readSecondStage: every index record is expanded to the records of its interval
Expand(cells) == FlattenSeq([k \in 1..Len(cells) |-> cells[k].recs])

\* trimResultsToRange: cut before the first record >= start; then, searching from the end, cut after the last
\* record <= end.  The tree returns early when at most one record is left and leaves the buffer untouched
\* when no record is <= end (RangeTrimKeepsTail)
DropBefore(recs, s, z) == LET ok == {k \in 1..Len(recs) : RP(recs[k], z) >= s}
                          IN  IF ok = {} THEN <<>> ELSE SubSeq(recs, Min(ok), Len(recs))
TrimRange(recs, qq, z, devs) ==
  LET d  == DropBefore(recs, qq.s, z)
      ok == {k \in 1..Len(d) : RP(d[k], z) <= qq.e}
  IN  IF "RangeTrimKeepsTail" \in devs
      THEN (IF Len(d) <= 1 THEN d ELSE IF ok = {} THEN d ELSE SubSeq(d, 1, Max(ok)))
      ELSE (IF ok = {} THEN <<>> ELSE SubSeq(d, 1, Max(ok)))

\* the whole read of one bucket.  The limit reaches the plan as limitBytes = N * recordLength: for a fixed
\* bucket N rows, for a variable bucket N index records = N *intervals* (LimitBeforeRangeTrim); the intended
\* design limits the records after the range trim only (trimResultsToLimit).
ImplQuery(f, qq, z, devs) ==
  LET lim  == IF qq.n = 0 THEN Unl ELSE qq.n
      plim == IF kind = "fixed" \/ "LimitBeforeRangeTrim" \in devs THEN lim ELSE Unl
      rc   == ReadCells(f, qq, plim, devs)
  IN  IF rc.err # "" THEN [err |-> rc.err, rows |-> <<>>]
      ELSE IF kind = "fixed" THEN [err |-> "", rows |-> Expand(rc.cells)]
      ELSE [err |-> "", rows |-> TakeN(TrimRange(Expand(rc.cells), qq, z, devs), qq.n, qq.dir)]

(***************************************************************************)
(* Guards of the deviations (signatures of the known findings)             *)
(***************************************************************************)
\* what trimResultsToRange is handed by the unchanged tree
TrimInput(f, qq, devs) == LET lim == IF qq.n = 0 THEN Unl ELSE qq.n
                              rc  == ReadCells(f, qq, IF "LimitBeforeRangeTrim" \in devs THEN lim ELSE Unl, devs)
                          IN  IF rc.err # "" THEN <<>> ELSE Expand(rc.cells)
\* records are left after the start cut and none of them is <= end
GuardTail(f, qq, z) == /\ kind = "variable"
                       /\ LET d == DropBefore(TrimInput(f, qq, Deviations), qq.s, z)
                          IN  d # <<>> /\ \A k \in 1..Len(d) : RP(d[k], z) > qq.e
\* the plan-level limit cut away intervals of the scanned area
GuardLimit(f, qq) == kind = "variable" /\ qq.n # 0 /\ Len(AllCells(f, qq)) > qq.n
GuardOverrun(f, qq) == /\ kind = "variable" /\ qq.n # 0 /\ qq.dir = "last"
                       /\ ReadCells(f, qq, qq.n, {"BackwardMetaOverrun"}).err = "overrun"
Hits(f, qq, z) == (IF "RangeTrimKeepsTail" \in Deviations /\ GuardTail(f, qq, z) THEN {"RangeTrimKeepsTail"} ELSE {})
             \cup (IF "LimitBeforeRangeTrim" \in Deviations /\ GuardLimit(f, qq) THEN {"LimitBeforeRangeTrim"} ELSE {})
             \cup (IF "BackwardMetaOverrun" \in Deviations /\ GuardOverrun(f, qq) THEN {"BackwardMetaOverrun"} ELSE {})

(***************************************************************************)
(* Several symbols, column lists (C13)                                     *)
(***************************************************************************)
Existing == {"A", "B", "C"}                   \* symbols with a bucket of this timeframe / attribute group
AllSyms  == Existing \cup {"M"}               \* "M" does not exist
ColNames == {"c1", "c2", "zz"}                \* two data columns of the bucket and an unknown name
TimeCols == IF kind = "variable" THEN {"Epoch", "Nanoseconds"} ELSE {"Epoch"}
\* mq.het: the bucket of C has one more data column than the buckets of A and B
DataColsOf(sym) == IF sym = "C" /\ mq.het THEN <<"c1", "c2", "c3">> ELSE <<"c1", "c2">>
ColsOf(sym) == <<"Epoch">> \o DataColsOf(sym) \o (IF kind = "variable" THEN <<"Nanoseconds">> ELSE <<>>)
Complement(c) == [i \in Ivs |-> [o \in Offs |->
                    IF c[i][o] = 0 /\ ~(tfc = "daily" /\ IsFirst(i)) /\ ~(kind = "fixed" /\ o # 0) THEN 1 ELSE 0]]
ContentOf(sym) == IF sym = "A" THEN st ELSE IF sym = "B" THEN mq.stB ELSE Complement(mq.stB)

\* property: every requested existing symbol answers as if asked alone; a column list keeps the time columns
\* and the requested columns
AbsMulti(qq, z) ==
  LET want == IF mq.star THEN Existing ELSE mq.syms \cap Existing
  IN  [syms |-> want,
       rows |-> [s \in want |-> AbsQuery(ContentOf(s), qq, z)],
       cols |-> [s \in want |-> IF mq.cols = <<>> THEN Range(ColsOf(s))
                                 ELSE TimeCols \cup (Range(mq.cols) \cap Range(DataColsOf(s)))]]

\* ColumnSeriesMap.FilterColumns / ColumnSeries.Project: Epoch, the requested names in the requested order
\* (unknown names skipped, repeated names repeated), Nanoseconds
Project(have, want) == IF want = <<>> THEN have
                       ELSE SelectSeq(<<"Epoch">> \o want \o <<"Nanoseconds">>, LAMBDA c : c \in Range(have))
\* DataService.executeQuery: "*" -> every symbol of the catalog; planner.Parse: unknown symbols contribute no
\* files, no file at all is an error; one IOPlan per bucket, each with the range and the limit of the request;
\* NumpyMultiDataset.Append refuses a bucket whose (projected) columns differ from the first one's: the whole
\* request fails ("symbols in a query must have the same data type or be filtered by common columns")
ImplMulti(qq, z, devs) ==
  LET asked == IF mq.star THEN Existing ELSE mq.syms
      found == asked \cap Existing
      res   == [s \in found |-> ImplQuery(Files(ContentOf(s), tfc), qq, z, devs)]
      pc    == [s \in found |-> Project(ColsOf(s), mq.cols)]
      none  == [err |-> "", syms |-> {}, rows |-> <<>>, cols |-> <<>>]
  IN  IF found = {} THEN [none EXCEPT !.err = "nofiles"]
      ELSE IF \E s \in found : res[s].err # "" THEN [none EXCEPT !.err = "read"]
      ELSE IF \E s1, s2 \in found : pc[s1] # pc[s2] THEN [none EXCEPT !.err = "shape"]
      ELSE [err |-> "", syms |-> found, rows |-> [s \in found |-> res[s].rows], cols |-> pc]

(***************************************************************************)
(* The enumerated space                                                    *)
(***************************************************************************)
\* <<kind, class, content, z0, chunk code>>
StoredSet == IF UseSample
             THEN {<<KindOfCode(t), ClassOfCode(t), OfCode(t), ZOfCode(t), ChunkOfCode(t)>> : t \in Sample}
             ELSE UNION {UNION {{<<k, tc, c, z, ch>> : c \in {x \in Content : ContentOK(x, k, tc)},
                                                       z \in (IF k = "fixed" THEN {TRUE} ELSE BOOLEAN),
                                                       ch \in (IF k = "fixed" THEN {0} ELSE ChunkCodes)}
                                : tc \in Classes} : k \in Kinds}
Bounds(z) == {p \in Positions : ValidPos(p, z)}
RangeQueries(z) == [s : Bounds(z), e : Bounds(z), n : {0}, dir : {"first"}]
LimitQueries(c, z) == UNION {[s : {b[1]}, e : {b[2]}, n : 1..Min({Len(AbsRange(c, b[1], b[2], z)) + 1, NMax}), dir : {"first", "last"}]
                               : b \in Bounds(z) \X Bounds(z)}
\* multi mode: the bucket of A is st, B is chosen, C is the complement of B; a handful of query shapes
MultiQueries == {[s |-> 0, e |-> LastPos, n |-> 0, dir |-> "first"],
                 [s |-> IvBase(1), e |-> IvBase(NI) + W - 1, n |-> 0, dir |-> "first"],
                 [s |-> IvBase(NI0 + 1), e |-> LastPos, n |-> 0, dir |-> "first"],
                 [s |-> 0, e |-> LastPos, n |-> 1, dir |-> "first"],
                 [s |-> 0, e |-> LastPos, n |-> 1, dir |-> "last"]}
ColLists == {<<>>} \cup UNION {[1..n -> ColNames] : n \in 1..ColMax}
NoMulti == [star |-> FALSE, syms |-> {}, cols |-> <<>>, stB |-> Empty, het |-> FALSE]
OtherStored == IF UseSample THEN {OfCode(t) : t \in {x \in Sample : KindOfCode(x) = kind /\ ClassOfCode(x) = tfc}}
               ELSE {c \in Content : ContentOK(c, kind, tfc)}
ShortColLists == {c \in ColLists : Len(c) <= 1}
MultiReqs == [star : {FALSE}, syms : (SUBSET AllSyms) \ {{}}, cols : ColLists, stB : OtherStored, het : {FALSE}]
        \cup [star : {TRUE}, syms : {{}}, cols : ColLists, stB : OtherStored, het : {FALSE}]
        \cup [star : {FALSE}, syms : (SUBSET AllSyms) \ {{}}, cols : ShortColLists, stB : OtherStored, het : {TRUE}]
        \cup [star : {TRUE}, syms : {{}}, cols : ShortColLists, stB : OtherStored, het : {TRUE}]

NoQuery == [s |-> 0, e |-> 0, n |-> 0, dir |-> "first"]
Init == /\ \E t \in StoredSet : kind = t[1] /\ tfc = t[2] /\ st = t[3] /\ z0 = t[4] /\ chk = t[5] /\ fl = Files(t[3], t[2])
        /\ q = NoQuery /\ mq = NoMulti /\ phase = "stored"
Ask  == /\ phase = "stored" /\ phase' = "case"
        /\ IF Mode = "range" THEN q' \in RangeQueries(z0) /\ mq' = NoMulti
           ELSE IF Mode = "limit" THEN q' \in LimitQueries(st, z0) /\ mq' = NoMulti
           ELSE q' \in MultiQueries /\ mq' \in MultiReqs
        /\ UNCHANGED <<kind, tfc, st, z0, chk, fl>>
Next == Ask
Spec == Init /\ [][Next]_vars

(***************************************************************************)
(* Properties (E1)                                                         *)
(***************************************************************************)
\* the intended design answers every query as the property demands (C11, C12)
ImplRefinesAbs == phase = "case" => LET r == ImplQuery(fl, q, z0, {}) IN r.err = "" /\ r.rows = AbsQuery(st, q, z0)
\* the tree's behaviour differs from the intended design only where a guard of a listed deviation fires
DeviationsExplainAll == (phase = "case" /\ Hits(fl, q, z0) = {}) => ImplQuery(fl, q, z0, Deviations) = ImplQuery(fl, q, z0, {})
\* C13: per-symbol equality with the single query, projection keeps time columns + requested columns
MultiRefinesAbs == (Mode = "multi" /\ phase = "case") =>
  LET r == ImplMulti(q, z0, {})
      a == AbsMulti(q, z0)
  IN  IF a.syms = {} THEN r.err = "nofiles"
      \* the only refusal that is tolerated: buckets of different shapes asked for without a common column list
      ELSE IF r.err = "shape" THEN mq.het /\ "C" \in a.syms /\ Cardinality(a.syms) > 1 /\ mq.cols = <<>>
      ELSE /\ r.err = "" /\ r.syms = a.syms
           /\ \A s \in a.syms : r.rows[s] = a.rows[s] /\ Range(r.cols[s]) = a.cols[s]

(***************************************************************************)
(* Output of the cases for the replay into the real code                   *)
(***************************************************************************)
Enc(rows) == [k \in 1..Len(rows) |-> <<rows[k].i, rows[k].o, rows[k].d>>]
Tup(c) == [i \in 1..NI |-> [o1 \in 1..NO |-> c[i][o1 - 1]]]
EmitSingle ==
  LET k == ImplQuery(fl, q, z0, Deviations)
  IN  PrintT(<<"CASE", ToJson([kind |-> kind, tfc |-> tfc, st |-> Tup(st), z |-> z0, chk |-> chk,
                              s |-> q.s, e |-> q.e, n |-> q.n, dir |-> q.dir,
                              expect |-> Enc(AbsQuery(st, q, z0)),
                              unl |-> Enc(AbsRange(st, q.s, q.e, z0)),
                              kerr |-> k.err, known |-> Enc(k.rows),
                              kunl |-> Enc(ImplQuery(fl, [q EXCEPT !.n = 0], z0, Deviations).rows),
                              hit |-> Hits(fl, q, z0)])>>)
EmitMulti ==
  LET a == AbsMulti(q, z0)
      k == ImplMulti(q, z0, Deviations)
  IN  PrintT(<<"CASE", ToJson([kind |-> kind, tfc |-> tfc, st |-> Tup(st), stB |-> Tup(mq.stB),
                              stC |-> Tup(Complement(mq.stB)), z |-> z0,
                              s |-> q.s, e |-> q.e, n |-> q.n, dir |-> q.dir,
                              star |-> mq.star, syms |-> mq.syms, cols |-> mq.cols, het |-> mq.het,
                              esyms |-> a.syms, erows |-> [x \in a.syms |-> Enc(a.rows[x])], ecols |-> a.cols,
                              kerr |-> k.err, krows |-> [x \in k.syms |-> Enc(k.rows[x])], kcols |-> k.cols,
                              hit |-> UNION {Hits(Files(ContentOf(x), tfc), q, z0) : x \in a.syms}])>>)
Emit == phase = "case" => (IF Mode = "multi" THEN EmitMulti ELSE EmitSingle)
=============================================================================
