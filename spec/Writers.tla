------------------------------ MODULE Writers ------------------------------
(***************************************************************************)
(* Concurrent write requests and the background WAL writer (C07).          *)
(*                                                                         *)
(*   executor/writer.go  WriteCSM: queue the commands, then RequestFlush   *)
(*   executor/wal.go     RequestFlush: if a flush request is already queued*)
(*                       return at once, else push a request and wait for  *)
(*                       the reply;  SyncWAL: take a request, FlushToWAL   *)
(*                       (count the queued commands, write + fsync the WAL,*)
(*                       write the primary files), reply.                  *)
(*                                                                         *)
(* One action per segment between two hook points of the real code, so a   *)
(* behaviour is a schedule the gate player can force on the real goroutines*)
(* (names of the hook points in comments).                                 *)
(*                                                                         *)
(* Deviation "EarlyReturn": RequestFlush returns without waiting when some *)
(* other request is queued - although that request may be served by a      *)
(* flush that started BEFORE this writer queued its commands.              *)
(***************************************************************************)
EXTENDS Integers, Sequences, FiniteSets, TLC, Json, SequencesExt

CONSTANTS Clients, Deviations, WithTick

VARIABLES pc,        \* client -> "start" | "bf" | "early" | "push" | "pushed" | "replied" | "ret"
          wch,       \* write channel: Seq of clients whose commands are queued
          fch,       \* flush channel: Seq of clients whose flush request is queued
          lpc,       \* loop: "select" | "took" | "counted" | "synced" | "prim" | "flushed"
          lreq,      \* client whose request the loop is serving ("" for a timer flush)
          lcur,      \* commands (clients) the current flush took from the write channel
          synced,    \* clients whose commands are in the fsynced WAL
          visible,   \* clients whose commands are in the primary files
          replies,   \* clients whose reply has been sent
          returned,  \* clients whose WriteCSM has returned success
          hist       \* schedule so far (hidden by VIEW)

vars == <<pc, wch, fch, lpc, lreq, lcur, synced, visible, replies, returned, hist>>

H(p, a, u) == hist' = Append(hist, [proc |-> p, act |-> a, until |-> u, ok |-> TRUE, n |-> 0])
HR(p, a, u, okk) == hist' = Append(hist, [proc |-> p, act |-> a, until |-> u, ok |-> okk, n |-> 0])
HN(p, a, u, k) == hist' = Append(hist, [proc |-> p, act |-> a, until |-> u, ok |-> TRUE, n |-> k])

Init == /\ pc = [c \in Clients |-> "start"] /\ wch = <<>> /\ fch = <<>> /\ lpc = "select" /\ lreq = "" /\ lcur = <<>>
        /\ synced = {} /\ visible = {} /\ replies = {} /\ returned = {} /\ hist = <<>>

\* ---- client ----
Enqueue(c) ==      \* WriteCSM queues its commands ... parks at WriteCSM.beforeFlush
  /\ pc[c] = "start" /\ pc' = [pc EXCEPT ![c] = "bf"] /\ wch' = Append(wch, c)
  /\ H(c, "Enqueue", "WriteCSM.beforeFlush")
  /\ UNCHANGED <<fch, lpc, lreq, lcur, synced, visible, replies, returned>>
Check(c) ==        \* RequestFlush reads len(flushChannel) ... parks at RequestFlush.early or RequestFlush.push
  /\ pc[c] = "bf"
  /\ LET early == Len(fch) > 0 /\ "EarlyReturn" \in Deviations IN
     /\ pc' = [pc EXCEPT ![c] = IF early THEN "early" ELSE "push"]
     /\ H(c, "Check", IF early THEN "RequestFlush.early" ELSE "RequestFlush.push")
  /\ UNCHANGED <<wch, fch, lpc, lreq, lcur, synced, visible, replies, returned>>
Early(c) ==        \* returns without waiting
  /\ pc[c] = "early" /\ pc' = [pc EXCEPT ![c] = "ret"] /\ returned' = returned \cup {c}
  /\ HR(c, "Return", "done", c \in synced /\ c \in visible)
  /\ UNCHANGED <<wch, fch, lpc, lreq, lcur, synced, visible, replies>>
Push(c) ==         \* flushChannel <- f ... parks at RequestFlush.pushed.  A loop that is waiting in its select takes the
                   \* request at once (it then parks at SyncWAL.flushReq); otherwise the request stays queued.
  /\ pc[c] = "push" /\ pc' = [pc EXCEPT ![c] = "pushed"]
  /\ IF lpc = "select" THEN /\ lpc' = "took" /\ lreq' = c /\ fch' = fch /\ HN(c, "Push", "RequestFlush.pushed", 1)
                        ELSE /\ fch' = Append(fch, c) /\ UNCHANGED <<lpc, lreq>> /\ H(c, "Push", "RequestFlush.pushed")
  /\ UNCHANGED <<wch, lcur, synced, visible, replies, returned>>
Replied(c) ==      \* <-f returns ... parks at RequestFlush.done
  /\ pc[c] = "pushed" /\ c \in replies /\ pc' = [pc EXCEPT ![c] = "replied"]
  /\ H(c, "Replied", "RequestFlush.done")
  /\ UNCHANGED <<wch, fch, lpc, lreq, lcur, synced, visible, replies, returned>>
Return(c) ==
  /\ pc[c] = "replied" /\ pc' = [pc EXCEPT ![c] = "ret"] /\ returned' = returned \cup {c}
  /\ HR(c, "Return", "done", c \in synced /\ c \in visible)
  /\ UNCHANGED <<wch, fch, lpc, lreq, lcur, synced, visible, replies>>

\* ---- background loop ----
Take ==            \* case f := <-flushChannel ... parks at SyncWAL.flushReq
  /\ lpc = "select" /\ fch # <<>>
  /\ lreq' = Head(fch) /\ fch' = Tail(fch) /\ lpc' = "took"
  /\ H("loop", "Take", "SyncWAL.flushReq")
  /\ UNCHANGED <<pc, wch, lcur, synced, visible, replies, returned>>
Tick ==            \* case <-tickerWAL.C ... parks at SyncWAL.tickWAL
  /\ WithTick /\ lpc = "select" /\ lreq' = "" /\ lpc' = "took"
  /\ H("loop", "Tick", "SyncWAL.tickWAL")
  /\ UNCHANGED <<pc, wch, fch, lcur, synced, visible, replies, returned>>
Count ==           \* WTCount := len(writeChannel) ... parks at FlushToWAL.count
  /\ lpc = "took" /\ lcur' = wch /\ wch' = <<>>
  /\ lpc' = IF wch = <<>> THEN "flushed" ELSE "counted"
  /\ HN("loop", "Count", "FlushToWAL.count", Len(wch))
  /\ UNCHANGED <<pc, fch, lreq, synced, visible, replies, returned>>
Sync ==            \* WAL writes + FilePtr.Sync() ... parks at Flush.synced
  /\ lpc = "counted" /\ synced' = synced \cup Range(lcur) /\ lpc' = "prim"
  /\ H("loop", "Sync", "Flush.synced")
  /\ UNCHANGED <<pc, wch, fch, lreq, lcur, visible, replies, returned>>
Primary ==         \* writePrimary of every file (one Flush.primary park per file; all of them here)
  /\ lpc = "prim" /\ visible' = visible \cup Range(lcur) /\ lpc' = "flushed"
  /\ HN("loop", "Primary", "Flush.primary", Cardinality(Range(lcur)))
  /\ UNCHANGED <<pc, wch, fch, lreq, lcur, synced, replies, returned>>
Reply ==           \* (parked at SyncWAL.flushReq.flushed) f <- struct{}{} ; back to select, which takes the next queued
                   \* request at once (parks at SyncWAL.flushReq) or waits
  /\ lpc = "flushed"
  /\ replies' = IF lreq = "" THEN replies ELSE replies \cup {lreq}
  /\ lcur' = <<>>
  /\ IF fch # <<>> THEN /\ lpc' = "took" /\ lreq' = Head(fch) /\ fch' = Tail(fch) /\ HN("loop", "Reply", "SyncWAL.flushReq", 1)
                    ELSE /\ lpc' = "select" /\ lreq' = "" /\ fch' = fch /\ H("loop", "Reply", "blocked")
  /\ UNCHANGED <<pc, wch, synced, visible, returned>>

Next == \/ \E c \in Clients : Enqueue(c) \/ Check(c) \/ Early(c) \/ Push(c) \/ Replied(c) \/ Return(c)
        \/ Take \/ Tick \/ Count \/ Sync \/ Primary \/ Reply
Spec == Init /\ [][Next]_vars
View == <<pc, wch, fch, lpc, lreq, lcur, synced, visible, replies, returned>>

\* C07: when a write request has returned, its data is in the fsynced WAL and visible to queries
AckImpliesSyncedAndVisible == \A c \in returned : c \in synced /\ c \in visible
\* no writer waits for ever once the loop keeps serving requests (checked as: a waiting writer's request is queued or being served)
NoLostWaiter == \A c \in Clients : pc[c] = "pushed" => (c \in replies \/ c \in Range(fch) \/ lreq = c)

AllDone == \A c \in Clients : pc[c] = "ret"
Emit == (AllDone /\ lpc = "select") => PrintT(<<"BEH", ToJson([steps |-> hist])>>)
\* for simulation: also emit when a client has just returned too early, with the schedule up to that moment
EmitBad == (\E c \in returned : ~(c \in synced /\ c \in visible)) =>
             PrintT(<<"BAD", ToJson([steps |-> hist, bad |-> {c \in returned : ~(c \in synced /\ c \in visible)}])>>)
=============================================================================
