-------------------------------- MODULE Sql --------------------------------
(***************************************************************************)
(* SQL front end of marketstore over ONE stored bucket (C19, C20).         *)
(*                                                                         *)
(* Declarative part : a WHERE clause is a conjunction of comparisons; the  *)
(*   (the property)   answer is the subsequence of stored rows satisfying  *)
(*                    all of them; a select list yields the named columns  *)
(*                    under their aliases; LIMIT n the first n rows;       *)
(*                    INSERT INTO a last-writer-wins image of the selected *)
(*                    rows on the target's interval grid.                  *)
(* Implementation   : sqlparser as coded -- every comparison is merged     *)
(*   shaped part      into a per-column StaticPredicate (min, max, equal,  *)
(*                    inclusive flags) by AddComparison, BETWEEN a AND b   *)
(*                    is (> a, < b), a provably false group short-cuts to  *)
(*                    the empty answer, the Epoch predicate is pushed down *)
(*                    into the scan range (SetStart / SetEnd with the +-1  *)
(*                    adjustment for inclusive bounds, the literal as it   *)
(*                    was parsed), the scanner returns whole intervals     *)
(*                    (fixed) or trims records to the range as             *)
(*                    trimResultsToRange does (variable), the post-filter  *)
(*                    bitmap is evaluated per column in its own domain,    *)
(*                    then Project / Rename / RestrictLength, and          *)
(*                    InsertIntoStatement writes the rows to the target.   *)
(*                                                                         *)
(* Places where the code is known to differ from the property are named    *)
(* deviations (constant Deviations); every implementation-shaped operator  *)
(* takes the set of deviations in force, so one TLC run yields for every   *)
(* statement the property's answer (expect) and the answers the tree gives *)
(* under the exercised deviations (alts, each with the smallest set of     *)
(* deviations that explains it; the full set is the unchanged tree).       *)
(*                                                                         *)
(* Domains.  Time: grid positions p = interval * G + offset, a time value  *)
(* is x = 2p (the odd numbers are "1 ns after / before" a position, which  *)
(* is what the push-down adjustment produces).  A seconds literal that the *)
(* code does not normalise is x - BIG (it denotes a time in 1970, before   *)
(* all data, and it compares below every nanosecond literal).  Values:     *)
(* level l of a column is 2l, bounds between / outside levels are odd.     *)
(***************************************************************************)
EXTENDS Integers, Sequences, FiniteSets, TLC, Json, SequencesExt

CONSTANTS Kind,        \* "fixed" | "variable": record type of the source bucket
          G,           \* grid positions per interval
          RowCodes,    \* stored rows, one integer each: 1000*position + 100*a + 10*b + c (levels 1..9)
          SecOffs,     \* offsets inside an interval that are whole seconds (a seconds literal can name them)
          EpochLits,   \* positions used as Epoch bounds (on / between / outside stored rows)
          BtwStrLits,  \* positions used as bounds of BETWEEN with datetime strings (all pairs lo < hi)
          BtwLits,     \* positions used for degenerate and non-string BETWEEN bounds
          ALits, BLits, CLits, \* bounds on the doubled level scale for the three value columns
          Unfiltered,  \* value columns whose element type the post-filter has no case for
          Depth,       \* comparisons per conjunction (C19 behaviours)
          Deviations,  \* known behaviour of the tree, subset of AllDeviations
          SampleMod, SampleSalt,   \* which conjunctions of >= 2 comparisons are emitted for replay (all are checked)
          TripleMod,               \* which pairs are extended to conjunctions of 3 (Depth = 3)
          Phase5, Phase60,         \* minute of interval 0 modulo 5 / 60 (target grids of INSERT INTO)
          TgtClasses,              \* subset of 1..4: 1 same timeframe, 2 five times, 3 sixty times coarser, 4 variable 5x
          SampleMod20,             \* which C20 cases outside the always-emitted classes are emitted
          Rich                     \* TRUE: the full cross product of C20 cases (thorough tier)

VARIABLES conj,   \* C19: sequence of atoms (a conjunction under construction)
          q       \* C20: the case (0 in C19 behaviours)
vars == <<conj, q>>

AllDeviations == {"EpochLteExcludesBound", "EpochGteExcludesBound", "EpochSecondsRaw", "LooserBoundKept",
                  "StickyInclusive", "LastEqualityWins", "UnfilteredColumnType",
                  "LimitZeroIsNoLimit", "AliasCollision"}
BIG == 10000

(***************************************************************************)
(* The stored bucket                                                       *)
(***************************************************************************)
RowSeq == SetToSortSeq(RowCodes, <)
NR     == Len(RowSeq)
AllIdx == [k \in 1..NR |-> k]
RowP(k)  == RowSeq[k] \div 1000
RowX(k)  == 2 * RowP(k)
RowIv(k) == RowP(k) \div G
ColVal(k, c) == CASE c = "Epoch" -> RowX(k)
                  [] c = "A" -> 2 * ((RowSeq[k] \div 100) % 10)
                  [] c = "B" -> 2 * ((RowSeq[k] \div 10) % 10)
                  [] c = "C" -> 2 * (RowSeq[k] % 10)
ValCols == <<"A", "B", "C">>
Cols    == {"Epoch", "A", "B", "C"}

Min2(a, b) == IF a < b THEN a ELSE b
FirstN(s, n) == SubSeq(s, 1, Min2(n, Len(s)))
SetMax(S) == CHOOSE m \in S : \A o \in S : o <= m

(***************************************************************************)
(* Atoms: one comparison of the WHERE clause                               *)
(***************************************************************************)
CmpOps == {"<", "<=", ">", ">=", "="}
EpochKinds(p) == IF (p % G) \in SecOffs THEN {"str", "sec", "ns"} ELSE {"str", "ns"}
EpochAtoms ==
  UNION {{[col |-> "Epoch", op |-> o, v |-> 2 * p, w |-> 0, k |-> kd] : o \in CmpOps, kd \in EpochKinds(p)} : p \in EpochLits}
  \cup {[col |-> "Epoch", op |-> "btw", v |-> 2 * pr[1], w |-> 2 * pr[2], k |-> "str"] : pr \in {x \in BtwStrLits \X BtwStrLits : x[1] < x[2]}}
  \cup {[col |-> "Epoch", op |-> "btw", v |-> 2 * pr[1], w |-> 2 * pr[2], k |-> "str"] : pr \in {x \in BtwLits \X BtwLits : x[1] >= x[2]}}
  \cup {[col |-> "Epoch", op |-> "btw", v |-> 2 * pr[1], w |-> 2 * pr[2], k |-> kd] :
            pr \in {x \in BtwLits \X BtwLits : x[1] < x[2]}, kd \in {"ns", "sec"}}
ValAtoms(c, lits) ==
  {[col |-> c, op |-> o, v |-> y, w |-> 0, k |-> "num"] : o \in CmpOps, y \in lits}
  \cup {[col |-> c, op |-> "btw", v |-> pr[1], w |-> pr[2], k |-> "num"] : pr \in {x \in lits \X lits : x[1] <= x[2]}}
\* a seconds literal exists only for whole-second positions
KindOK(a) == a.k \in EpochKinds(a.v \div 2) /\ (a.op = "btw" => a.k \in EpochKinds(a.w \div 2))
Atoms == {a \in EpochAtoms : KindOK(a)} \cup ValAtoms("A", ALits) \cup ValAtoms("B", BLits) \cup ValAtoms("C", CLits)
AtomsOf(cj) == cj
\* a number per atom, only used to pick the sample of cases that is emitted for replay
ColNo(c) == CASE c = "Epoch" -> 1 [] c = "A" -> 2 [] c = "B" -> 3 [] c = "C" -> 4
OpNo(o)  == CASE o = "<" -> 1 [] o = "<=" -> 2 [] o = ">" -> 3 [] o = ">=" -> 4 [] o = "=" -> 5 [] o = "btw" -> 6
KindNo(k) == CASE k = "str" -> 1 [] k = "sec" -> 2 [] k = "ns" -> 3 [] k = "num" -> 4
AtomKey(a) == ColNo(a.col) * 7 + OpNo(a.op) * 61 + KindNo(a.k) * 211 + a.v * 13 + a.w * 389

(***************************************************************************)
(* Declarative semantics (the property)                                    *)
(***************************************************************************)
Holds(a, k) == LET v == ColVal(k, a.col) IN
               CASE a.op = "<"  -> v < a.v
                 [] a.op = "<=" -> v <= a.v
                 [] a.op = ">"  -> v > a.v
                 [] a.op = ">=" -> v >= a.v
                 [] a.op = "="  -> v = a.v
                 [] a.op = "btw" -> a.v < v /\ v < a.w        \* strictly between, as this server defines it
DeclRows(as) == LET Sat(k) == \A i \in 1..Len(as) : Holds(as[i], k) IN SelectSeq(AllIdx, Sat)
DeclLimit(s, lim) == IF lim = 0 - 1 THEN s ELSE FirstN(s, lim)

(***************************************************************************)
(* Implementation-shaped: the predicate group                              *)
(***************************************************************************)
\* the literal as the parser hands it to the predicate: CoerceToNumeric turns a datetime string into
\* nanoseconds; an integer literal stays what it is (seconds are NOT converted to nanoseconds there)
Raw(kd, x, devs) == IF kd = "sec" /\ "EpochSecondsRaw" \in devs THEN x - BIG ELSE x
Norm(r) == IF r < 0 THEN r + BIG ELSE r          \* convertUnitToNanosec (applied by the post-filter only)

\* VisitComparisonParse / VisitBetweenParse fill a fresh pending predicate; StaticPredicateGroup.Merge
\* replays it into the column's predicate in the order min, max, equal
Prims(a, devs) == IF a.op = "btw"
                  THEN <<[op |-> ">", r |-> Raw(a.k, a.v, devs)], [op |-> "<", r |-> Raw(a.k, a.w, devs)]>>
                  ELSE <<[op |-> a.op, r |-> Raw(a.k, a.v, devs)]>>

NoPred == [hmin |-> FALSE, min |-> 0, imin |-> FALSE, hmax |-> FALSE, max |-> 0, imax |-> FALSE,
           heq |-> FALSE, eq |-> 0, contra |-> FALSE]

\* StaticPredicate.AddComparison preceded by Merge's ContentsEnum.AddOption calls.
\*  as coded : a second bound replaces the stored one only when it is NOT "within" it, i.e. the looser
\*             bound survives ("LooserBoundKept"); option bits are only ever added, so once a bound was
\*             inclusive it stays inclusive ("StickyInclusive"); a second equality overwrites the first
\*             ("LastEqualityWins").
\*  pure     : the tighter bound survives with its own flag (on equal bounds exclusive wins), two different
\*             equalities are a contradiction.
AddCmp(sp, op, r, devs) ==
  CASE op = "=" ->
         IF "LastEqualityWins" \in devs \/ ~sp.heq THEN [sp EXCEPT !.heq = TRUE, !.eq = r]
         ELSE IF sp.eq = r THEN sp ELSE [sp EXCEPT !.contra = TRUE]
    [] op \in {"<", "<="} ->
         LET inc == (op = "<=") IN
         IF ~sp.hmax THEN [sp EXCEPT !.hmax = TRUE, !.max = r, !.imax = inc]
         ELSE LET within  == IF op = "<" THEN r < sp.max ELSE r <= sp.max      \* GenericComparison(value, sp.max, op)
                  takeNew == IF "LooserBoundKept" \in devs THEN ~within ELSE r < sp.max
                  flag    == IF "StickyInclusive" \in devs THEN sp.imax \/ inc
                             ELSE IF r = sp.max THEN sp.imax /\ inc ELSE IF takeNew THEN inc ELSE sp.imax
              IN [sp EXCEPT !.max = IF takeNew THEN r ELSE @, !.imax = flag]
    [] op \in {">", ">="} ->
         LET inc == (op = ">=") IN
         IF ~sp.hmin THEN [sp EXCEPT !.hmin = TRUE, !.min = r, !.imin = inc]
         ELSE LET within  == IF op = ">" THEN r > sp.min ELSE r >= sp.min
                  takeNew == IF "LooserBoundKept" \in devs THEN ~within ELSE r > sp.min
                  flag    == IF "StickyInclusive" \in devs THEN sp.imin \/ inc
                             ELSE IF r = sp.min THEN sp.imin /\ inc ELSE IF takeNew THEN inc ELSE sp.imin
              IN [sp EXCEPT !.min = IF takeNew THEN r ELSE @, !.imin = flag]

RECURSIVE ApplyPrims(_, _, _)
ApplyPrims(sp, ps, devs) == IF ps = <<>> THEN sp ELSE ApplyPrims(AddCmp(sp, Head(ps).op, Head(ps).r, devs), Tail(ps), devs)
RECURSIVE Group(_, _, _)
Group(g, as, devs) == IF as = <<>> THEN g
                      ELSE LET a == Head(as) IN Group([g EXCEPT ![a.col] = ApplyPrims(@, Prims(a, devs), devs)], Tail(as), devs)
GroupOf(as, devs) == Group([c \in Cols |-> NoPred], as, devs)

\* StaticPredicate.IsFalse: min > max on the stored literals (plus, pure only, contradicting equalities)
IsFalse(sp) == sp.contra \/ (sp.hmin /\ sp.hmax /\ sp.min > sp.max)

(***************************************************************************)
(* Implementation-shaped: push-down, scan, post-filter                     *)
(***************************************************************************)
NoStart == 0 - 2 * BIG
NoEnd   == 2 * BIG
\* SelectRelation.Materialize: q.SetStart(min [+1 if INCLUSIVEMIN]), q.SetEnd(max [-1 if INCLUSIVEMAX]); the
\* adjustment shrinks the range for inclusive bounds (it was meant for the exclusive ones); pure: no adjustment,
\* the post-filter decides about the bound itself
ScanStart(sp, devs) == IF sp.hmin THEN sp.min + (IF sp.imin /\ "EpochGteExcludesBound" \in devs THEN 1 ELSE 0) ELSE NoStart
ScanEnd(sp, devs)   == IF sp.hmax THEN sp.max - (IF sp.imax /\ "EpochLteExcludesBound" \in devs THEN 1 ELSE 0) ELSE NoEnd
IvOfX(x) == IF x < 0 THEN 0 - 1 ELSE (x \div 2) \div G        \* a time in 1970 lies before every file

\* NewIOPlan: slots from TimeToOffset(Start) to TimeToOffset(End) inclusive
InIvRange(k, s, e) == RowIv(k) >= IvOfX(s) /\ RowIv(k) <= IvOfX(e)
ScanFixed(s, e) == LET In(k) == InIvRange(k, s, e) IN SelectSeq(AllIdx, In)
\* variable records: whole intervals, then trimResultsToRange: drop records before Start (none left -> nil);
\* with at most one record left it returns; otherwise cut behind the last record <= End, and if there is no
\* such record nothing is cut
ScanVar(s, e) == LET In(k) == InIvRange(k, s, e)
                     cand == SelectSeq(AllIdx, In)
                     Ge(k) == RowX(k) >= s
                     d1 == SelectSeq(cand, Ge)
                     ok == {i \in 1..Len(d1) : RowX(d1[i]) <= e}
                 IN IF Len(d1) <= 1 THEN d1 ELSE IF ok = {} THEN d1 ELSE SubSeq(d1, 1, SetMax(ok))
Scan(s, e) == IF Kind = "fixed" THEN ScanFixed(s, e) ELSE ScanVar(s, e)
\* q.SetRowLimit(FIRST, n) when there is no predicate: fixed = n slots; variable = n index records (intervals),
\* expanded, then trimResultsToLimit(n)
ScanLimited(sc, n) == IF Kind = "fixed" THEN FirstN(sc, n)
                      ELSE LET ivs == {RowIv(sc[i]) : i \in 1..Len(sc)}
                               firstIvs == {iv \in ivs : Cardinality({j \in ivs : j < iv}) < n}
                               InFirst(k) == RowIv(k) \in firstIvs
                           IN FirstN(SelectSeq(sc, InFirst), n)

\* the removal bitmap: per column with a predicate, in the column's own domain; element types without a case
\* in the type switch are skipped ("UnfilteredColumnType")
PredHolds(sp, v) == /\ (sp.heq => v = Norm(sp.eq))
                    /\ (sp.hmin => IF sp.imin THEN v >= Norm(sp.min) ELSE v > Norm(sp.min))
                    /\ (sp.hmax => IF sp.imax THEN v <= Norm(sp.max) ELSE v < Norm(sp.max))
IsFiltered(c, devs) == ~(c \in Unfiltered /\ "UnfilteredColumnType" \in devs)
KeepRow(k, g, devs) == \A c \in Cols : IsFiltered(c, devs) => PredHolds(g[c], ColVal(k, c))

\* `if sr.Limit != 0`: LIMIT 0 and no LIMIT are the same thing to the code ("LimitZeroIsNoLimit")
LimActive(lim, devs) == lim # 0 - 1 /\ ("LimitZeroIsNoLimit" \in devs => lim # 0)

ImplRows(as, lim, devs) ==
  LET g == GroupOf(as, devs) IN
  IF \E c \in Cols : IsFalse(g[c]) THEN <<>>
  ELSE LET sc   == Scan(ScanStart(g["Epoch"], devs), ScanEnd(g["Epoch"], devs))
           sc2  == IF as = <<>> /\ LimActive(lim, devs) THEN ScanLimited(sc, lim) ELSE sc
           Keep(k) == KeepRow(k, g, devs)
           flt  == SelectSeq(sc2, Keep)
       IN IF LimActive(lim, devs) THEN FirstN(flt, lim) ELSE flt

(***************************************************************************)
(* Project / Rename                                                        *)
(***************************************************************************)
\* a select item: column c with alias al ("" = none); a result column: output name n fed by stored column s
ErrCols == <<[n |-> "ERR", s |-> "ERR"]>>
DeclCols(sel) == [i \in 1..Len(sel) |-> [n |-> IF sel[i].al = "" THEN sel[i].c ELSE sel[i].al, s |-> sel[i].c]]
\* ColumnSeries.Rename(alias, name) as coded: a column already called <alias> is removed first, then the
\* column called <name> takes the alias in place; it fails when no column is called <name> any more
RECURSIVE RenameAll(_, _, _)
RenameAll(cols, sel, i) ==
  IF i > Len(sel) THEN cols
  ELSE IF sel[i].al = "" THEN RenameAll(cols, sel, i + 1)
  ELSE IF ~\E j \in 1..Len(cols) : cols[j].n = sel[i].c THEN ErrCols
  ELSE LET NotAl(x) == x.n # sel[i].al
           kept == SelectSeq(cols, NotAl)
           ren  == [j \in 1..Len(kept) |-> IF kept[j].n = sel[i].c THEN [n |-> sel[i].al, s |-> kept[j].s] ELSE kept[j]]
       IN RenameAll(ren, sel, i + 1)
ImplCols(sel, devs) == IF "AliasCollision" \in devs
                       THEN RenameAll([i \in 1..Len(sel) |-> [n |-> sel[i].c, s |-> sel[i].c]], sel, 1)
                       ELSE DeclCols(sel)

(***************************************************************************)
(* INSERT INTO                                                             *)
(***************************************************************************)
TgtSlot(cls, iv) == CASE cls = 1 -> iv
                      [] cls = 2 -> (iv + Phase5) \div 5
                      [] cls = 3 -> (iv + Phase60) \div 60
                      [] cls = 4 -> (iv + Phase5) \div 5
\* target image: sequence of [slot, row]; a fixed target keeps one row per slot, a variable target all of them
DeclTarget(rows, cls) ==
  IF cls = 4 THEN [i \in 1..Len(rows) |-> [slot |-> TgtSlot(cls, RowIv(rows[i])), row |-> rows[i]]]
  ELSE LET slots == {TgtSlot(cls, RowIv(rows[i])) : i \in 1..Len(rows)}
           LastOf(s) == SetMax({rows[i] : i \in {j \in 1..Len(rows) : TgtSlot(cls, RowIv(rows[j])) = s}})
       IN SetToSortSeq({[slot |-> s, row |-> LastOf(s)] : s \in slots}, LAMBDA x, y : x.slot < y.slot)
\* InsertIntoStatement.Materialize -> WriteCSM: rows are written in result order, a row replaces what its slot holds
RECURSIVE WriteRows(_, _, _)
WriteRows(m, rows, cls) == IF rows = <<>> THEN m
                           ELSE WriteRows([m EXCEPT ![TgtSlot(cls, RowIv(Head(rows)))] = Head(rows)], Tail(rows), cls)
MaxSlot == 8        \* intervals 0..7 of the source map to slots 0..7 at most
ImplTarget(rows, cls) ==
  IF cls = 4 THEN [i \in 1..Len(rows) |-> [slot |-> TgtSlot(cls, RowIv(rows[i])), row |-> rows[i]]]
  ELSE LET m == WriteRows([s \in 0..MaxSlot |-> 0], rows, cls)
       IN SetToSortSeq({[slot |-> s, row |-> m[s]] : s \in {t \in 0..MaxSlot : m[t] # 0}}, LAMBDA x, y : x.slot < y.slot)

(***************************************************************************)
(* Which deviations does a statement exercise?  (syntactic guards)         *)
(***************************************************************************)
PrimDirs(a) == IF a.op = "btw" THEN {"lo", "hi"} ELSE IF a.op \in {">", ">="} THEN {"lo"} ELSE IF a.op \in {"<", "<="} THEN {"hi"} ELSE {}
TwoSameDir(as) == \E i, j \in 1..Len(as) : i < j /\ as[i].col = as[j].col /\ PrimDirs(as[i]) \cap PrimDirs(as[j]) # {}
Guard(d, as, sel, lim) ==
  CASE d = "EpochLteExcludesBound" -> \E i \in 1..Len(as) : as[i].col = "Epoch" /\ as[i].op = "<="
    [] d = "EpochGteExcludesBound" -> \E i \in 1..Len(as) : as[i].col = "Epoch" /\ as[i].op = ">="
    [] d = "EpochSecondsRaw"       -> \E i \in 1..Len(as) : as[i].col = "Epoch" /\ as[i].k = "sec" /\ as[i].op # "="
    [] d = "LooserBoundKept"       -> TwoSameDir(as)
    [] d = "StickyInclusive"       -> TwoSameDir(as)
    [] d = "LastEqualityWins"      -> \E i, j \in 1..Len(as) : i < j /\ as[i].col = as[j].col /\ as[i].op = "=" /\ as[j].op = "="
    [] d = "UnfilteredColumnType"  -> \E i \in 1..Len(as) : as[i].col \in Unfiltered
    [] d = "LimitZeroIsNoLimit"    -> lim = 0
    [] d = "AliasCollision"        -> \E i \in 1..Len(sel) : sel[i].al \in {"A", "B", "C"}
Guards(as, sel, lim) == {d \in Deviations : Guard(d, as, sel, lim)}

(***************************************************************************)
(* C19 behaviours: conjunctions grow one comparison at a time              *)
(***************************************************************************)
InitW == conj = <<>> /\ q = 0
\* all conjunctions of <= 2 comparisons; a third comparison is added to every TripleMod-th pair only
PairKey(cj) == AtomKey(cj[1]) * 131 + AtomKey(cj[2]) * 337 + SampleSalt
NextW == /\ Len(conj) < Depth
         /\ (Len(conj) = 2 => PairKey(conj) % TripleMod = 0)
         /\ \E a \in Atoms : conj' = Append(conj, a)
         /\ UNCHANGED q
SpecW == InitW /\ [][NextW]_vars

\* E1: the pure implementation answers every conjunction like the declarative filter
PureRefinesDecl == ImplRows(AtomsOf(conj), 0 - 1, {}) = DeclRows(AtomsOf(conj))
\* the deviating implementation differs from the pure one only when a listed deviation is exercised
DeviationsExplainAllW == (Guards(AtomsOf(conj), <<>>, 0 - 1) = {})
                            => ImplRows(AtomsOf(conj), 0 - 1, Deviations) = ImplRows(AtomsOf(conj), 0 - 1, {})

\* the three statements above in one invariant (one evaluation of each answer per state; this is what the cfg uses)
CheckW == LET as   == AtomsOf(conj)
              pure == ImplRows(as, 0 - 1, {})
              gs   == Guards(as, <<>>, 0 - 1)
              dev  == ImplRows(as, 0 - 1, Deviations)
          IN /\ pure = DeclRows(as)
             /\ IF gs = {} THEN dev = pure ELSE ImplRows(as, 0 - 1, gs) = dev

\* What the tree may answer instead of the property's answer, and why: for every answer that some subset of the
\* exercised deviations produces, the smallest such subsets.  The full set is the unchanged tree; the proper subsets
\* are what remains after some of the listed defects have been repaired.
MinExpl(gs, Same(_)) == LET expl == {D \in SUBSET gs : Same(D)}
                            m == CHOOSE n \in 0..Cardinality(gs) : (\E D \in expl : Cardinality(D) = n) /\ \A D \in expl : Cardinality(D) >= n
                        IN {D \in expl : Cardinality(D) = m}
Alts(gs, F(_), exp) == LET answers == {F(D) : D \in SUBSET gs} \ {exp}
                           Devs(r) == LET Same(D) == F(D) = r IN MinExpl(gs, Same)
                       IN {[ans |-> r, devs |-> Devs(r)] : r \in answers}
AltsW(as) == LET F(D) == ImplRows(as, 0 - 1, D) IN Alts(Guards(as, <<>>, 0 - 1), F, DeclRows(as))
\* the unchanged tree is among them (deviations whose guard is false change nothing)
GuardsSufficeW == LET as == AtomsOf(conj) IN ImplRows(as, 0 - 1, Guards(as, <<>>, 0 - 1)) = ImplRows(as, 0 - 1, Deviations)

\* pairs that are always replayed: two comparisons on ONE value column that meet at the same bound value from
\* opposite sides or the same side (where min = max, where a bound is tightened to itself)
Critical(cj) == Len(cj) = 2 /\ cj[1].col = cj[2].col /\ cj[1].col # "Epoch" /\ cj[1].op # "btw" /\ cj[2].op # "btw"
                /\ cj[1].v = cj[2].v /\ cj[1].op # cj[2].op
SampledW == \/ Len(conj) = 1
            \/ Critical(conj)
            \/ (Len(conj) = 2 /\ (PairKey(conj) + 1) % SampleMod = 0)
            \/ (Len(conj) = 3 /\ (AtomKey(conj[3]) * 7 + AtomKey(conj[1])) % SampleMod = 0)
EmitW == (conj # <<>> /\ SampledW) =>
           LET as == AtomsOf(conj) IN
           PrintT(<<"CASE", ToJson([conj |-> as, expect |-> DeclRows(as), alts |-> AltsW(as)])>>)

(***************************************************************************)
(* C20 cases: select list x LIMIT x WHERE x INSERT target                  *)
(***************************************************************************)
AllColsSeqs == UNION {[1..n -> Cols] : n \in 1..4}
SelOrders == {s \in AllColsSeqs : \A i, j \in 1..Len(s) : i # j => s[i] # s[j]}
NextCol(c) == CASE c = "A" -> "B" [] c = "B" -> "C" [] c = "C" -> "A" [] OTHER -> ""
FreshName == <<"F1", "F2", "F3", "F4">>
AliasMarks(s) == {m \in [1..Len(s) -> {"", "F", "N"}] : \A i \in 1..Len(s) : s[i] = "Epoch" => m[i] # "N"}
MkSel(s, m) == [i \in 1..Len(s) |-> [c |-> s[i], al |-> IF m[i] = "F" THEN FreshName[i] ELSE IF m[i] = "N" THEN NextCol(s[i]) ELSE ""]]
DistinctOut(sel) == \A i, j \in 1..Len(sel) : i # j => DeclCols(sel)[i].n # DeclCols(sel)[j].n
\* (the big sets take a dummy parameter so that TLC builds them only for the C20 runs that use them)
SelLists(x) == {sel \in UNION {{MkSel(s, m) : m \in AliasMarks(s)} : s \in SelOrders} : DistinctOut(sel)}
\* select lists usable as INSERT source: Epoch and at least one value column, no colliding alias, Epoch not renamed
IsInsList(sel) == /\ Len(sel) >= 2
                  /\ \E i \in 1..Len(sel) : sel[i].c = "Epoch" /\ sel[i].al = ""
                  /\ \A i \in 1..Len(sel) : sel[i].al \notin {"A", "B", "C"}

\* WHERE clauses of C20 cases: none or one comparison that exercises no C19 deviation
WAtoms == {a \in Atoms : /\ a.k \in {"str", "num"}
                         /\ a.col \notin Unfiltered
                         /\ a.op \in {">", "<", "btw", "="}}
\* all of them for LIMIT and INSERT over `*`, one for the select-list cases
W1 == CHOOSE a \in WAtoms : a.col = "A" /\ a.op = ">" /\ \A b \in WAtoms : (b.col = "A" /\ b.op = ">") => a.v <= b.v
WAll == {<<>>} \cup {<<a>> : a \in WAtoms}
WOne == {<<>>, <<W1>>}

\* Rich = FALSE: LIMIT / WHERE are combined with the short select lists only, INSERT uses the select lists of <= 3 items
Cases20(x) ==
  LET lists == SelLists(x)
      short == {s \in lists : Len(s) <= 2}
      insl  == {s \in lists : IsInsList(s) /\ (Rich \/ Len(s) <= 3)}
  IN   {[star |-> FALSE, sel |-> s, lim |-> 0 - 1, w |-> <<>>, ins |-> 0] : s \in lists}
  \cup {[star |-> FALSE, sel |-> s, lim |-> l, w |-> w, ins |-> 0] : s \in (IF Rich THEN lists ELSE short), l \in {0 - 1, 2}, w \in WOne}
  \cup {[star |-> TRUE, sel |-> <<>>, lim |-> l, w |-> w, ins |-> 0] : l \in (0 - 1)..(NR + 1), w \in WAll}
  \cup {[star |-> TRUE, sel |-> <<>>, lim |-> l, w |-> w, ins |-> t] : l \in {0 - 1, 2}, w \in WAll, t \in TgtClasses}
  \cup {[star |-> FALSE, sel |-> s, lim |-> l, w |-> w, ins |-> t] :
            s \in insl, l \in {0 - 1, 2}, w \in WOne, t \in TgtClasses}
Init20 == conj = <<>> /\ q \in Cases20(0)
Next20 == UNCHANGED vars
Spec20 == Init20 /\ [][Next20]_vars

WOf(cs) == cs.w
StarCols == [i \in 1..4 |-> [n |-> <<"Epoch", "A", "B", "C">>[i], s |-> <<"Epoch", "A", "B", "C">>[i]]]
Answer20(cs, devs, pure) ==
  LET rows == IF pure THEN DeclLimit(DeclRows(WOf(cs)), cs.lim) ELSE ImplRows(WOf(cs), cs.lim, devs)
      cols == IF cs.star THEN StarCols ELSE IF pure THEN DeclCols(cs.sel) ELSE ImplCols(cs.sel, devs)
  IN [rows |-> rows, cols |-> cols,
      tgt |-> IF cs.ins = 0 THEN <<>> ELSE IF cols = ErrCols THEN <<>>
              ELSE IF pure THEN DeclTarget(rows, cs.ins) ELSE ImplTarget(rows, cs.ins)]

\* E1 for C20: with no deviation the pipeline is the relational answer
PureRefinesDecl20 == Answer20(q, {}, FALSE) = Answer20(q, {}, TRUE)
DeviationsExplainAll20 == LET cs == q IN
                          (Guards(WOf(cs), cs.sel, cs.lim) = {}) => Answer20(cs, Deviations, FALSE) = Answer20(cs, {}, TRUE)
\* the WHERE clauses used here stay clear of the C19 deviations
WhereIsClean20 == LET cs == q IN ImplRows(WOf(cs), 0 - 1, Deviations) = DeclRows(WOf(cs))

Alts20(cs) == LET F(D) == Answer20(cs, D, FALSE) IN Alts(Guards(WOf(cs), cs.sel, cs.lim), F, Answer20(cs, {}, TRUE))
GuardsSuffice20 == LET cs == q IN Answer20(cs, Guards(WOf(cs), cs.sel, cs.lim), FALSE) = Answer20(cs, Deviations, FALSE)

Check20 == LET cs   == q
               decl == Answer20(cs, {}, TRUE)
               gs   == Guards(WOf(cs), cs.sel, cs.lim)
               dev  == Answer20(cs, Deviations, FALSE)
           IN /\ Answer20(cs, {}, FALSE) = decl
              /\ IF gs = {} THEN dev = decl ELSE Answer20(cs, gs, FALSE) = dev
              /\ (cs.w # <<>> => ImplRows(WOf(cs), 0 - 1, Deviations) = DeclRows(WOf(cs)))

AlNo(al) == CASE al = "" -> 0 [] al = "A" -> 1 [] al = "B" -> 2 [] al = "C" -> 3 [] OTHER -> 4
RECURSIVE SelKey(_, _)
SelKey(sel, i) == IF i > Len(sel) THEN 0 ELSE (ColNo(sel[i].c) * 5 + AlNo(sel[i].al)) + 23 * SelKey(sel, i + 1)
CaseKey(cs) == SelKey(cs.sel, 1) * 3 + (cs.lim + 1) * 7919 + cs.ins * 104729 + (IF cs.w = <<>> THEN 0 ELSE AtomKey(cs.w[1]) * 31)
Sampled20 == LET cs == q IN
             \/ cs.star /\ cs.ins = 0 /\ cs.w \in WOne                      \* every LIMIT, with and without WHERE
             \/ ~cs.star /\ cs.ins = 0 /\ cs.lim = 0 - 1 /\ cs.w = <<>> /\ Len(cs.sel) <= 2   \* every short select list
             \/ (CaseKey(cs) + SampleSalt) % SampleMod20 = 0
Emit20 == Sampled20 =>
            LET cs == q IN
            PrintT(<<"CASE", ToJson([star |-> cs.star, sel |-> cs.sel, lim |-> cs.lim, w |-> WOf(cs), ins |-> cs.ins,
                                     expect |-> Answer20(cs, {}, TRUE), alts |-> Alts20(cs)])>>)

\* hides nothing: the state is the case itself
View == vars
=============================================================================
