----------------------------- MODULE TimeIndex -----------------------------
(***************************************************************************)
(* Interval indexing (C30) and candle-window arithmetic (C31) of           *)
(* marketstore, over integer civil-calendar arithmetic.                    *)
(*                                                                         *)
(*   utils/io/timeindex.go : TimeToIndex, IndexToTime, IndexToOffset,      *)
(*                           TimeToOffset                                  *)
(*   utils/io/metadata.go  : FileSize (nanosecondsInYear uses time.Local)  *)
(*   utils/timeframe.go    : CandleDuration.Truncate / Ceil / IsWithin,    *)
(*                           CandleDurationFromString, TimeframeFromString,*)
(*                           TimeframeFromDuration, QueryableTimeframe     *)
(*                                                                         *)
(* Time is an integer number of seconds relative to Base = 2018-01-01      *)
(* 00:00:00 UTC (a Monday): TLC integers are 32 bit.  All supported        *)
(* timeframes and candle durations are whole seconds, and every function   *)
(* modelled here only floors to multiples of whole seconds or to calendar  *)
(* boundaries, so the sub-second part of a timestamp never matters (the    *)
(* replay adds nanoseconds to the concrete inputs and expects the same     *)
(* answers).                                                               *)
(*                                                                         *)
(* The zone-offset table (UTC, America/New_York, Asia/Tokyo,               *)
(* Australia/Lord_Howe, ...) is an INPUT: it is produced from Go's tz data *)
(* by the harness op "ti_zones" and read from the JSON file InputFile,     *)
(* together with utils.Timeframes and the seeded sampling parameters.      *)
(*                                                                         *)
(* Implementation-shaped operators take a set `devs` of named deviations:  *)
(* with devs = {} they describe the intended behaviour (the property       *)
(* holds), with devs = Deviations they describe what the unchanged tree    *)
(* is known to do.  Both answers are computed side by side for every       *)
(* enumerated input, and both are emitted for the replay into the real     *)
(* code.                                                                   *)
(*                                                                         *)
(*   DailyIndexFromZero : TimeToIndex(1D) = YearDay-1, so January 1 gets   *)
(*                        index 0 = offset Headersize - recordLen          *)
(*   DayCeilAdds24h     : Ceil for suffix D takes the date of ts + 24h     *)
(*                        (wrong next to a 23h/25h/24.5h day)              *)
(*   WeekIsoWindow      : IsWithin for suffix W compares ISO weeks of the  *)
(*                        local wall clock (Truncate is epoch aligned and  *)
(*                        honours the multiplier)                          *)
(*   PrintDropsRemainder: TimeframeFromDuration prints floor(d / unit) of  *)
(*                        the largest unit <= d (90Min -> "1H")            *)
(*   PrintNilAboveYear  : TimeframeFromDuration(d) = nil for d > 1Y        *)
(***************************************************************************)
EXTENDS Integers, Sequences, FiniteSets, TLC, Json, SequencesExt

CONSTANTS InputFile,    \* absolute path of the generated JSON input
          Mode,         \* "index" (C30) | "candle" (C31: window cases and parse cases)
          Deviations    \* subset of the names above: the known behaviour of the unchanged tree

VARIABLE c              \* the case under consideration (a record; shape depends on Mode)

\* TLC does not cache the result of JsonDeserialize; the input and the tables derived from it are evaluated once
\* (ASSUME at the end of the module) and kept in TLC registers
Input == TLCGet(1)

(***************************************************************************)
(* Civil calendar (proleptic Gregorian), days counted from 0001-01-01      *)
(***************************************************************************)
DaySec  == 86400
BaseDay == 736694                       \* days from 0001-01-01 (a Monday) to 2018-01-01 (a Monday)
IsLeap(y) == (y % 4 = 0 /\ y % 100 # 0) \/ y % 400 = 0
DaysBeforeYear(y) == 365 * (y - 1) + (y - 1) \div 4 - (y - 1) \div 100 + (y - 1) \div 400
ASSUME DaysBeforeYear(2018) = BaseDay /\ BaseDay % 7 = 0
DaysInYear(y) == IF IsLeap(y) THEN 366 ELSE 365

AbsDay(l)   == BaseDay + l \div DaySec                      \* l: wall-clock seconds relative to Base
SecOfDay(l) == l % DaySec
YearOfDay(n) == LET e == 1 + (400 * n) \div 146097
                IN  IF DaysBeforeYear(e) > n THEN e - 1
                    ELSE IF DaysBeforeYear(e + 1) <= n THEN e + 1 ELSE e
YearOf(l)   == YearOfDay(AbsDay(l))
YearDay(l)  == AbsDay(l) - DaysBeforeYear(YearOf(l)) + 1    \* 1-based, time.Time.YearDay
MonthLens(y) == IF IsLeap(y) THEN <<31, 29, 31, 30, 31, 30, 31, 31, 30, 31, 30, 31>>
                ELSE <<31, 28, 31, 30, 31, 30, 31, 31, 30, 31, 30, 31>>
CumNormal == <<0, 31, 59, 90, 120, 151, 181, 212, 243, 273, 304, 334, 365>>
CumLeap   == <<0, 31, 60, 91, 121, 152, 182, 213, 244, 274, 305, 335, 366>>
ASSUME \A y \in {2019, 2020} : \A m \in 1..12 :
         (IF IsLeap(y) THEN CumLeap ELSE CumNormal)[m + 1] = (IF IsLeap(y) THEN CumLeap ELSE CumNormal)[m] + MonthLens(y)[m]
CumBefore(y, m) == IF IsLeap(y) THEN CumLeap[m] ELSE CumNormal[m]      \* days of year y before month m (m = 13: the whole year)
MonthOf(l) == LET y == YearOf(l)  d0 == YearDay(l) - 1  cum == IF IsLeap(y) THEN CumLeap ELSE CumNormal
              IN  CHOOSE m \in 1..12 : cum[m] <= d0 /\ d0 < cum[m + 1]
\* wall-clock seconds (relative to Base) of y-m-01 00:00:00; m may be 13 (= January of y+1)
MonthStartLocal(y, m) == IF m = 13 THEN (DaysBeforeYear(y + 1) - BaseDay) * DaySec
                         ELSE (DaysBeforeYear(y) + CumBefore(y, m) - BaseDay) * DaySec
YearStartLocal(y) == MonthStartLocal(y, 1)
MidnightOf(l) == l - SecOfDay(l)
\* ISO 8601 week: the week (Monday..Sunday) belongs to the year of its Thursday
IsoWeek(l) == LET n == AbsDay(l)  th == n - (n % 7) + 3  y == YearOfDay(th)
              IN  <<y, (th - DaysBeforeYear(y)) \div 7 + 1>>

(***************************************************************************)
(* Zones: table of <<from (seconds rel. Base, UTC), offset>>, ascending    *)
(***************************************************************************)
Zones == Input.zones
ZI    == 1..Len(Zones)
Tab(z) == Zones[z].tab
Period(z, s) == LET T == Tab(z)
                IN  IF s < T[1][1] THEN 1
                    ELSE CHOOSE i \in 1..Len(T) : T[i][1] <= s /\ (i = Len(T) \/ s < T[i + 1][1])
Off(z, s)   == Tab(z)[Period(z, s)][2]
Local(z, s) == s + Off(z, s)                                \* t.In(loc), as wall-clock seconds
\* time.Date(y, m, d, hh, mm, ss, 0, loc) for the wall-clock value l: Go looks the offset up at l (as if it
\* were UTC), and looks again at the corrected instant when that leaves the zone period it found
AbsOfLocal(z, l) == LET p == Period(z, l)  o == Tab(z)[p][2]  u == l - o
                    IN  IF o = 0 THEN l ELSE IF Period(z, u) = p THEN u ELSE l - Off(z, u)
UtcZone == CHOOSE z \in ZI : Zones[z].name = "UTC"

(***************************************************************************)
(* C30: utils/io/timeindex.go, utils/io/metadata.go                        *)
(***************************************************************************)
Headersize == 37024
Timeframes == Input.timeframes                 \* utils.Timeframes: <<[name, sec]>>
TFI == 1..Len(Timeframes)
Years == Input.years
RecLens == Range(Input.reclens)

YearStartDate(z, y) == AbsOfLocal(z, YearStartLocal(y))      \* time.Date(y, January, 1, 0, 0, 0, 0, loc)
YsYears == (Years[1] - 2)..(Years[Len(Years)] + 2)           \* tabulated once (register 4)
YearStartAbs(z, y) == IF y \in YsYears THEN TLCGet(4)[z][y] ELSE YearStartDate(z, y)
Shift(tf, devs) == IF tf = DaySec /\ "DailyIndexFromZero" \in devs THEN 1 ELSE 0

\* io.TimeToIndex(t, tf)
TimeToIndex(z, tf, s, devs) ==
  LET l == Local(z, s) IN
  IF tf = DaySec THEN YearDay(l) - Shift(tf, devs)             \* "special 1D case": tLocal.YearDay() - 1
  ELSE 1 + (s - YearStartAbs(z, YearOf(l))) \div tf            \* 1 + tLocal.Sub(Jan 1 local) / tf   (elapsed, not wall clock)
\* io.IndexToTime(index, tf, year)
IndexToTime(z, tf, y, idx, devs) ==
  IF tf = DaySec THEN AbsOfLocal(z, YearStartLocal(y) + DaySec * (idx - 1 + Shift(tf, devs)))   \* t0.AddDate(0, 0, index)
  ELSE YearStartAbs(z, y) + tf * (idx - 1)
\* io.IndexToOffset; io.TimeToOffset and io.EpochToOffset are the same formula applied to TimeToIndex
IndexToOffset(idx, rl) == (idx - 1) * rl + Headersize
TimeToOffset(z, tf, s, rl, devs) == IndexToOffset(TimeToIndex(z, tf, s, devs), rl)
\* io.FileSize(tf, year, recordSize): the year length is taken in time.Local (zone zl), not in the configured zone
YearLen(zl, y) == YearStartAbs(zl, y + 1) - YearStartAbs(zl, y)
FileSizeOf(slots, rl) == Headersize + slots * rl
FileSize(zl, tf, y, rl) == FileSizeOf(YearLen(zl, y) \div tf, rl)

\* ---- abstract side: the intervals of a year file ----
\* interval k (0-based) of year y: tf-long pieces counted from the local start of the year; the daily
\* timeframe uses local calendar days (23, 24, 24.5 or 25 hours long)
NIntervals(z, tf, y) == IF tf = DaySec THEN DaysInYear(y) ELSE YearLen(z, y) \div tf
IvStart(z, tf, y, k) == IF tf = DaySec THEN AbsOfLocal(z, YearStartLocal(y) + DaySec * k)
                        ELSE YearStartAbs(z, y) + k * tf

\* ---- the property on one interval (both end points), for a given variant of the implementation ----
TfSec(i) == Timeframes[i].sec
FileZone == Input.filezone                                     \* zone index standing for time.Local
\* what the code (variant devs) yields for interval k of (zone, timeframe, year): indices of the first and the last
\* second, the times recovered from them, the index of the recovered time, the local years, the slots of the file
IxObs(z, tf, y, k, devs) ==
  LET s0 == IvStart(z, tf, y, k)
      e1 == IvStart(z, tf, y, k + 1) - 1
      is == TimeToIndex(z, tf, s0, devs)
      ie == TimeToIndex(z, tf, e1, devs)
      be == IndexToTime(z, tf, y, ie, devs)
  IN  [s0 |-> s0, e1 |-> e1, is |-> is, ie |-> ie,
       bs |-> IndexToTime(z, tf, y, is, devs), be |-> be, ib |-> TimeToIndex(z, tf, be, devs),
       ys |-> YearOf(Local(z, s0)), ye |-> YearOf(Local(z, e1)),
       slots |-> YearLen(FileZone, y) \div tf]                   \* FileSize(FileZone, tf, y, rl) = FileSizeOf(slots, rl)
\* every timestamp of the interval maps to one slot of its own year's file
OneSlot(y, o) == o.ys = y /\ o.ye = y /\ o.is = o.ie
\* slot and interval start convert back and forth; since the interval start is recovered from the slot,
\* distinct intervals necessarily have distinct slots
RoundTrip(o) == o.bs = o.s0 /\ o.be = o.s0 /\ o.ib = o.ie
\* explicit inverse of the slot map: k = slot - 1 + shift
SlotBijection(tf, k, o, devs) == o.is = k + 1 - Shift(tf, devs)
\* Headersize <= offset and offset + recordLen <= FileSize, for every record length
SlotInDataArea(o) == \A rl \in RecLens : LET off == IndexToOffset(o.is, rl)
                                        IN  Headersize <= off /\ off + rl <= FileSizeOf(o.slots, rl)
IndexProp(tf, y, k, o, devs) == OneSlot(y, o) /\ RoundTrip(o) /\ SlotBijection(tf, k, o, devs) /\ SlotInDataArea(o)
\* the known behaviour breaks the property only through the listed deviation, only where its guard fires
IndexGuard(tf, k) == tf = DaySec /\ k = 0 /\ "DailyIndexFromZero" \in Deviations

(***************************************************************************)
(* C31: utils/timeframe.go                                                 *)
(***************************************************************************)
CdSuffixes == <<"Sec", "Min", "H", "D", "W", "M", "Y">>
Unit(sfx) == CASE sfx = "S" -> 1 [] sfx = "Sec" -> 1 [] sfx = "T" -> 60 [] sfx = "Min" -> 60 [] sfx = "H" -> 3600
               [] sfx = "D" -> DaySec [] sfx = "W" -> 7 * DaySec [] sfx = "Y" -> 365 * DaySec
               [] sfx = "M" -> 0                      \* suffixDefs has no entry for M: the duration of "nM" is 0
Dur(sfx, m) == m * Unit(sfx)

\* time.Time.Truncate(d): rounds down to a multiple of d since the zero time 0001-01-01 00:00 UTC.
\* (BaseDay*86400 + s) mod d is computed unit-wise to stay inside 32 bits.
TruncGo(s, sfx, m) ==
  LET u == Unit(sfx) IN
  IF u = 0 \/ m = 0 THEN s
  ELSE IF DaySec % u = 0
  THEN LET per == DaySec \div u                                   \* units per day
           q   == ((BaseDay % m) * (per % m) + ((s \div u) % m)) % m   \* (units since zero time) mod m
       IN  s - (q * u + (s % u))
  ELSE LET k == u \div DaySec                                     \* unit = k days (W: 7, Y: 365)
           days == BaseDay + s \div DaySec
       IN  s - (((days \div k) % m) * u + (days % k) * DaySec + (s % DaySec))

\* CandleDuration.Truncate(ts)
Truncate(z, sfx, m, s) ==
  CASE sfx = "D" -> AbsOfLocal(z, MidnightOf(Local(z, s)))
    [] sfx = "M" -> LET l == Local(z, s) IN AbsOfLocal(z, MonthStartLocal(YearOf(l), MonthOf(l)))
    [] OTHER     -> TruncGo(s, sfx, m)
\* CandleDuration.Ceil(ts)
Ceil(z, sfx, m, s, devs) ==
  CASE sfx = "D" -> IF "DayCeilAdds24h" \in devs
                    THEN AbsOfLocal(z, MidnightOf(Local(z, s + DaySec)))     \* date of ts.Add(Day)
                    ELSE AbsOfLocal(z, MidnightOf(Local(z, s)) + DaySec)     \* next calendar day
    [] sfx = "M" -> LET l == Local(z, s) IN AbsOfLocal(z, MonthStartLocal(YearOf(l), MonthOf(l) + 1))
    [] OTHER     -> TruncGo(s + Dur(sfx, m), sfx, m)
\* CandleDuration.IsWithin(ts, start)   (ts and start both carry the configured zone)
IsWithin(z, sfx, m, s, st, devs) ==
  LET l == Local(z, s)  ls == Local(z, st) IN
  CASE sfx = "D" -> AbsDay(l) = AbsDay(ls)
    [] sfx = "W" -> IF "WeekIsoWindow" \in devs THEN IsoWeek(l) = IsoWeek(ls)
                    ELSE TruncGo(s, sfx, m) = st
    [] sfx = "M" -> LET y0 == YearOf(l) y1 == YearOf(ls) m0 == MonthOf(l) m1 == MonthOf(ls) IN
                    IF y0 = y1 THEN (IF m0 = m1 THEN TRUE ELSE IF m0 < m1 THEN FALSE ELSE m0 - m1 < m)
                    ELSE IF y0 > y1 THEN m0 - (12 - m1) < m ELSE FALSE
    [] sfx = "Y" -> YearOf(l) - YearOf(ls) <= m
    [] OTHER     -> TruncGo(s, sfx, m) = st

\* what the replay observes for one timestamp: T = Truncate(ts), C = Ceil(ts), W = IsWithin(ts, T),
\* TL = Truncate(C - 1), WL = IsWithin(C - 1, T), TC = Truncate(C), CT = Ceil(T)
WinOut(z, sfx, m, s, devs) ==
  LET T == Truncate(z, sfx, m, s)  C == Ceil(z, sfx, m, s, devs) IN
  [T |-> T, C |-> C, W |-> IsWithin(z, sfx, m, s, T, devs),
   TL |-> Truncate(z, sfx, m, C - 1), WL |-> IsWithin(z, sfx, m, C - 1, T, devs),
   TC |-> Truncate(z, sfx, m, C), CT |-> Ceil(z, sfx, m, T, devs)]
\* the property: start <= ts < end, ts inside its own window; start and end delimit ONE window (the last
\* instant before the end still belongs to it, the end itself starts another one)
WinProp(s, o) == /\ o.T <= s /\ s < o.C /\ o.W
                 /\ o.TL = o.T /\ o.WL /\ o.TC = o.C
\* ---- the timestamp grid of the window check, per zone (ascending sequence) ----
\* anchors: year starts (local and UTC), local month starts, leap day, every offset change, and the epoch-aligned
\* and local Monday midnights next to the year starts and offset changes; each anchor is surrounded by a fixed
\* pattern of distances (seconds, half hours, hours, days, 25 hours); a seeded stride fills the rest
WinYears == Range(Years) \cup {y + 1 : y \in Range(Years)}
WinAnchors0(z) == {YearStartAbs(z, y) : y \in WinYears} \cup {YearStartLocal(y) : y \in WinYears}
                  \cup {Tab(z)[i][1] : i \in 2..Len(Tab(z))}
WinAnchors(z) == WinAnchors0(z)
                 \cup {AbsOfLocal(z, MonthStartLocal(y, m)) : y \in Range(Years), m \in 1..12}
                 \cup {AbsOfLocal(z, MonthStartLocal(y, 2) + 28 * DaySec) : y \in {y \in Range(Years) : IsLeap(y)}}
                 \cup {TruncGo(a, "W", 1) : a \in WinAnchors0(z)} \cup {TruncGo(a, "W", 1) + 7 * DaySec : a \in WinAnchors0(z)}
                 \cup {AbsOfLocal(z, MidnightOf(Local(z, a)) - (AbsDay(Local(z, a)) % 7) * DaySec) : a \in WinAnchors0(z)}
WinDists == Range(Input.wdists)
WinGridSet(z) == {s \in (UNION {{a + d, a - d, a - d - 1} : a \in WinAnchors(z), d \in WinDists})
                           \cup {Input.wstride_s0 + i * Input.wstride_step : i \in 0..(Input.wstride_n - 1)} :
                    s >= Input.wlo /\ s < Input.whi}
WinGrid == TLCGet(3)
\* each deviation belongs to one suffix
DevsOf(sfx) == (IF sfx = "D" THEN {"DayCeilAdds24h"} ELSE IF sfx = "W" THEN {"WeekIsoWindow"} ELSE {}) \cap Deviations

\* ---- parsing and printing ----
\* a timeframe text is the token pair <multiplier><suffix>; str is its printed form
Nil == [nil |-> TRUE]
TfDefs == << <<"S", 1>>, <<"Sec", 1>>, <<"T", 60>>, <<"Min", 60>>, <<"H", 3600>>, <<"D", DaySec>>,
             <<"W", 7 * DaySec>>, <<"Y", 365 * DaySec>> >>      \* timeframeDefs, in order
DefI == 1..Len(TfDefs)
Tf(m, sfx, d) == [str |-> ToString(m) \o sfx, dur |-> d, m |-> m, sfx |-> sfx]
\* strings.Contains(text, def.String): which definition names occur inside which suffix token
SfxContains(sfx, def) == def = sfx \/ (def = "S" /\ sfx = "Sec")
\* utils.TimeframeFromString: the first definition contained in the text decides; the multiplier is the text before it
TfFromString(m, sfx) ==
  LET hits == {i \in DefI : SfxContains(sfx, TfDefs[i][1])} IN
  IF hits = {} \/ m <= 0 THEN Nil
  ELSE Tf(m, sfx, TfDefs[CHOOSE i \in hits : \A j \in hits : i <= j][2] * m)
\* utils.TimeframeFromDuration(d), d >= 1 whole seconds: the loop over timeframeDefs with lowerDur / lowerStr
RECURSIVE TfFromDurLoop(_, _, _, _)
TfFromDurLoop(d, i, lowDur, lowStr) ==
  IF i > Len(TfDefs) THEN Nil
  ELSE IF TfDefs[i][2] = d THEN Tf(1, TfDefs[i][1], d)
  ELSE IF TfDefs[i][2] > d THEN Tf(d \div lowDur, lowStr, d)        \* coefficient := int(tf / lowerDur): the remainder is dropped
  ELSE TfFromDurLoop(d, i + 1, TfDefs[i][2], TfDefs[i][1])
\* intended behaviour: the exact unit if there is one, else the largest unit that divides d
TfFromDurExact(d) ==
  LET eq == {i \in DefI : TfDefs[i][2] = d}
      dv == {i \in DefI : d % TfDefs[i][2] = 0} IN
  IF eq # {} THEN Tf(1, TfDefs[CHOOSE i \in eq : \A j \in eq : i <= j][1], d)
  ELSE LET i == CHOOSE i \in dv : \A j \in dv : j <= i IN Tf(d \div TfDefs[i][2], TfDefs[i][1], d)
TfFromDuration(d, devs) ==
  LET code == TfFromDurLoop(d, 1, 1, "Sec")  exact == TfFromDurExact(d) IN
  IF code = Nil THEN (IF "PrintNilAboveYear" \in devs THEN Nil ELSE exact)
  ELSE IF code # exact /\ "PrintDropsRemainder" \notin devs THEN exact ELSE code
\* utils.CandleDurationFromString: regexp (\d+)(Sec|Min|H|D|W|M|Y); the S and T spellings are not candle durations
CdFromString(m, sfx) == IF sfx \in Range(CdSuffixes) THEN Tf(m, sfx, Dur(sfx, m)) ELSE Nil
\* CandleDuration.QueryableTimeframe: the last entry of utils.Timeframes that divides the duration; "1D" for months
Queryable(cd) == LET dv == {i \in TFI : cd.dur % TfSec(i) = 0} IN
                 IF cd.sfx # "M" /\ dv # {} THEN Timeframes[CHOOSE i \in dv : \A j \in dv : j <= i].name ELSE "1D"
TfSecOfName(n) == TfSec(CHOOSE i \in TFI : Timeframes[i].name = n)

\* one round of parse -> print -> parse keeps the duration, and printing again gives the same text
PrStable(m, sfx, devs) ==
  LET tf == TfFromString(m, sfx) IN
  tf = Nil \/ LET p == TfFromDuration(tf.dur, devs) IN
              /\ p # Nil
              /\ LET back == TfFromString(p.m, p.sfx) IN
                 /\ back # Nil /\ back.dur = tf.dur
                 /\ TfFromDuration(back.dur, devs) = p
\* the timeframe chosen for querying a candle duration is a supported one and divides the duration
PrQueryable(m, sfx) == LET cd == CdFromString(m, sfx) IN
                       cd = Nil \/ LET q == Queryable(cd) IN (\E i \in TFI : Timeframes[i].name = q) /\ cd.dur % TfSecOfName(q) = 0
PrCdStable(m, sfx) == LET cd == CdFromString(m, sfx) IN cd = Nil \/ CdFromString(cd.m, cd.sfx) = cd
PrHits(m, sfx) == LET tf == TfFromString(m, sfx) IN
                  IF tf = Nil THEN {} ELSE {d \in Deviations \cap {"PrintDropsRemainder", "PrintNilAboveYear"} :
                                            TfFromDuration(tf.dur, {d}) # TfFromDuration(tf.dur, {})}

(***************************************************************************)
(* Enumeration                                                             *)
(***************************************************************************)
\* ---- index mode: runs <<lo, hi>> of interval ordinals per (zone, timeframe, year) ----
Block == Input.block
Min2(a, b) == IF a < b THEN a ELSE b
Max2(a, b) == IF a > b THEN a ELSE b
\* instants around which the fine timeframes are enumerated: year edges, leap day, offset changes
Anchors(z, y) == {YearStartAbs(z, y), YearStartAbs(z, y + 1)}
                 \cup (IF IsLeap(y) THEN {AbsOfLocal(z, MonthStartLocal(y, 2) + 28 * DaySec), AbsOfLocal(z, MonthStartLocal(y, 3))} ELSE {})
                 \cup {Tab(z)[i][1] : i \in 2..Len(Tab(z))}
AnchorTab == TLCGet(2)
\* a run <<lo, hi, step>> is the chain of interval ordinals lo, lo + step, ... <= hi
Split(lo, hi) == {<<Max2(lo, b * Block), Min2(hi, (b + 1) * Block - 1), 1>> : b \in (lo \div Block)..(hi \div Block)}
StridePieces == 8
Runs(z, i, y) ==
  LET tf == TfSec(i)  n == NIntervals(z, tf, y)  ys == YearStartAbs(z, y)  W == Timeframes[i].hw
      sm == Timeframes[i].stride_m  sr == Timeframes[i].stride_r
      J  == (n - 1 - sr) \div sm                                    \* stride points sr + j * sm, j \in 0..J
      per == J \div StridePieces + 1 IN
  IF <<z, y>> \in Range(Timeframes[i].full)
  THEN Split(0, n - 1)                                                        \* every interval of the year
  ELSE (UNION {Split(Max2(0, (a - W - ys) \div tf), Min2(n - 1, (a + W - ys) \div tf)) :
                  a \in {a \in AnchorTab[z][y] : a + W >= ys /\ (a - W - ys) \div tf <= n - 1}})
       \cup {<<sr + (q * per) * sm, sr + Min2(J, (q + 1) * per - 1) * sm, sm>> : q \in {q \in 0..(StridePieces - 1) : q * per <= J}}
IndexHeads == UNION {UNION {UNION {{[z |-> z, tf |-> i, y |-> y, k |-> r[1], hi |-> r[2], st |-> r[3]] : r \in Runs(z, i, y)}
                                    : y \in Range(Years)} : i \in TFI} : z \in ZI}
IndexNext == c.k + c.st <= c.hi /\ c' = [c EXCEPT !.k = @ + c.st]

\* ---- window mode: (zone, suffix, multiplier) x grid position ----
Cds == Input.cds                                                \* <<[sfx, m]>>
WindowHeads == {[z |-> z, sfx |-> Cds[i].sfx, m |-> Cds[i].m, j |-> 1] : z \in ZI, i \in 1..Len(Cds)}
WindowNext == c.j < Len(WinGrid[c.z]) /\ c' = [c EXCEPT !.j = @ + 1]

\* ---- parse mode: every <multiplier><suffix> text of the input list (including the S and T spellings), in chains of 16 ----
ParseHeads == {[i |-> i] : i \in {i \in 1..Len(Input.strs) : i % 16 = 1}}
ParseNext == c.i % 16 # 0 /\ c.i < Len(Input.strs) /\ c' = [c EXCEPT !.i = @ + 1]

ASSUME /\ TLCSet(1, JsonDeserialize(InputFile))
       /\ TLCSet(4, [z \in ZI |-> [y \in YsYears |-> YearStartDate(z, y)]])
       /\ TLCSet(2, [z \in ZI |-> [y \in Range(Years) |-> Anchors(z, y)]])
       /\ TLCSet(3, IF Mode = "candle" THEN [z \in ZI |-> SetToSortSeq(WinGridSet(z), LAMBDA a, b : a < b)] ELSE <<>>)

IsWindowCase == Mode = "candle" /\ "j" \in DOMAIN c
IsParseCase  == Mode = "candle" /\ "i" \in DOMAIN c
Init == c \in (IF Mode = "index" THEN IndexHeads ELSE WindowHeads \cup ParseHeads)
Next == \/ (Mode = "index" /\ IndexNext)
        \/ (IsWindowCase /\ WindowNext)
        \/ (IsParseCase /\ ParseNext)
Spec == Init /\ [][Next]_c

(***************************************************************************)
(* Invariants (one per mode; each also emits the cases for the replay into *)
(* the real code with PrintT, so that every value is computed once)        *)
(***************************************************************************)
IndexInv ==
  Mode = "index" =>
  LET z == c.z  tf == TfSec(c.tf)  y == c.y  k == c.k
      oP == IxObs(z, tf, y, k, {})
      oD == IF tf = DaySec THEN IxObs(z, tf, y, k, Deviations) ELSE oP
      near == \E a \in AnchorTab[z][y] : (oP.s0 - a <= 2 * tf /\ a - oP.s0 <= 3 * tf)
      sel == \/ k <= 2 \/ k >= NIntervals(z, tf, y) - 3 \/ near
             \/ k % Timeframes[c.tf].emit_m = Timeframes[c.tf].emit_r
  IN  /\ IndexProp(tf, y, k, oP, {})                                           \* IndexPure
      /\ (IndexProp(tf, y, k, oD, Deviations) \/ IndexGuard(tf, k))            \* IndexKnownOnly
      /\ (IndexGuard(tf, k) => ~SlotInDataArea(oD))                            \* the guard is exact
      /\ (tf # DaySec => oD = oP)                                              \* DeviationsExplainAll
      /\ (sel => PrintT(<<"IX", ToJson([z |-> Zones[z].name, tf |-> Timeframes[c.tf].name, y |-> y, k |-> k,
                                         n |-> NIntervals(z, tf, y), p |-> oP, d |-> oD, hit |-> IndexGuard(tf, k)])>>))
\* the file size does not depend on which of the zones time.Local is (all have whole-day years in the range)
FileSizeZoneIndependent == Mode = "index" => \A zl \in ZI : YearLen(zl, c.y) = DaysInYear(c.y) * DaySec

WindowInv ==
  IsWindowCase =>
  LET z == c.z  sfx == c.sfx  m == c.m  s == WinGrid[z][c.j]
      oP == WinOut(z, sfx, m, s, {})
      oD == IF DevsOf(sfx) = {} THEN oP ELSE WinOut(z, sfx, m, s, Deviations)
      hits == IF oD = oP THEN {} ELSE DevsOf(sfx)
      sel == \/ (c.j * Input.wemit_a + m * 7 + Len(sfx)) % Input.wemit_m < Input.wemit_k
             \/ (hits # {} /\ (sfx = "D" \/ (c.j + m) % Input.wemit_h = 0))
  IN  /\ WinProp(s, oP)                                                        \* WindowPure
      /\ (WinProp(s, oD) \/ hits # {})                                         \* WindowKnownOnly
      /\ ((z = UtcZone /\ (sfx # "W" \/ m = 1)) => hits = {})                  \* in UTC a one-week window is the ISO week
      /\ (sel => PrintT(<<"WN", ToJson([z |-> Zones[z].name, sfx |-> sfx, m |-> m, s |-> s, p |-> oP, d |-> oD,
                                         okd |-> WinProp(s, oD), hit |-> hits])>>))

ParseInv ==
  IsParseCase =>
  LET m == Input.strs[c.i].m  sfx == Input.strs[c.i].sfx
      tf == TfFromString(m, sfx)  cd == CdFromString(m, sfx)
      pp == IF tf = Nil THEN Nil ELSE TfFromDuration(tf.dur, {})
      pd == IF tf = Nil THEN Nil ELSE TfFromDuration(tf.dur, Deviations)
      hits == PrHits(m, sfx)
      okd == PrStable(m, sfx, Deviations) IN
      /\ PrStable(m, sfx, {}) /\ PrQueryable(m, sfx) /\ PrCdStable(m, sfx)     \* ParsePure
      /\ (okd \/ hits # {})                                                    \* ParseKnownOnly
      /\ (hits = {} => pd = pp)                                                \* DeviationsExplainAll
      /\ PrintT(<<"PR", ToJson([m |-> m, sfx |-> sfx, tf |-> tf, cd |-> cd,
                                q |-> IF cd = Nil THEN "" ELSE Queryable(cd),
                                pp |-> pp, pd |-> pd, okd |-> okd, hit |-> hits])>>)
=============================================================================
