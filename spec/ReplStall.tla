----------------------------- MODULE ReplStall -----------------------------
(***************************************************************************)
(* Replication fan-out with BOUNDED channels and stalled replicas (C26:    *)
(* "the master keeps serving writes without crashing or blocking").        *)
(* ReplFanout.tla treats a channel send as a hand-over; this module adds   *)
(* what that hides:                                                        *)
(*   - every stream channel buffers at most Cap transaction groups         *)
(*     (defaultReplicationStreamChannelSize), the sender's channel QCap    *)
(*     (defaultSenderChannelSize): a send on a full channel BLOCKS;        *)
(*   - a replica may stall: its handler sits in stream.Send until the      *)
(*     connection breaks;                                                  *)
(*   - the fan-out holds the read lock of the stream map while it sends,   *)
(*     the handler's tear-down needs the write lock to remove its entry,   *)
(*     and closes its `done` channel to release a fan-out that is blocked  *)
(*     on its full channel  (replication/grpc_server.go).                  *)
(*                                                                         *)
(* Deviation "LockFirst": the tear-down takes the write lock BEFORE it     *)
(* closes `done` - the blocked fan-out holds the read lock for ever.       *)
(***************************************************************************)
EXTENDS Integers, Sequences, FiniteSets, TLC, Json

CONSTANTS Replicas, NMsg, Cap, QCap, Deviations,
          RecordHist    \* FALSE for liveness checking (no VIEW there)

VARIABLES hpc,      \* replica -> "off" | "serving" | "insend" | "teardown" | "wantlock" | "ended"
          cur,      \* replica -> message its handler is sending (0 none)
          buf,      \* replica -> Seq of messages in its stream channel
          done,     \* replicas whose done channel is closed
          inmap, stalled, failing,
          got,      \* replica -> Seq of messages delivered
          queue, sent,
          fpc,      \* "idle" | "holding"  (holding = inside SendReplicationMessage, read lock held, about to send to fhold)
          fmsg, ftodo, fhold,
          connectedAt, hist

vars == <<hpc, cur, buf, done, inmap, stalled, failing, got, queue, sent, fpc, fmsg, ftodo, fhold, connectedAt, hist>>
H(a, r) == hist' = IF RecordHist THEN Append(hist, [act |-> a, r |-> r]) ELSE hist

Init == /\ hpc = [r \in Replicas |-> "off"] /\ cur = [r \in Replicas |-> 0] /\ buf = [r \in Replicas |-> <<>>]
        /\ done = {} /\ inmap = {} /\ stalled = {} /\ failing = {} /\ got = [r \in Replicas |-> <<>>]
        /\ queue = <<>> /\ sent = 0 /\ fpc = "idle" /\ fmsg = 0 /\ ftodo = {} /\ fhold = ""
        /\ connectedAt = [r \in Replicas |-> 0] /\ hist = <<>>

\* ---- environment ----
Connect(r) == /\ hpc[r] = "off" /\ fpc = "idle"                      \* write lock
              /\ hpc' = [hpc EXCEPT ![r] = "serving"] /\ inmap' = inmap \cup {r} /\ connectedAt' = [connectedAt EXCEPT ![r] = sent]
              /\ H("Connect", r)
              /\ UNCHANGED <<cur, buf, done, stalled, failing, got, queue, sent, fpc, fmsg, ftodo, fhold>>
Stall(r) == /\ hpc[r] \in {"serving", "insend"} /\ r \notin stalled /\ r \notin failing /\ stalled' = stalled \cup {r} /\ H("Stall", r)
            /\ UNCHANGED <<hpc, cur, buf, done, inmap, failing, got, queue, sent, fpc, fmsg, ftodo, fhold, connectedAt>>
Fail(r) == /\ hpc[r] \in {"serving", "insend"} /\ r \notin failing /\ failing' = failing \cup {r} /\ H("Fail", r)
           /\ UNCHANGED <<hpc, cur, buf, done, inmap, stalled, got, queue, sent, fpc, fmsg, ftodo, fhold, connectedAt>>
Commit == /\ sent < NMsg /\ Len(queue) < QCap                        \* Sender.Send blocks on a full channel: the WAL writer waits
          /\ sent' = sent + 1 /\ queue' = Append(queue, sent + 1) /\ H("Commit", "")
          /\ UNCHANGED <<hpc, cur, buf, done, inmap, stalled, failing, got, fpc, fmsg, ftodo, fhold, connectedAt>>

\* ---- stream handler ----
Take(r) == /\ hpc[r] = "serving" /\ buf[r] # <<>>
           /\ cur' = [cur EXCEPT ![r] = Head(buf[r])] /\ buf' = [buf EXCEPT ![r] = Tail(@)] /\ hpc' = [hpc EXCEPT ![r] = "insend"]
           /\ H("Take", r)
           /\ UNCHANGED <<done, inmap, stalled, failing, got, queue, sent, fpc, fmsg, ftodo, fhold, connectedAt>>
SendReturns(r) ==       \* stream.Send returns: at once for a healthy replica, with an error when the connection is broken;
                        \* a stalled replica's Send does not return before that
  /\ hpc[r] = "insend" /\ (r \notin stalled \/ r \in failing)
  /\ IF r \in failing THEN /\ hpc' = [hpc EXCEPT ![r] = "teardown"] /\ got' = got
                      ELSE /\ hpc' = [hpc EXCEPT ![r] = "serving"] /\ got' = [got EXCEPT ![r] = Append(@, cur[r])]
  /\ cur' = [cur EXCEPT ![r] = 0] /\ H("SendReturns", r)
  /\ UNCHANGED <<buf, done, inmap, stalled, failing, queue, sent, fpc, fmsg, ftodo, fhold, connectedAt>>
CloseDone(r) ==         \* close(done), before the lock is asked for
  /\ hpc[r] = "teardown" /\ "LockFirst" \notin Deviations
  /\ done' = done \cup {r} /\ hpc' = [hpc EXCEPT ![r] = "wantlock"] /\ H("CloseDone", r)
  /\ UNCHANGED <<cur, buf, inmap, stalled, failing, got, queue, sent, fpc, fmsg, ftodo, fhold, connectedAt>>
Remove(r) ==            \* write lock: remove the entry (deviation: and only now close done)
  /\ hpc[r] = (IF "LockFirst" \in Deviations THEN "teardown" ELSE "wantlock") /\ fpc = "idle"
  /\ inmap' = inmap \ {r} /\ done' = done \cup {r} /\ hpc' = [hpc EXCEPT ![r] = "ended"] /\ H("Remove", r)
  /\ UNCHANGED <<cur, buf, stalled, failing, got, queue, sent, fpc, fmsg, ftodo, fhold, connectedAt>>

\* ---- fan-out goroutine ----
FanNext == /\ fpc = "idle" /\ queue # <<>>
           /\ fmsg' = Head(queue) /\ queue' = Tail(queue)
           /\ IF inmap = {} THEN fpc' = "idle" /\ ftodo' = {} /\ fhold' = ""
              ELSE \E r \in inmap : fhold' = r /\ ftodo' = inmap \ {r} /\ fpc' = "holding"
           /\ H("FanNext", "")
           /\ UNCHANGED <<hpc, cur, buf, done, inmap, stalled, failing, got, sent, connectedAt>>
CanSend == Len(buf[fhold]) < Cap \/ fhold \in done
FanSend == /\ fpc = "holding" /\ CanSend                                 \* select { case channel <- tg: case <-done: }
           /\ buf' = IF Len(buf[fhold]) < Cap THEN [buf EXCEPT ![fhold] = Append(@, fmsg)] ELSE buf
           /\ IF ftodo = {} THEN fpc' = "idle" /\ fhold' = "" /\ ftodo' = {}
              ELSE \E r \in ftodo : fhold' = r /\ ftodo' = ftodo \ {r} /\ fpc' = "holding"
           /\ H("FanSend", fhold)
           /\ UNCHANGED <<hpc, cur, done, inmap, stalled, failing, got, queue, sent, fmsg, connectedAt>>

Next == \/ \E r \in Replicas : Connect(r) \/ Stall(r) \/ Fail(r) \/ Take(r) \/ SendReturns(r) \/ CloseDone(r) \/ Remove(r)
        \/ Commit \/ FanNext \/ FanSend
Spec == Init /\ [][Next]_vars
\* fairness: the goroutines run; a stalled replica's connection eventually breaks (otherwise the master rightly waits for it)
Fair == /\ WF_vars(FanNext) /\ WF_vars(FanSend) /\ WF_vars(Commit)
        /\ \A r \in Replicas : WF_vars(Take(r)) /\ WF_vars(SendReturns(r)) /\ WF_vars(CloseDone(r)) /\ WF_vars(Remove(r))
        /\ \A r \in Replicas : WF_vars(r \in stalled /\ Fail(r))
LiveSpec == Spec /\ Fair
View == <<hpc, cur, buf, done, inmap, stalled, failing, got, queue, sent, fpc, fmsg, ftodo, fhold, connectedAt>>

\* ---- C26 ----
\* the fan-out is never stuck behind a replica that is gone: blocked on a full channel nobody will ever drain
Stuck == /\ fpc = "holding" /\ ~CanSend /\ hpc[fhold] \in {"teardown", "wantlock", "ended"}
         /\ ~(hpc[fhold] = "teardown" /\ "LockFirst" \notin Deviations)        \* (about to close done)
NeverStuck == ~Stuck
\* every transaction is eventually committed and fanned out: the master keeps serving writes
MasterProgresses == <>(sent = NMsg /\ queue = <<>> /\ fpc = "idle")
InOrder(s) == \A i \in 1..(Len(s) - 1) : s[i] < s[i + 1]
ReceivedInCommitOrder == \A r \in Replicas : InOrder(got[r])
\* a healthy replica that stays connected eventually has everything committed during its connection
HealthyGetAll == \A r \in Replicas : [](( hpc[r] \in {"serving", "insend"} /\ sent = NMsg /\ queue = <<>> /\ fpc = "idle" /\ buf[r] = <<>> /\ cur[r] = 0
                                          /\ r \notin failing /\ r \notin stalled)
                                        => \A m \in (connectedAt[r] + 1)..sent : \E i \in 1..Len(got[r]) : got[r][i] = m)
EmitStuck == Stuck => PrintT(<<"STUCK", ToJson([steps |-> hist, cap |-> Cap])>>)
=============================================================================
