------------------------------ MODULE Readers ------------------------------
(***************************************************************************)
(* A query racing with writes to the same variable-length interval (C18).  *)
(*                                                                         *)
(*  writer  executor/writer.go WriteBufferToFileIndirect:                  *)
(*            read the interval's index, read + decode its old blob,       *)
(*            write the new blob (at EOF, or IN PLACE over the old blob    *)
(*            when that blob is the tail of the file), write the index     *)
(*  reader  executor/scanner.go + readvariable.go: read the index records  *)
(*            of the range, then read and decode each blob                 *)
(*                                                                         *)
(* The reader must always return an error-free result whose rows come from *)
(* completed writes (read-committed).  With the in-place continuation the  *)
(* old index points at overwritten bytes between the writer's two steps.   *)
(***************************************************************************)
EXTENDS Integers, Sequences, FiniteSets, TLC, Json

CONSTANTS NW,          \* number of write requests to the interval (sequential: one writer thread, inline flush)
          Deviations   \* {"InPlace"}

VARIABLES idx,     \* [off, len] or NoIdx
          dat,     \* offset -> blob (sequence of record ids)
          eof,
          wpc, wn, wtmp,   \* writer: pc in {"idle","read","data","index"}, number of writes done, pending blob
          rpc, ridx, rres, \* reader: pc in {"idle","haveIdx","done"}, index it read, result
          done,    \* record ids of completed writes
          hist

vars == <<idx, dat, eof, wpc, wn, wtmp, rpc, ridx, rres, done, hist>>
NoIdx == [off |-> 0, len |-> 0]
H(p, a, u) == hist' = Append(hist, [proc |-> p, act |-> a, until |-> u])

Init == /\ idx = NoIdx /\ dat = <<>> /\ eof = 1 /\ wpc = "idle" /\ wn = 0 /\ wtmp = <<>>
        /\ rpc = "idle" /\ ridx = NoIdx /\ rres = "none" /\ done = {} /\ hist = <<>>

Blob(i) == IF i = NoIdx THEN [ok |-> TRUE, recs |-> <<>>]
           ELSE IF i.off \in DOMAIN dat /\ Len(dat[i.off]) = i.len THEN [ok |-> TRUE, recs |-> dat[i.off]]
           ELSE [ok |-> FALSE, recs |-> <<>>]

\* writer ------------------------------------------------------------------------------------------
WStart == /\ wpc = "idle" /\ wn < NW /\ wpc' = "read" /\ H("w", "Start", "")
          /\ UNCHANGED <<idx, dat, eof, wn, wtmp, rpc, ridx, rres, done>>
WData ==  \* read index + old blob, write the new blob ... parks at Indirect.afterData
  /\ wpc = "read"
  /\ LET old == Blob(idx).recs
         new == Append(old, wn + 1)
         pos == IF idx # NoIdx /\ idx.off + idx.len = eof /\ "InPlace" \in Deviations THEN idx.off ELSE eof
     IN /\ dat' = [o \in (DOMAIN dat \ {o \in DOMAIN dat : o >= pos /\ o < pos + Len(new)}) \cup {pos} |-> IF o = pos THEN new ELSE dat[o]]
        /\ eof' = IF pos + Len(new) > eof THEN pos + Len(new) ELSE eof
        /\ wtmp' = [off |-> pos, len |-> Len(new)]
  /\ wpc' = "index" /\ H("w", "Data", "Indirect.afterData")
  /\ UNCHANGED <<idx, wn, rpc, ridx, rres, done>>
WIndex == \* write the index; the request returns
  /\ wpc = "index" /\ idx' = wtmp /\ wn' = wn + 1 /\ done' = done \cup {wn + 1} /\ wpc' = "idle" /\ H("w", "Index", "done")
  /\ UNCHANGED <<dat, eof, wtmp, rpc, ridx, rres>>

\* reader ------------------------------------------------------------------------------------------
RQuery == \* the whole query (index read + data read happen between two writer steps: the writer is parked)
  /\ rpc = "idle"
  /\ LET b == Blob(idx) IN
       rres' = IF ~b.ok THEN "corrupt"
               ELSE IF \A k \in 1..Len(b.recs) : b.recs[k] \in done THEN "ok" ELSE "uncommitted"
  /\ rpc' = "done" /\ H("r", "Query", rres')
  /\ UNCHANGED <<idx, dat, eof, wpc, wn, wtmp, ridx, done>>
RReset == /\ rpc = "done" /\ rpc' = "idle" /\ rres' = "none" /\ UNCHANGED <<idx, dat, eof, wpc, wn, wtmp, ridx, done, hist>>

Next == WStart \/ WData \/ WIndex \/ RQuery \/ RReset
Spec == Init /\ [][Next]_vars
View == <<idx, dat, eof, wpc, wn, wtmp, rpc, ridx, rres, done>>

ReadCommitted == rres \in {"none", "ok"}
Emit == (wn = NW /\ wpc = "idle" /\ rpc = "idle") => PrintT(<<"BEH", ToJson(hist)>>)
=============================================================================
