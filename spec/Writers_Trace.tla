--------------------------- MODULE Writers_Trace ---------------------------
(***************************************************************************)
(* Trace validation (code -> spec) for the write path of Writers.tla (C07).*)
(*                                                                         *)
(* Input: the totally ordered log of the hook points passed by FREE-RUNNING*)
(* writer goroutines and the real SyncWAL loop (driver op "trace").  A hook*)
(* fires near, not at, the state change it stands for, so channel          *)
(* operations are bracketed by two events and happen as INTERNAL steps in  *)
(* between (Cirstea/Kuppe/Merz: log start and end, make the change an      *)
(* internal step):                                                         *)
(*    QB r .. [Send r]     .. QA r      command of request r -> writeChannel*)
(*    PU r .. [PushSend r] .. PD r      flush request of r -> flushChannel *)
(*    FL   .. [Reply]      .. DN r      reply to the requester             *)
(*         [Recv]       .. TK        the loop takes a request from the channel*)
(*    EN r .. [ReadLen r]  .. EA r | PU r   len(flushChannel) read by r    *)
(* The loop's events (TK take, TW timer, CT n count, SY fsync done, PR r   *)
(* primary write of writer w's file, FL flushed) are taken in log order.    *)
(*                                                                         *)
(* The trace is accepted when some choice of the internal steps explains   *)
(* every event.  With Monitor = TRUE a request may only return (RT) when it*)
(* is in the fsynced WAL and in the primary file, unless it took the       *)
(* early-return path (EA) - that is the known deviation; those returns are *)
(* reported separately.                                                    *)
(***************************************************************************)
EXTENDS Integers, Sequences, FiniteSets, TLC, Json, SequencesExt

CONSTANTS Monitor      \* TRUE: returns must be synced and visible (property C07 as a guard)

Trace == ndJsonDeserialize("writers_trace.ndjson")
Reqs == {Trace[k].r : k \in {j \in 1..Len(Trace) : "r" \in DOMAIN Trace[j]}}

VARIABLES i,            \* next trace line
          entered, lenSeen,   \* requests inside RequestFlush that have not read len(flushChannel) yet / what they read
          sendOpen, sent, wch,
          pushOpen, pushed, fch,
          lpc, lreq, lcur,
          synced, visible, replies, returned, early, earlyBad

vars == <<i, entered, lenSeen, sendOpen, sent, wch, pushOpen, pushed, fch, lpc, lreq, lcur, synced, visible, replies, returned, early, earlyBad>>

Init == /\ i = 1 /\ entered = {} /\ lenSeen = <<>> /\ sendOpen = {} /\ sent = {} /\ wch = <<>> /\ pushOpen = {} /\ pushed = {} /\ fch = <<>>
        /\ lpc = "select" /\ lreq = "" /\ lcur = <<>>
        /\ synced = {} /\ visible = {} /\ replies = {} /\ returned = {} /\ early = {} /\ earlyBad = {}

Ev(e) == i <= Len(Trace) /\ Trace[i].e = e
Adv == i' = i + 1

\* ---- internal steps (no trace line) ----
Send(r) == /\ r \in sendOpen /\ r \notin sent /\ sent' = sent \cup {r} /\ wch' = Append(wch, r)
           /\ UNCHANGED <<entered, lenSeen, i, sendOpen, pushOpen, pushed, fch, lpc, lreq, lcur, synced, visible, replies, returned, early, earlyBad>>
PushSend(r) == /\ r \in pushOpen /\ r \notin pushed /\ pushed' = pushed \cup {r} /\ fch' = Append(fch, r)
               /\ UNCHANGED <<entered, lenSeen, i, sendOpen, sent, wch, pushOpen, lpc, lreq, lcur, synced, visible, replies, returned, early, earlyBad>>
Reply == /\ lpc = "replying" /\ replies' = replies \cup {lreq} /\ lpc' = "select" /\ lreq' = "" /\ lcur' = <<>>
         /\ UNCHANGED <<entered, lenSeen, i, sendOpen, sent, wch, pushOpen, pushed, fch, synced, visible, returned, early, earlyBad>>

ReadLen(r) == /\ r \in entered /\ entered' = entered \ {r} /\ lenSeen' = (r :> Len(fch)) @@ lenSeen
              /\ UNCHANGED <<i, sendOpen, sent, wch, pushOpen, pushed, fch, lpc, lreq, lcur, synced, visible, replies, returned, early, earlyBad>>

\* ---- writer events ----
QB == /\ Ev("QB") /\ sendOpen' = sendOpen \cup {Trace[i].r} /\ Adv
      /\ UNCHANGED <<entered, lenSeen, sent, wch, pushOpen, pushed, fch, lpc, lreq, lcur, synced, visible, replies, returned, early, earlyBad>>
QA == /\ Ev("QA") /\ Trace[i].r \in sent /\ sendOpen' = sendOpen \ {Trace[i].r} /\ Adv
      /\ UNCHANGED <<entered, lenSeen, sent, wch, pushOpen, pushed, fch, lpc, lreq, lcur, synced, visible, replies, returned, early, earlyBad>>
EN == /\ Ev("EN") /\ entered' = entered \cup {Trace[i].r} /\ Adv
      /\ UNCHANGED <<lenSeen, sendOpen, sent, wch, pushOpen, pushed, fch, lpc, lreq, lcur, synced, visible, replies, returned, early, earlyBad>>
\* the early return is the KNOWN deviation only when the writer saw a queued flush request; with the monitor any other early
\* return is not a behaviour of the model
EA == /\ Ev("EA") /\ Trace[i].r \in DOMAIN lenSeen /\ (Monitor => lenSeen[Trace[i].r] > 0)
      /\ early' = early \cup {Trace[i].r} /\ Adv
      /\ UNCHANGED <<entered, lenSeen, sendOpen, sent, wch, pushOpen, pushed, fch, lpc, lreq, lcur, synced, visible, replies, returned, earlyBad>>
PU == /\ Ev("PU") /\ Trace[i].r \in DOMAIN lenSeen /\ lenSeen[Trace[i].r] = 0 /\ pushOpen' = pushOpen \cup {Trace[i].r} /\ Adv
      /\ UNCHANGED <<entered, lenSeen, sendOpen, sent, wch, pushed, fch, lpc, lreq, lcur, synced, visible, replies, returned, early, earlyBad>>
PD == /\ Ev("PD") /\ Trace[i].r \in pushed /\ pushOpen' = pushOpen \ {Trace[i].r} /\ Adv
      /\ UNCHANGED <<entered, lenSeen, sendOpen, sent, wch, pushed, fch, lpc, lreq, lcur, synced, visible, replies, returned, early, earlyBad>>
DN == /\ Ev("DN") /\ Trace[i].r \in replies /\ Adv
      /\ UNCHANGED <<entered, lenSeen, sendOpen, sent, wch, pushOpen, pushed, fch, lpc, lreq, lcur, synced, visible, replies, returned, early, earlyBad>>
RT == /\ Ev("RT")
      /\ LET r == Trace[i].r  ok == r \in synced /\ r \in visible IN
         /\ (Monitor => (ok \/ r \in early))
         /\ returned' = returned \cup {r}
         /\ earlyBad' = IF r \in early /\ ~ok THEN earlyBad \cup {r} ELSE earlyBad
      /\ Adv
      /\ UNCHANGED <<entered, lenSeen, sendOpen, sent, wch, pushOpen, pushed, fch, lpc, lreq, lcur, synced, visible, replies, early>>

\* ---- loop events ----
Resting == lpc = "select" \/ (lreq = "" /\ (lpc \in {"synced", "flushed0"} \/ (~Monitor /\ lpc = "counted")))    \* a timer flush has no 'flushed' point
\* the loop's receive from the flush channel happens BEFORE its hook point: internal step Recv, then the event TK
Recv == /\ Resting /\ fch # <<>>
        /\ lreq' = Head(fch) /\ fch' = Tail(fch) /\ lpc' = "taking" /\ lcur' = <<>>
        /\ UNCHANGED <<i, entered, lenSeen, sendOpen, sent, wch, pushOpen, pushed, synced, visible, replies, returned, early, earlyBad>>
TK == /\ Ev("TK") /\ lpc = "taking" /\ lpc' = "took" /\ Adv
      /\ UNCHANGED <<entered, lenSeen, sendOpen, sent, wch, pushOpen, pushed, fch, lreq, lcur, synced, visible, replies, returned, early, earlyBad>>
TW == /\ Ev("TW") /\ Resting /\ lreq' = "" /\ lpc' = "took" /\ lcur' = <<>> /\ Adv
      /\ UNCHANGED <<entered, lenSeen, sendOpen, sent, wch, pushOpen, pushed, fch, synced, visible, replies, returned, early, earlyBad>>
CT == /\ Ev("CT") /\ lpc = "took" /\ Len(wch) >= Trace[i].n
      /\ lcur' = SubSeq(wch, 1, Trace[i].n) /\ wch' = SubSeq(wch, Trace[i].n + 1, Len(wch))
      /\ lpc' = (IF Trace[i].n = 0 THEN "flushed0" ELSE "counted") /\ Adv
      /\ UNCHANGED <<entered, lenSeen, sendOpen, sent, pushOpen, pushed, fch, lreq, synced, visible, replies, returned, early, earlyBad>>
SY == /\ Ev("SY") /\ lpc = "counted" /\ synced' = synced \cup Range(lcur) /\ lpc' = "synced" /\ Adv
      /\ UNCHANGED <<entered, lenSeen, sendOpen, sent, wch, pushOpen, pushed, fch, lreq, lcur, visible, replies, returned, early, earlyBad>>
WOf(r) == Trace[CHOOSE k \in 1..Len(Trace) : "r" \in DOMAIN Trace[k] /\ Trace[k].r = r].w
\* (without the monitor the model also follows a flush that writes primary files and replies although no fsync point was
\* passed: such a trace is then explainable only as a violation)
PR == /\ Ev("PR") /\ (lpc = "synced" \/ (~Monitor /\ lpc = "counted"))   \* primary write of one file = of the requests of that writer in this group
      /\ visible' = visible \cup {r \in Range(lcur) : WOf(r) = Trace[i].w} /\ Adv
      /\ UNCHANGED <<entered, lenSeen, sendOpen, sent, wch, pushOpen, pushed, fch, lpc, lreq, lcur, synced, replies, returned, early, earlyBad>>
FL == /\ Ev("FL") /\ (lpc \in {"synced", "flushed0"} \/ (~Monitor /\ lpc = "counted")) /\ lreq # "" /\ lpc' = "replying" /\ Adv
      /\ UNCHANGED <<entered, lenSeen, sendOpen, sent, wch, pushOpen, pushed, fch, lreq, lcur, synced, visible, replies, returned, early, earlyBad>>

Next == \/ QB \/ QA \/ EN \/ EA \/ PU \/ PD \/ DN \/ RT \/ TK \/ TW \/ CT \/ SY \/ PR \/ FL
        \/ Reply \/ Recv \/ (\E r \in Reqs : Send(r) \/ PushSend(r) \/ ReadLen(r))
Spec == Init /\ [][Next]_vars

Done == i = Len(Trace) + 1
\* "violated" NotDone = the trace is accepted (some interpretation explains every line)
NotDone == ~Done
\* every accepting interpretation reports the early returns that were not durable / visible at the return
EmitAcc == Done => PrintT(<<"ACC", ToJson([earlybad |-> earlyBad, early |-> early])>>)
=============================================================================
