------------------------------ MODULE PathJail ------------------------------
(***************************************************************************)
(* C16: no request can touch files outside the data root.                  *)
(*                                                                         *)
(* Abstract part  : every path created, written or removed by a request    *)
(*                  has the data root as a prefix (TouchedUnderRoot).      *)
(* Implementation : a bucket key "i1/i2/..:c1/c2/.." is split at "/" and   *)
(* shaped part      handed, component by component, to filepath.Join, which*)
(*                  is lexical: a stack machine that skips "" and ".",     *)
(*                  pops on ".." and pushes anything else.                 *)
(*     catalog.AddTimeBucket    per component: subdir = Join(dir, item);   *)
(*                              mkdir if absent; category_name file written*)
(*                              into dir (error if it exists with another  *)
(*                              content); then "Year" file, year file,     *)
(*                              then the child directory Join(root, i1) is *)
(*                              loaded into the in-memory catalog under    *)
(*                              the NAME i1 (whatever it is).              *)
(*     catalog.RemoveTimeBucket walks the in-memory tree by item names and *)
(*                              os.RemoveAll's the leaf, then every level  *)
(*                              that has no sub-directories left.          *)
(*     frontend Create / Write  GetTimeFrame first (the item under the     *)
(*                              category "Timeframe" must be a timeframe). *)
(*                                                                         *)
(* The file system of the model is a small world  jail/l1/l2/l3/root with  *)
(* an optional sibling l3/sib/keep.  Key components are classes:           *)
(*   N plain name, T timeframe, D ".", U "..", E "" (extra separator /     *)
(*   leading slash), R the root's own directory name, S the sibling's name.*)
(*                                                                         *)
(* Deviation JoinUnchecked = the unchanged tree: no component is validated.*)
(* With Deviations = {} the model validates components (rejects E, D, U)   *)
(* and TLC proves TouchedUnderRoot; with the deviation TLC proves that     *)
(* every touch outside the root belongs to a key that Escapes, and prints  *)
(* the exact set of touches per step for the replay into the real code.    *)
(***************************************************************************)
EXTENDS Integers, Sequences, FiniteSets, TLC, Json

CONSTANTS Alphabet,    \* subset of {"N","T","D","U","E","R","S"}
          MaxLen,      \* components per key
          Schemes,     \* subset of {"distinct","same","short"}: category names per level
          Worlds,      \* subset of {"bare","sib"}
          OpSeqs,      \* subset of {"qdcd","wqd"}: names of op sequences (a cfg file cannot hold tuples)
          Deviations   \* {} or {"JoinUnchecked"}

VARIABLES case, pc, fs, mem, steps
vars == <<case, pc, fs, mem, steps>>

(***************************************************************************)
(* paths                                                                   *)
(***************************************************************************)
Jail == <<"jail">>
L1   == <<"jail", "l1">>
L2   == <<"jail", "l1", "l2">>
L3   == <<"jail", "l1", "l2", "l3">>
Root == <<"jail", "l1", "l2", "l3", "root">>
Sib  == <<"jail", "l1", "l2", "l3", "sib">>

IsPrefix(p, q) == Len(p) <= Len(q) /\ SubSeq(q, 1, Len(p)) = p
Front(sq) == SubSeq(sq, 1, Len(sq) - 1)
NameOf(tok) == IF tok = "R" THEN "root" ELSE IF tok = "S" THEN "sib" ELSE tok

\* filepath.Join(dir, item) for a clean dir: one step of the Clean stack machine
Push(dir, tok) == IF tok \in {"D", "E"} THEN dir
                  ELSE IF tok = "U" THEN (IF dir = <<>> THEN <<>> ELSE Front(dir))
                  ELSE Append(dir, NameOf(tok))
RECURSIVE JoinAll(_, _)
JoinAll(dir, toks) == IF toks = <<>> THEN dir ELSE JoinAll(Push(dir, Head(toks)), Tail(toks))

\* the signature of the known finding: some prefix of the key, joined to the root, is not under the root
Escapes(items) == \E i \in 1..Len(items) : ~IsPrefix(Root, JoinAll(Root, SubSeq(items, 1, i)))
Valid(items)   == \A i \in 1..Len(items) : items[i] \notin {"D", "U", "E"}

(***************************************************************************)
(* cases                                                                   *)
(***************************************************************************)
Keys == UNION {[1..n -> Alphabet] : n \in 1..MaxLen}
TfPos(items) == IF \E i \in 1..Len(items) : items[i] = "T"
                THEN CHOOSE i \in 1..Len(items) : items[i] = "T" /\ \A j \in 1..(i - 1) : items[j] # "T"
                ELSE 0
KName(i) == <<"K1", "K2", "K3", "K4", "K5">>[i]
CatsOf(items, scheme) ==
  LET n == Len(items)
      full == [i \in 1..n |-> IF i = TfPos(items) THEN "Timeframe" ELSE IF scheme = "same" THEN "K" ELSE KName(i)]
  IN  IF scheme = "short" THEN SubSeq(full, 1, n - 1) ELSE full
CaseOK(c) == c.scheme = "short" => (Len(c.items) >= 2 /\ TfPos(c.items) # 0 /\ TfPos(c.items) < Len(c.items))

\* "qdcd": query and destroy of the never-created key, create, destroy;  "wqd": write (creates), query, destroy
OpsOf(name) == IF name = "qdcd" THEN <<"query", "destroy", "create", "destroy">> ELSE <<"write", "query", "destroy">>
Cases == {[items |-> k, scheme |-> sc, world |-> w, ops |-> OpsOf(o)] : k \in Keys, sc \in Schemes, w \in Worlds, o \in OpSeqs}

(***************************************************************************)
(* file system and in-memory catalog                                       *)
(***************************************************************************)
NoCat == [x \in {} |-> ""]
InitFS(w) == [dirs |-> {Jail, L1, L2, L3, Root} \cup (IF w = "sib" THEN {Sib, Append(Sib, "keep")} ELSE {}),
              cat |-> NoCat, bins |-> {}, tch |-> {}]
NoMem == [alias |-> "-", base |-> <<>>, ldirs |-> {}]

\* catalog.writeCategoryNameFile(catName, dir)
WriteCat(f, dir, c) ==
  IF dir \in DOMAIN f.cat
  THEN [f |-> f, st |-> IF f.cat[dir] = c THEN "ok" ELSE "err_category"]
  ELSE [f |-> [f EXCEPT !.cat = (dir :> c) @@ f.cat, !.tch = @ \cup {[k |-> "file", p |-> Append(dir, "category_name")]}],
        st |-> "ok"]

\* the per-component loop of catalog.AddTimeBucket
RECURSIVE AddLoop(_, _, _, _, _)
AddLoop(f, dirname, items, cats, i) ==
  IF i > Len(items) THEN [f |-> f, dirname |-> dirname, st |-> "ok"]
  ELSE LET sub == Push(dirname, items[i])
           f1  == IF sub \in f.dirs THEN f
                  ELSE [f EXCEPT !.dirs = @ \cup {sub}, !.tch = @ \cup {[k |-> "mkdir", p |-> sub]}]
       IN  IF i > Len(cats) THEN [f |-> f1, dirname |-> dirname, st |-> "panic"]       \* catkeySplit[i]: index out of range
           ELSE LET w == WriteCat(f1, dirname, cats[i])
                IN  IF w.st # "ok" THEN [f |-> w.f, dirname |-> dirname, st |-> w.st]
                    ELSE AddLoop(w.f, sub, items, cats, i + 1)

\* catalog.load: a directory's children are listed only if it has a category_name file
Loaded(f, base) == {d \in f.dirs : IsPrefix(base, d) /\ \A k \in Len(base)..(Len(d) - 1) : SubSeq(d, 1, k) \in DOMAIN f.cat}

AddTimeBucket(f, m, items, cats) ==
  LET l == AddLoop(f, Root, items, cats, 1) IN
  IF l.st # "ok" THEN [f |-> l.f, m |-> m, st |-> l.st, bin |-> <<>>]
  ELSE LET w == WriteCat(l.f, l.dirname, "Year") IN
       IF w.st # "ok" THEN [f |-> w.f, m |-> m, st |-> w.st, bin |-> <<>>]
       ELSE LET bin == Append(l.dirname, "YEAR.bin") IN          \* Join(Join(root, itemKey), year + ".bin")
            IF bin \in w.f.bins THEN [f |-> w.f, m |-> m, st |-> "exists", bin |-> bin]
            ELSE LET f2   == [w.f EXCEPT !.bins = @ \cup {bin}, !.tch = @ \cup {[k |-> "file", p |-> bin]}]
                     base == Push(Root, items[1])                \* childNodePath = Join(root, datakeySplit[0])
                 IN  IF base \notin DOMAIN f2.cat THEN [f |-> f2, m |-> m, st |-> "err_load", bin |-> bin]
                     ELSE [f |-> f2, m |-> [alias |-> items[1], base |-> base, ldirs |-> Loaded(f2, base)],
                           st |-> "ok", bin |-> bin]

\* os.RemoveAll
RemoveAll(f, p) ==
  IF p \notin f.dirs THEN f
  ELSE [f EXCEPT !.dirs = {d \in @ : ~IsPrefix(p, d)},
                 !.cat  = [d \in {x \in DOMAIN f.cat : ~IsPrefix(p, x)} |-> f.cat[d]],
                 !.bins = {b \in @ : ~IsPrefix(p, b)},
                 !.tch  = @ \cup {[k |-> "rm", p |-> p]}]

\* the bottom-up loop of catalog.RemoveTimeBucket over tree[1..n] (paths), in-memory sub-directories ld
RECURSIVE RemoveLoop(_, _, _, _, _)
RemoveLoop(f, ld, paths, i, delNext) ==
  IF i = 0 THEN [f |-> f, ld |-> ld, del1 |-> delNext]
  ELSE LET n    == Len(paths)
           fA   == IF i = n THEN RemoveAll(f, paths[i]) ELSE f
           ldA  == IF i < n /\ delNext THEN {d \in ld : ~IsPrefix(paths[i + 1], d)} ELSE ld
           hasSub == \E d \in ldA : Len(d) = Len(paths[i]) + 1 /\ IsPrefix(paths[i], d)
           fB   == IF ~hasSub THEN RemoveAll(fA, paths[i]) ELSE fA
       IN  RemoveLoop(fB, ldA, paths, i - 1, (i = n) \/ ~hasSub)

\* tree[i]: descend from the catalog root by item NAMES (only the first one can be an alias)
TreePaths(m, items) == [i \in 1..Len(items) |-> m.base \o [j \in 1..(i - 1) |-> NameOf(items[j + 1])]]
Resolves(m, items) == /\ m.alias = items[1]
                      /\ \A i \in 2..Len(items) : items[i] \notin {"D", "U", "E"}
                      /\ \A i \in 1..Len(items) : TreePaths(m, items)[i] \in m.ldirs

RemoveTimeBucket(f, m, items) ==
  IF ~Resolves(m, items) THEN [f |-> f, m |-> m, st |-> "err_notfound"]
  ELSE LET r == RemoveLoop(f, m.ldirs, TreePaths(m, items), Len(items), FALSE)
       IN  [f |-> r.f, m |-> IF r.del1 THEN NoMem ELSE [m EXCEPT !.ldirs = r.ld], st |-> "ok"]

(***************************************************************************)
(* requests                                                                *)
(***************************************************************************)
Cats == CatsOf(case.items, case.scheme)
Checked == "JoinUnchecked" \notin Deviations        \* the pure implementation validates every component
TfOK == TfPos(case.items) # 0

DoOp(op) ==
  LET f0 == [fs EXCEPT !.tch = {}] IN
  IF Checked /\ ~Valid(case.items) THEN [f |-> f0, m |-> mem, st |-> "rejected"]
  ELSE IF op = "query" THEN [f |-> f0, m |-> mem, st |-> "ok"]
  ELSE IF op = "destroy" THEN RemoveTimeBucket(f0, mem, case.items)
  ELSE IF ~TfOK THEN [f |-> f0, m |-> mem, st |-> "err_timeframe"]
  ELSE LET a == AddTimeBucket(f0, mem, case.items, Cats) IN
       IF op = "create" \/ a.st # "ok" THEN [f |-> a.f, m |-> a.m, st |-> a.st]
       ELSE [f |-> [a.f EXCEPT !.tch = @ \cup {[k |-> "write", p |-> a.bin]}], m |-> a.m, st |-> "ok"]   \* flush -> primary file

Init == /\ case \in {c \in Cases : CaseOK(c)}
        /\ pc = 1
        /\ fs = InitFS(case.world)
        /\ mem = NoMem
        /\ steps = <<>>

Step == /\ pc <= Len(case.ops)
        /\ LET r == DoOp(case.ops[pc]) IN
           /\ fs' = r.f
           /\ mem' = r.m
           /\ steps' = Append(steps, [op |-> case.ops[pc], st |-> r.st, tch |-> r.f.tch])
        /\ pc' = pc + 1
        /\ UNCHANGED case

Next == Step
Spec == Init /\ [][Next]_vars

(***************************************************************************)
(* properties                                                              *)
(***************************************************************************)
Touched == UNION {steps[i].tch : i \in 1..Len(steps)}
Outside(t) == ~IsPrefix(Root, t.p)

\* C16 (holds for the pure implementation, Deviations = {})
TouchedUnderRoot == \A t \in Touched : ~Outside(t)
\* the unchanged tree leaves the root only for keys with the Escapes signature
DeviationsExplainAll == (\E t \in Touched : Outside(t)) => ("JoinUnchecked" \in Deviations /\ Escapes(case.items))
\* the model's file system stays a tree
TreeShaped == \A d \in fs.dirs : Len(d) > 1 => Front(d) \in fs.dirs

Emit == pc > Len(case.ops) =>
  PrintT(<<"CASE", ToJson([items |-> case.items, scheme |-> case.scheme, world |-> case.world, cats |-> Cats,
                            escapes |-> Escapes(case.items),
                            steps |-> [i \in 1..Len(steps) |->
                                         [op |-> steps[i].op, st |-> steps[i].st,
                                          out |-> {t \in steps[i].tch : Outside(t)},
                                          nin |-> Cardinality({t \in steps[i].tch : ~Outside(t)})]]])>>)
=============================================================================
