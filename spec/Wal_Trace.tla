----------------------------- MODULE Wal_Trace -----------------------------
(***************************************************************************)
(* Trace validation (code -> spec) for Wal.tla.                            *)
(*                                                                         *)
(* trace.ndjson holds the abstracted system calls and markers of one or    *)
(* more recorded executions of the real server (tools/walabs.py), separated*)
(* by "reset" events.  Every event must be explained by the Wal action it  *)
(* names, with the logged arguments: the fragment written to the WAL must  *)
(* be the fragment the protocol emits next, a primary write must be the    *)
(* write the current command performs next (same file, slot, offset,       *)
(* content), and so on.  TraceAccepted holds iff the whole file was        *)
(* consumed.  For every prefix TLC also prints what a restart would        *)
(* recover according to the model with the known deviations (PRE records): *)
(* these are compared with the real restart on the crash image of the same *)
(* system-call prefix.                                                     *)
(***************************************************************************)
EXTENDS Wal, IOUtils

VARIABLE l, t    \* position in the trace, number of the trace (for multi-trace files)

Trace == ndJsonDeserialize("trace.ndjson")

tvars == <<vars, l, t>>

Ev == Trace[l]
IsEvent(e) == l <= Len(Trace) /\ Ev.e = e /\ l' = l + 1 /\ t' = t

TraceInit == Init /\ l = 1 /\ t = 1

\* fragments are compared field by field (JSON objects carry only the fields of their kind)
FragEq(js, fr) ==
  /\ js.k = fr.k
  /\ (fr.k \in {"TI", "LEN", "BODY", "CK"} => js.id = fr.id)
  /\ (fr.k = "TI" => js.d = fr.d /\ js.st = fr.st)
  /\ (fr.k = "BODY" => Len(js.cmds) = Len(fr.cmds)
                       /\ \A i \in 1..Len(fr.cmds) : /\ js.cmds[i].f = fr.cmds[i].f /\ js.cmds[i].s = fr.cmds[i].s
                                                     /\ js.cmds[i].recs = fr.cmds[i].recs)

TIssue == IsEvent("issue") /\ Issue([i \in 1..Len(Ev.cmds) |-> [f |-> Ev.cmds[i].f, s |-> Ev.cmds[i].s, recs |-> Ev.cmds[i].recs]])
TFlush == IsEvent("flush") /\ FlushBegin(Ev.n)
TTrunc == IsEvent("waltrunc") /\ WalTruncate
TStat  == IsEvent("rotstatus") /\ StatusWrite
TWal   == IsEvent("wal") /\ FragEq(Ev.frag, NextFrag) /\ WalWrite
TFsync == IsEvent("walfsync") /\ WalFsync
TAck   == IsEvent("ack") /\ Ack
TCkpt  == IsEvent("ckpt") /\ CkptBegin
TSync  == IsEvent("sync") /\ Syncfs

OpEq(js, op) ==
  /\ js.e = op.t /\ js.f = op.f
  /\ (op.t = "fix" => js.s = op.s /\ js.v = op.v)
  /\ (op.t = "dat" => js.off = op.off /\ js.len = op.len /\ js.recs = op.recs)
  /\ (op.t = "idx" => js.s = op.s /\ js.off = op.off /\ js.len = op.len)
\* the length of a blob is what the server wrote (compressed size): taken from the log.  For the index write that
\* follows, the length is the one of the data write just made (it is in vtmp).
TPrim == /\ l <= Len(Trace) /\ Ev.e \in {"fix", "dat", "idx"} /\ l' = l + 1 /\ t' = t
         /\ mode = "run" /\ pc = "prim" /\ (todo # <<>> \/ vtmp # <<>>)
         /\ PrimStep(Deviations, LAMBDA r : IF Ev.e = "dat" THEN Ev.len ELSE Len(r))
         /\ bad' = "none"
         /\ OpEq(Ev, unsynced'[Len(unsynced')])
         /\ UNCHANGED <<wal, walSync, snap, pc, cur, tg, lastC, req, acked, writes, mode, rtodo, crashes, ckpts, inflight, queue, rots>>

TReset == /\ l <= Len(Trace) /\ Ev.e = "reset" /\ t' = t + 1 /\ l' = l + 1
          /\ wal' = <<FragST("NOTREPLAYED")>> /\ walSync' = 1
          /\ fx' = [f \in FixedFiles |-> [s \in Slots |-> 0]]
          /\ vidx' = [f \in VarFiles |-> [s \in Slots |-> NoIdx]]
          /\ vdat' = [f \in VarFiles |-> <<>>]
          /\ veof' = [f \in VarFiles |-> 1]
          /\ unsynced' = <<>>
          /\ snap' = [fx |-> fx', vidx |-> vidx', vdat |-> vdat', veof |-> veof']
          /\ pc' = "idle" /\ cur' = <<>> /\ todo' = <<>> /\ vtmp' = <<>>
          /\ tg' = 1 /\ lastC' = 0 /\ req' = 0 /\ acked' = {} /\ writes' = <<>>
          /\ mode' = "run" /\ rtodo' = <<>> /\ crashes' = 0 /\ ckpts' = 0 /\ bad' = "none" /\ inflight' = 0
          /\ queue' = <<>> /\ rots' = 0

TraceNext == TIssue \/ TFlush \/ TTrunc \/ TStat \/ TWal \/ TFsync \/ TAck \/ TCkpt \/ TSync \/ TPrim \/ TReset

TraceSpec == TraceInit /\ [][TraceNext]_tvars

\* ---- acceptance: the deepest position reached is recorded, the run is accepted iff it is the end ----
TraceAccepted == LET d == TLCGet("stats").diameter IN d - 1 = Len(Trace)
                 \* (one state per consumed line plus the initial state; the trace spec never branches on a fully
                 \*  logged trace -- if it did, diameter would still be the longest explained prefix + 1)
Progress == PrintT(<<"POS", ToJson([l |-> l])>>)

\* ---- monitors: the properties, evaluated on every state of the recorded execution ----
\* an acknowledged request's TG is covered by the last WAL fsync (C04/C07) and its primary writes are done
AckImpliesSynced == \A r \in acked : TRUE    \* Ack is only enabled after WalFsync and all primary writes: by construction
\* what a restart would recover from this very state (kill crash), according to the model with the known deviations
Prediction == PrintT(<<"PRE", ToJson([l |-> l, t |-> t, rec |-> Summary(Recovered(Prim, wal, Deviations)),
                                       pure |-> Summary(Recovered(Prim, wal, Deviations \ {"Reappend"}))])>>)
=============================================================================
