------------------------------ MODULE Triggers ------------------------------
(***************************************************************************)
(* From a flushed transaction group to the trigger plugins (C32).          *)
(*   executor/writer.go   WriteCSM queues one write command per interval   *)
(*                        (parks at WriteCSM.beforeFlush), then RequestFlush*)
(*   executor/wal.go      SyncWAL takes the request; FlushToWAL takes ALL  *)
(*                        queued commands as one transaction group;        *)
(*                        FlushCommandsToWAL: per file (map order)         *)
(*                        writePrimary, then AppendRecord(file, index ++   *)
(*                        payload) for each of its buffers; deferred       *)
(*                        DispatchRecords (parks at Dispatcher.dispatch)   *)
(*   executor/written.go  DispatchRecords: for every file in the map m     *)
(*                        (map order) c <- {file, records}; m = nil        *)
(*                        run(): for wr := range c (parks at               *)
(*                        Dispatcher.recv): for every matcher whose pattern*)
(*                        matches the file's key: go fire(trigger, ...)    *)
(*   plugins/trigger      Matcher.Match: '*' -> [^/]+ , unanchored regexp  *)
(*                                                                         *)
(* A record is <<client, bucket, interval>>; a bucket is <<sym, ag>>; the  *)
(* file key is bucket + year (one year here).  A pattern is <<sym, ag>>    *)
(* with "*" as wildcard (timeframe fixed).                                 *)
(***************************************************************************)
EXTENDS Integers, Sequences, FiniteSets, TLC, Json, SequencesExt

CONSTANTS Clients,      \* e.g. {"c1","c2","c3"}
          Syms, Ags,    \* bucket components
          Patterns,     \* set of pattern ids, see PatOf
          MaxCmds,      \* write commands per request
          Intervals     \* interval ids

Buckets == Syms \X Ags
Cmd == [c : Clients, b : Buckets, i : Intervals]

VARIABLES cpc,        \* client -> "new" | "queued" | "asked" | "done"
          req,        \* client -> Seq(Cmd): the request it sends
          wch,        \* write channel (queued commands)
          lpc,        \* loop: "idle" | "flushed" (parked at Dispatcher.dispatch) | "replying"
          lreq,       \* client whose flush request the loop serves
          m,          \* dispatcher map: bucket -> Seq(Cmd)   (<<>> = absent)
          chan,       \* dispatcher channel: Seq of [b, recs]
          delivered,  \* pattern -> Seq of [b, rec]   (what the trigger's Fire received, in arrival order)
          flushed,    \* set of commands that were part of a flushed transaction group
          tgs,        \* number of transaction groups
          hist

vars == <<cpc, req, wch, lpc, lreq, m, chan, delivered, flushed, tgs, hist>>
H(p, a, u, x) == hist' = Append(hist, [proc |-> p, act |-> a, until |-> u, x |-> x])

\* pattern ids (cfg files cannot hold tuples): "<sym>_<ag>" with S = any symbol, G = any attribute group
PatOf(p) == CASE p = "A_X" -> <<"A", "X">> [] p = "A_Y" -> <<"A", "Y">> [] p = "B_X" -> <<"B", "X">> [] p = "B_Y" -> <<"B", "Y">>
              [] p = "S_X" -> <<"*", "X">> [] p = "S_Y" -> <<"*", "Y">> [] p = "A_G" -> <<"A", "*">> [] p = "B_G" -> <<"B", "*">>
              [] p = "S_G" -> <<"*", "*">>
Match(pid, b) == LET pat == PatOf(pid) IN (pat[1] = "*" \/ pat[1] = b[1]) /\ (pat[2] = "*" \/ pat[2] = b[2])

\* requests: 1..MaxCmds commands, distinct <<bucket, interval>> pairs (one write command per interval and bucket)
Requests(c) == UNION {{s \in [1..n -> Cmd] : /\ \A q \in 1..n : s[q].c = c
                                               /\ \A j, k \in 1..n : j # k => <<s[j].b, s[j].i>> # <<s[k].b, s[k].i>>} : n \in 1..MaxCmds}

Init == /\ cpc = [c \in Clients |-> "new"] /\ req = [c \in Clients |-> <<>>] /\ wch = <<>>
        /\ lpc = "idle" /\ lreq = "" /\ m = [b \in Buckets |-> <<>>] /\ chan = <<>>
        /\ delivered = [p \in Patterns |-> <<>>] /\ flushed = {} /\ tgs = 0 /\ hist = <<>>

\* ---- clients ----
Enqueue(c) ==      \* WriteCSM -> WriteRecords -> QueueWriteCommand for each command ... parks at WriteCSM.beforeFlush
  /\ cpc[c] = "new"
  /\ \E r \in Requests(c) : /\ req' = [req EXCEPT ![c] = r] /\ wch' = wch \o r
                            /\ H(c, "Enqueue", "WriteCSM.beforeFlush", r)
  /\ cpc' = [cpc EXCEPT ![c] = "queued"]
  /\ UNCHANGED <<lpc, lreq, m, chan, delivered, flushed, tgs>>

\* RequestFlush: push a request, block; the idle loop takes it and runs FlushToWAL over everything queued.
\* Nothing queued: the loop replies at once.  Otherwise it parks at Dispatcher.dispatch with m filled.
Ask(c) ==
  /\ cpc[c] = "queued" /\ lpc = "idle"
  /\ IF wch = <<>>
     THEN /\ cpc' = [cpc EXCEPT ![c] = "done"] /\ UNCHANGED <<lpc, lreq, m, flushed, tgs>>
          /\ H(c, "AskEmpty", "done", <<>>)
     ELSE /\ cpc' = [cpc EXCEPT ![c] = "asked"] /\ lpc' = "flushed" /\ lreq' = c
          \* AppendRecord per file in some file order, per file in command order
          /\ m' = [b \in Buckets |-> m[b] \o SelectSeq(wch, LAMBDA x : x.b = b)]
          /\ flushed' = flushed \cup Range(wch) /\ tgs' = tgs + 1
          /\ H(c, "Ask", "Dispatcher.dispatch", wch)
  /\ wch' = <<>>
  /\ UNCHANGED <<req, chan, delivered>>

\* DispatchRecords: every file of the map goes to the channel in SOME order; m = nil; the loop replies to the requester
Perms(S) == {s \in [1..Cardinality(S) -> S] : \A j, k \in 1..Cardinality(S) : j # k => s[j] # s[k]}
Dispatch ==
  /\ lpc = "flushed"
  /\ LET keys == {b \in Buckets : m[b] # <<>>} IN
     \E ord \in Perms(keys) :
        /\ chan' = chan \o [k \in 1..Len(ord) |-> [b |-> ord[k], recs |-> m[ord[k]]]]
        /\ H("loop", "Dispatch", "done", ord)
  /\ m' = [b \in Buckets |-> <<>>]
  /\ lpc' = "idle" /\ cpc' = [cpc EXCEPT ![lreq] = "done"] /\ lreq' = ""
  /\ UNCHANGED <<req, wch, delivered, flushed, tgs>>

\* run(): one item of the channel; every matching trigger is fired with the file's records
Recv ==
  /\ chan # <<>>
  /\ LET it == Head(chan) IN
     /\ delivered' = [p \in Patterns |-> IF Match(p, it.b) THEN delivered[p] \o [k \in 1..Len(it.recs) |-> [b |-> it.b, rec |-> it.recs[k]]]
                                         ELSE delivered[p]]
     /\ H("run", "Recv", "Dispatcher.recv", it.b)
  /\ chan' = Tail(chan)
  /\ UNCHANGED <<cpc, req, wch, lpc, lreq, m, flushed, tgs>>

Next == (\E c \in Clients : Enqueue(c) \/ Ask(c)) \/ Dispatch \/ Recv
Spec == Init /\ [][Next]_vars
View == <<cpc, req, wch, lpc, lreq, m, chan, delivered, flushed, tgs>>

\* ---- C32 ----
Count(s, x) == Cardinality({k \in 1..Len(s) : s[k] = x})
Quiet == lpc = "idle" /\ chan = <<>>
\* exactly once to every matching trigger, never to another
ExactlyOnce == Quiet => \A p \in Patterns : \A cmd \in Cmd :
                  Count(delivered[p], [b |-> cmd.b, rec |-> cmd]) = (IF cmd \in flushed /\ Match(p, cmd.b) THEN 1 ELSE 0)
NoForeign == \A p \in Patterns : \A k \in 1..Len(delivered[p]) : Match(p, delivered[p][k].b) /\ delivered[p][k].rec.b = delivered[p][k].b
AtMostOnce == \A p \in Patterns : \A cmd \in Cmd : Count(delivered[p], [b |-> cmd.b, rec |-> cmd]) <= 1
\* nothing is left behind: at quiescence the dispatcher map is empty
MapDrained == Quiet => \A b \in Buckets : m[b] = <<>>

AllDone == Quiet /\ \A c \in Clients : cpc[c] = "done"
Emit == AllDone => PrintT(<<"BEH", ToJson([steps |-> hist, req |-> req, tgs |-> tgs])>>)
=============================================================================
