------------------------------- MODULE Codec -------------------------------
(***************************************************************************)
(* Byte-level codecs of marketstore (C27, C28, C29).                       *)
(*                                                                         *)
(* Each codec is written down twice, as the code lays the bytes out:       *)
(*   * the writer : which field goes to which byte offset, with the length *)
(*                  prefixes at their REAL widths (int16 path length, one  *)
(*                  byte column count, one byte name length), the record   *)
(*                  length with alignment padding, the StartIndex/Lengths  *)
(*                  bookkeeping of NumpyMultiDataset.Append;               *)
(*   * the reader : which byte offsets the decoder visits, computed only   *)
(*                  from what the writer stored.                           *)
(* Decode(Encode(x)) = x  holds exactly when every field the reader visits *)
(* is the field the writer put there.  TLC enumerates the structured input *)
(* space (size classes x element types x record types x bucket/command     *)
(* counts), checks the round trip as an invariant, and prints every case   *)
(* with the predicted layout; the check replays each case into the real    *)
(* functions and compares layout and round trip.                           *)
(*                                                                         *)
(* Places where the unchanged tree is known to break the round trip are    *)
(* named deviations (constant Deviations).  With Deviations = {} the module*)
(* is the intended design (prefixes hold the length, reader and writer use *)
(* the same column order, ...) and every invariant *RoundTrip holds; with  *)
(* the listed deviations *DevExplains states that the round trip fails only*)
(* where a deviation's guard fires.                                        *)
(***************************************************************************)
EXTENDS Integers, Sequences, FiniteSets, TLC, Json, SequencesExt

CONSTANTS Family,       \* "C27" | "C28" | "C29" | "DSV"  : which codec this run explores
          Deviations,   \* known behaviour of the tree, subset of AllDeviations
          Types,        \* element types explored in this run
          MaxCols,      \* C27/C29: columns per schema (C29: besides Epoch)
          MaxBuckets,   \* C27: buckets per dataset
          Lens,         \* C27: rows per bucket
          Mismatch,     \* C27: also offer buckets whose column types differ from the dataset's
          MaxPre,       \* C29: columns allowed in front of the Epoch column
          PathLens,     \* C28: size classes of the WAL key path  (sym/tf/attr/YYYY.bin)
          NameLens,     \* C28: size classes of a column name
          ColCounts,    \* C28: size classes of the number of data shapes (Epoch included)
          BigTypes,     \* C28: element types used with the large column counts
          MaxCmds,      \* C28: commands per transaction group
          TwoBuckets,   \* C28: also explore groups that address two buckets
          BigPayload    \* C28: a payload of the class "many" has at least this many bytes

VARIABLE st

AllDeviations == {"EmptyBucketDropped", "AllEmptyNoColumns", "AppendIgnoresTypes",      \* C27
                  "OneByteNameLen", "OneByteColCount", "Int16PathLen",                  \* C28
                  "ByteAsUint8", "EpochMovedFirst"}                                     \* C29
ASSUME Deviations \subseteq AllDeviations

(***************************************************************************)
(* Element types (utils/io/datatypes.go): enum code, width, wire string.   *)
(***************************************************************************)
AllTypes == {"FLOAT32", "INT32", "FLOAT64", "INT64", "BYTE", "BOOL", "INT16",
             "UINT8", "UINT16", "UINT32", "UINT64", "STRING16"}
Size(t) == CASE t \in {"BYTE", "BOOL", "UINT8"}        -> 1
             [] t \in {"INT16", "UINT16"}              -> 2
             [] t \in {"FLOAT32", "INT32", "UINT32"}   -> 4
             [] t \in {"FLOAT64", "INT64", "UINT64"}   -> 8
             [] t = "STRING16"                         -> 64
Code(t) == CASE t = "FLOAT32" -> 0 [] t = "INT32" -> 1 [] t = "FLOAT64" -> 2 [] t = "INT64" -> 3
             [] t = "BYTE" -> 5 [] t = "BOOL" -> 6 [] t = "INT16" -> 9 [] t = "UINT8" -> 10
             [] t = "UINT16" -> 11 [] t = "UINT32" -> 12 [] t = "UINT64" -> 13 [] t = "STRING16" -> 14
\* utils/io/numpy.go typeMap: the 11 types that have a wire string
WireTypes == AllTypes \ {"BOOL"}
TypeStr(t) == CASE t = "BYTE" -> "i1" [] t = "INT16" -> "i2" [] t = "INT32" -> "i4" [] t = "INT64" -> "i8"
                [] t = "UINT8" -> "u1" [] t = "UINT16" -> "u2" [] t = "UINT32" -> "u4" [] t = "UINT64" -> "u8"
                [] t = "FLOAT32" -> "f4" [] t = "FLOAT64" -> "f8" [] t = "STRING16" -> "U16"
StrType(s) == CHOOSE t \in WireTypes : TypeStr(t) = s       \* typeStrMap
ASSUME \A t1, t2 \in WireTypes : TypeStr(t1) = TypeStr(t2) => t1 = t2
ASSUME Types \subseteq AllTypes

AlignedLen(n) == IF n % 8 = 0 THEN n ELSE n + 8 - (n % 8)       \* io.AlignedSize, 64-bit words

RECURSIVE SumSeq(_, _)
SumSeq(s, k) == IF k = 0 THEN 0 ELSE SumSeq(s, k - 1) + s[k]    \* s[1] + ... + s[k]
Ident(n) == [j \in 1..n |-> j]

(***************************************************************************)
(* C29  rows: SerializeColumnsToRows -> NewRowSeries -> GetColumn /        *)
(*            ToColumnSeries                                               *)
(* state: the column series' schema  pre \o <<Epoch>> \o post  and align   *)
(***************************************************************************)
EpochCol == [t |-> "INT64", e |-> TRUE]
Col(t)   == [t |-> t, e |-> FALSE]
Sch29(s) == s.pre \o <<EpochCol>> \o s.post

RECURSIVE SumW(_, _)
SumW(sch, k) == IF k = 0 THEN 0 ELSE SumW(sch, k - 1) + Size(sch[k].t)      \* widths of columns 1..k
Unaligned(sch) == SumW(sch, Len(sch))
\* columnseries.go: recordLen = sum of widths; align64 => AlignedSize(recordLen), the difference is zero padding
RecLen(sch, align) == IF align THEN AlignedLen(Unaligned(sch)) ELSE Unaligned(sch)
EPos(sch) == CHOOSE j \in 1..Len(sch) : sch[j].e

\* writer: "data, _ = Serialize(data, epoch)" first, then every other shape in data-shape order.
\* Intended design (no deviation): fields in data-shape order, which is also what the reader assumes.
WOff(sch, j, devs) ==
  IF "EpochMovedFirst" \in devs
  THEN (IF sch[j].e THEN 0 ELSE IF j < EPos(sch) THEN 8 + SumW(sch, j - 1) ELSE SumW(sch, j - 1))
  ELSE SumW(sch, j - 1)
WriteLayout(sch, devs) == [j \in 1..Len(sch) |-> [c |-> j, off |-> WOff(sch, j, devs), w |-> Size(sch[j].t)]]
\* reader Rows.GetColumn: offset = widths of the shapes in front of the column, in data-shape order
ROffGet(sch, j) == SumW(sch, j - 1)
\* reader RowSeries.ToColumnSeries: Epoch through GetEpoch() = offset 0, the rest through GetColumn
ROffCS(sch, j, devs) == IF sch[j].e /\ "EpochMovedFirst" \in devs THEN 0 ELSE SumW(sch, j - 1)
\* which written field does a read of w bytes at off return?  0 = bytes of other fields
SrcAt(wl, off, w) == IF \E j \in DOMAIN wl : wl[j].off = off /\ wl[j].w = w
                     THEN CHOOSE j \in DOMAIN wl : wl[j].off = off /\ wl[j].w = w ELSE 0
\* Rows.GetColumn: "case BOOL, BYTE: return getByteColumn" which builds a []byte = []uint8
ReadBack(t, devs) == IF t \in {"BYTE", "BOOL"} /\ "ByteAsUint8" \in devs THEN "UINT8" ELSE t
\* ToColumnSeries adds Epoch first, then the shapes in order
OutOrder(sch, devs) == IF "EpochMovedFirst" \in devs
                       THEN <<EPos(sch)>> \o SelectSeq(Ident(Len(sch)), LAMBDA j : j # EPos(sch))
                       ELSE Ident(Len(sch))

\* three readers: "get"  = RowSeries.GetColumn by name (no order of its own),
\*                "cs"   = RowSeries.ToColumnSeries (Epoch through GetEpoch, Epoch first),
\*                "rows" = Rows.ToColumnSeries (Epoch through GetColumn, Epoch first)
RT29(s, devs, reader) ==
  LET sch == Sch29(s)
      wl  == WriteLayout(sch, devs)
  IN [order |-> IF reader = "get" THEN Ident(Len(sch)) ELSE OutOrder(sch, devs),
      cols  |-> [j \in 1..Len(sch) |->
                   [src |-> SrcAt(wl, IF reader = "cs" THEN ROffCS(sch, j, devs) ELSE ROffGet(sch, j), Size(sch[j].t)),
                    t   |-> ReadBack(sch[j].t, devs)]]]
Orig29(s) == LET sch == Sch29(s) IN
             [order |-> Ident(Len(sch)), cols |-> [j \in 1..Len(sch) |-> [src |-> j, t |-> sch[j].t]]]

Hits29(s) == (IF s.pre # <<>> THEN {"EpochMovedFirst"} ELSE {})
        \cup (IF \E j \in 1..Len(Sch29(s)) : Sch29(s)[j].t \in {"BYTE", "BOOL"} THEN {"ByteAsUint8"} ELSE {})

Init29 == st \in [pre : {<<>>}, post : {<<>>}, align : BOOLEAN]
Next29 == /\ Len(st.pre) + Len(st.post) < MaxCols
          /\ \E t \in Types :
               \/ st' = [st EXCEPT !.post = Append(@, Col(t))]
               \/ (Len(st.pre) < MaxPre /\ st' = [st EXCEPT !.pre = <<Col(t)>> \o @])

C29_RoundTrip == \A rd \in {"get", "cs", "rows"} : RT29(st, {}, rd) = Orig29(st)
C29_DevExplains == \A rd \in {"get", "cs", "rows"} :
                     (RT29(st, Deviations, rd) # Orig29(st)) <=> (Hits29(st) \cap Deviations # {})
\* the record is the fields back to back, then at most 7 bytes of padding up to a multiple of 8
C29_RecordLength ==
  LET sch == Sch29(st) u == Unaligned(sch) r == RecLen(sch, st.align) wl == WriteLayout(sch, Deviations) IN
  /\ (st.align => r % 8 = 0 /\ r - u \in 0..7) /\ (~st.align => r = u)
  /\ \A j \in DOMAIN wl : wl[j].off >= 0 /\ wl[j].off + wl[j].w <= u
  /\ \A i, j \in DOMAIN wl : i # j => (wl[i].off + wl[i].w <= wl[j].off \/ wl[j].off + wl[j].w <= wl[i].off)

Emit29 == LET sch == Sch29(st) IN
  PrintT(<<"CASE", ToJson([
     sch    |-> [j \in 1..Len(sch) |-> IF sch[j].e THEN "Epoch" ELSE sch[j].t],
     align  |-> st.align, sum |-> Unaligned(sch), reclen |-> RecLen(sch, st.align),
     wl     |-> [j \in 1..Len(sch) |-> <<WOff(sch, j, Deviations), Size(sch[j].t)>>],      \* code's write layout
     wlpure |-> [j \in 1..Len(sch) |-> <<WOff(sch, j, {}), Size(sch[j].t)>>],
     rdget  |-> [j \in 1..Len(sch) |-> ROffGet(sch, j)],
     rdcs   |-> [j \in 1..Len(sch) |-> ROffCS(sch, j, Deviations)],
     order  |-> OutOrder(sch, Deviations),
     rtypes |-> [j \in 1..Len(sch) |-> ReadBack(sch[j].t, Deviations)],
     hit    |-> Hits29(st) \cap Deviations,
     sameget |-> RT29(st, Deviations, "get") = Orig29(st),
     samecs  |-> RT29(st, Deviations, "cs") = Orig29(st),
     samerows |-> RT29(st, Deviations, "rows") = Orig29(st)])>>)

(***************************************************************************)
(* C27  datasets: NewNumpyDataset / NewNumpyMultiDataset / Append ->       *)
(*      msgpack -> ToColumnSeriesMap (numpy.go, server side) and           *)
(*      MultiQueryResponse.ToColumnSeriesMap (query.go, client side)       *)
(* state: the buckets offered so far, each [len, types]; bucket 1 defines  *)
(*        the dataset's schema                                             *)
(***************************************************************************)
Sch27 == UNION {[1..n -> Types] : n \in 1..MaxCols}
\* names: "same" = the bucket's column names are the dataset's, in the dataset's order; "rot" = the same names rotated by one
\* position (same set of names, another order)
Bk(len, types) == [len |-> len, types |-> types, names |-> "same"]
BkN(len, types, nm) == [len |-> len, types |-> types, names |-> nm]

\* NewNumpyDataset + NewNumpyMultiDataset: ColumnData[i] = the column's bytes, StartIndex[tbk] = 0
NewNM(b) == [types |-> b.types, length |-> b.len, start |-> <<0>>, lens |-> <<b.len>>,
             segs |-> [i \in 1..Len(b.types) |-> <<b.len * Size(b.types[i])>>]]
\* Append: StartIndex[tbk] = Length; Lengths[tbk] = cs.Len(); Length += cs.Len(); ColumnData[i] grows by the
\* appended column's own bytes
AppendNM(nm, b) == [types |-> nm.types, length |-> nm.length + b.len,
                    start |-> Append(nm.start, nm.length), lens |-> Append(nm.lens, b.len),
                    segs |-> [i \in 1..Len(nm.types) |-> Append(nm.segs[i], b.len * Size(b.types[i]))]]
\* Append compares the number of columns and the names POSITION BY POSITION, not the types; the intended design refuses both
AppendAccepts(nm, b, devs) == b.names = "same" /\ (b.types = nm.types \/ "AppendIgnoresTypes" \in devs)
RECURSIVE Build(_, _, _, _)
Build(nm, bks, k, devs) == IF k > Len(bks) THEN [ok |-> TRUE, nm |-> nm, at |-> 0]
                           ELSE IF AppendAccepts(nm, bks[k], devs) THEN Build(AppendNM(nm, bks[k]), bks, k + 1, devs)
                           ELSE [ok |-> FALSE, nm |-> nm, at |-> k]
Convert(bks, devs) == Build(NewNM(bks[1]), bks, 2, devs)

\* the wire: ColumnTypes as strings, ColumnNames, ColumnData, Length, StartIndex, Lengths; the hidden
\* dataShapes are not transmitted and are rebuilt from the type strings (buildDataShapes)
Wire(nm)   == [nm EXCEPT !.types = [i \in 1..Len(nm.types) |-> TypeStr(nm.types[i])]]
Unwire(w)  == [w EXCEPT !.types = [i \in 1..Len(w.types) |-> StrType(w.types[i])]]

ColBytes(nm, i)  == SumSeq(nm.segs[i], Len(nm.segs[i]))
SegOff(nm, i, k) == SumSeq(nm.segs[i], k - 1)

\* NumpyDataset.ToColumnSeries(startIndex, length)
ToCS(nm, s, l, devs) ==
  IF ColBytes(nm, 1) = 0 /\ "AllEmptyNoColumns" \in devs THEN [kind |-> "nocols"]     \* "if len(ColumnData[0]) == 0 return cs"
  ELSE LET cols == [i \in 1..Len(nm.types) |-> [t |-> nm.types[i], lo |-> s * Size(nm.types[i]),
                                                 hi |-> (s + l) * Size(nm.types[i])]]
       IN IF \E i \in 1..Len(nm.types) : cols[i].hi > ColBytes(nm, i)
          THEN [kind |-> "panic"]                                                    \* slice bounds out of range
          ELSE [kind |-> "cols", cols |-> cols]
\* numpy.go ToColumnSeriesMap: "if length > 0 {ToColumnSeries} else {NewColumnSeries()}" and then
\* csm.AddColumnSeries, which adds column by column: a series without columns leaves no bucket behind
DecodeServer(nm, n, devs) ==
  [k \in 1..n |-> IF nm.lens[k] > 0 THEN ToCS(nm, nm.start[k], nm.lens[k], devs)
                  ELSE IF "EmptyBucketDropped" \in devs THEN [kind |-> "absent"]
                  ELSE ToCS(nm, nm.start[k], 0, devs \ {"AllEmptyNoColumns"})]
\* frontend/query.go ToColumnSeriesMap: ToColumnSeries(start, Lengths[tbk]) for every key, csm[tbk] = cs
DecodeClient(nm, n, devs) == [k \in 1..n |-> ToCS(nm, nm.start[k], nm.lens[k], devs)]

Exact27(nm, bks, k, d) ==
  /\ d.kind = "cols"
  /\ \A i \in 1..Len(nm.types) :
       /\ d.cols[i].t = bks[k].types[i]
       /\ d.cols[i].hi - d.cols[i].lo = nm.segs[i][k]
       /\ (nm.segs[i][k] = 0 \/ d.cols[i].lo = SegOff(nm, i, k))
Same27(dec, nm, bks) == \A k \in 1..Len(bks) : Exact27(nm, bks, k, dec[k])

Hits27(bks) == (IF \E k \in 1..Len(bks) : bks[k].len = 0 THEN {"EmptyBucketDropped"} ELSE {})
          \cup (IF \A k \in 1..Len(bks) : bks[k].len = 0 THEN {"AllEmptyNoColumns"} ELSE {})
          \cup (IF \E k \in 1..Len(bks) : bks[k].types # bks[1].types THEN {"AppendIgnoresTypes"} ELSE {})

Variants(ty) == {ty} \cup (IF Mismatch THEN {[ty EXCEPT ![i] = t] : i \in 1..Len(ty), t \in Types} \ {ty} ELSE {})
Init27 == st \in {[bks |-> <<Bk(l, ty)>>] : l \in Lens, ty \in Sch27}
NameOrders(ty) == IF Mismatch /\ Len(ty) >= 2 THEN {"same", "rot"} ELSE {"same"}
Next27 == /\ Len(st.bks) < MaxBuckets
          /\ \E l \in Lens, ty \in Variants(st.bks[1].types), no \in NameOrders(st.bks[1].types) :
                st' = [bks |-> Append(st.bks, BkN(l, ty, no))]

\* intended design: a conversion that is accepted round-trips, on both decoders, through the wire form
C27_RoundTrip ==
  LET c == Convert(st.bks, {}) IN
  c.ok => LET nm == Unwire(Wire(c.nm)) IN
          /\ nm = c.nm
          /\ Same27(DecodeServer(nm, Len(st.bks), {}), nm, st.bks)
          /\ Same27(DecodeClient(nm, Len(st.bks), {}), nm, st.bks)
\* bookkeeping: the buckets' row ranges tile 0..Length in order of appending
C27_StartIndex ==
  LET c == Convert(st.bks, {}) IN
  c.ok => /\ c.nm.length = SumSeq(c.nm.lens, Len(c.nm.lens))
          /\ \A k \in 1..Len(st.bks) : c.nm.start[k] = SumSeq(c.nm.lens, k - 1) /\ c.nm.lens[k] = st.bks[k].len
          /\ \A i \in 1..Len(c.nm.types) : ColBytes(c.nm, i) = c.nm.length * Size(c.nm.types[i])
C27_DevExplains ==
  LET c  == Convert(st.bks, Deviations)
      nm == Unwire(Wire(c.nm))
      h  == Hits27(st.bks) \cap Deviations IN
  c.ok => /\ (~Same27(DecodeServer(nm, Len(st.bks), Deviations), nm, st.bks)) <=> (h \ {"AllEmptyNoColumns"} # {})
          /\ (~Same27(DecodeClient(nm, Len(st.bks), Deviations), nm, st.bks)) <=> (h \ {"EmptyBucketDropped"} # {})

Emit27 ==
  LET c  == Convert(st.bks, Deviations)
      p  == Convert(st.bks, {})
      nm == c.nm
      n  == Len(st.bks)
      m  == IF c.ok THEN n ELSE c.at - 1          \* a refused conversion holds the buckets before the refused one
      sv == DecodeServer(nm, m, Deviations)
      cl == DecodeClient(nm, m, Deviations) IN
  PrintT(<<"CASE", ToJson([
     bks   |-> [k \in 1..n |-> [len |-> st.bks[k].len, names |-> st.bks[k].names, types |-> [i \in 1..Len(st.bks[k].types) |-> TypeStr(st.bks[k].types[i])]]],
     accepted |-> c.ok, refusedat |-> c.at, pureaccepts |-> p.ok,
     book  |-> [length |-> nm.length, start |-> nm.start, lens |-> nm.lens,
                colbytes |-> [i \in 1..Len(nm.types) |-> ColBytes(nm, i)],
                types |-> [i \in 1..Len(nm.types) |-> TypeStr(nm.types[i])]],
     server |-> sv, client |-> cl,
     sames |-> c.ok /\ Same27(sv, nm, st.bks), samec |-> c.ok /\ Same27(cl, nm, st.bks),
     hit   |-> Hits27(st.bks) \cap Deviations])>>)

(***************************************************************************)
(* C28  transaction groups: serializeTG -> ParseTGData, with DSVToBytes /  *)
(*      DSVFromBytes for the data shapes                                   *)
(* state: [rt, b: the buckets addressed (size classes), cmds: the write    *)
(*        commands of the group in order]                                  *)
(*   bucket class  p   = length of the WAL key path                        *)
(*                 n   = number of data shapes (Epoch included)            *)
(*                 nl  = name length class, at position pos                *)
(*                 t   = element type of the columns                       *)
(***************************************************************************)
DefLen == 4
\* the schema as runs of equal shapes: [c = how many, l = name length, t = type]; Epoch is always first
Runs(bk) ==
  LET ep == <<[c |-> 1, l |-> 5, t |-> "INT64"]>>
      m  == bk.n - 1
  IN IF m = 0 THEN ep
     ELSE IF bk.pos = "all" \/ m = 1 THEN ep \o <<[c |-> m, l |-> bk.nl, t |-> bk.t]>>
     ELSE IF bk.pos = "first" THEN ep \o <<[c |-> 1, l |-> bk.nl, t |-> bk.t], [c |-> m - 1, l |-> DefLen, t |-> bk.t]>>
     ELSE ep \o <<[c |-> m - 1, l |-> DefLen, t |-> bk.t], [c |-> 1, l |-> bk.nl, t |-> bk.t]>>

RowBytes(bk)  == (bk.n - 1) * Size(bk.t)                    \* a row without its Epoch (formatRecord)
VRL(rt, bk)   == IF rt = 1 THEN RowBytes(bk) + 4 ELSE 0     \* variable: + 4 bytes of interval ticks
NRows(rt, bk, rc) == IF rc = "one" \/ rt = 0 THEN 1 ELSE (BigPayload + VRL(rt, bk) - 1) \div VRL(rt, bk)
\* fixed: the last row of an interval replaces the payload; variable: rows of an interval are appended
DataLen(rt, bk, rc) == IF rt = 0 THEN RowBytes(bk) ELSE NRows(rt, bk, rc) * VRL(rt, bk)

\* what a length prefix holds.  Real widths: int16(len(WALKeyPath)), uint8(len(dss)), uint8(len(ds.Name)),
\* int32(len(Data)) (TLC integers are 32 bit: every explored payload fits, stated by C28_Int32Fits)
S16(x) == LET m == x % 65536 IN IF m >= 32768 THEN m - 65536 ELSE m
U8(x)  == x % 256
StPath(p, devs)  == IF "Int16PathLen" \in devs THEN S16(p) ELSE p
StName(l, devs)  == IF "OneByteNameLen" \in devs THEN U8(l) ELSE l
StCount(n, devs) == IF "OneByteColCount" \in devs THEN U8(n) ELSE n

RECURSIVE RunsLayout(_, _, _, _)
RunsLayout(runs, k, off, devs) ==
  IF k > Len(runs) THEN <<>>
  ELSE <<[off |-> off, c |-> runs[k].c, l |-> runs[k].l, sl |-> StName(runs[k].l, devs), t |-> Code(runs[k].t)]>>
       \o RunsLayout(runs, k + 1, off + runs[k].c * (2 + runs[k].l), devs)
RECURSIVE RunsBytes(_, _)
RunsBytes(runs, k) == IF k = 0 THEN 0 ELSE RunsBytes(runs, k - 1) + runs[k].c * (2 + runs[k].l)
\* DSVToBytes: "dsLen := uint8(len(dss)); if dsLen == 0 {return nil, nil}", then count byte and the shapes
DsvBytes(bk, devs) == IF StCount(bk.n, devs) = 0 THEN 0 ELSE 1 + RunsBytes(Runs(bk), Len(Runs(bk)))

\* serializeTG, one command; offsets relative to the command's first byte
EncCmd(rt, bk, rc, devs) ==
  LET P == bk.p
      D == DataLen(rt, bk, rc)
      sc == StCount(bk.n, devs)
  IN [rt |-> rt, P |-> P, D |-> D, vrl |-> VRL(rt, bk), rows |-> NRows(rt, bk, rc), n |-> bk.n,
      spl |-> StPath(P, devs), sc |-> sc,
      o |-> [rt |-> 0, plen |-> 1, path |-> 3, dlen |-> 3 + P, vrl |-> 7 + P, off |-> 11 + P, idx |-> 19 + P,
             data |-> 27 + P, dsv |-> 27 + P + D],
      shapes |-> IF sc = 0 THEN <<>> ELSE RunsLayout(Runs(bk), 1, 27 + P + D + 1, devs),
      len |-> 27 + P + D + DsvBytes(bk, devs)]

\* ParseTGData on one command.  nextrt = record type byte of the following command, -1 at the end of the buffer.
\* The reader's cursor follows the stored prefixes; it meets the writer's fields exactly when every stored
\* prefix is the true length.  "corrupt" = the cursor left the writer's layout: whatever is decoded from there on
\* (or a slice-bounds panic) is not the original.
RECURSIVE ShapesBefore(_, _)
ShapesBefore(shapes, k) == IF k = 1 THEN 0 ELSE ShapesBefore(shapes, k - 1) + shapes[k - 1].c
DecCmd(e, nextrt) ==
  IF e.spl < 0 THEN [res |-> "panic", at |-> "path"]                     \* tgSerialized[cursor : cursor+FPLen], FPLen < 0
  ELSE IF e.spl # e.P THEN [res |-> "corrupt", at |-> "path"]
  ELSE IF e.sc = 0 THEN                                                  \* nothing was written; the count is read from what follows
       (IF nextrt = -1 THEN [res |-> "panic", at |-> "dsvcount"] ELSE [res |-> "corrupt", at |-> "dsvcount"])
  ELSE IF \E k \in 1..Len(e.shapes) : e.shapes[k].sl # e.shapes[k].l /\ ShapesBefore(e.shapes, k) < e.sc
       THEN [res |-> "corrupt", at |-> "name"]                           \* name cut to sl bytes, type byte taken from the name
  ELSE IF e.sc # e.n THEN [res |-> "corrupt", at |-> "count"]            \* only sc shapes are parsed, the rest is read as the next command
  ELSE [res |-> "ok", at |-> ""]
RECURSIVE DecTG(_, _, _)
DecTG(encs, k, broken) ==
  IF k > Len(encs) THEN <<>>
  ELSE IF broken THEN <<[res |-> "unknown", at |-> ""]>> \o DecTG(encs, k + 1, TRUE)
  ELSE LET d == DecCmd(encs[k], IF k = Len(encs) THEN -1 ELSE encs[k + 1].rt)
       IN <<d>> \o DecTG(encs, k + 1, d.res # "ok")

Encs(s, devs) == [k \in 1..Len(s.cmds) |-> EncCmd(s.rt, s.b[s.cmds[k].b], s.cmds[k].rc, devs)]
RECURSIVE TGLen(_, _)
TGLen(encs, k) == IF k = 0 THEN 16 ELSE TGLen(encs, k - 1) + encs[k].len       \* tgID(8) + WTCount(8) + commands
AllOk(dec) == \A k \in 1..Len(dec) : dec[k].res = "ok"

HitsBk(bk) == (IF \E k \in 1..Len(Runs(bk)) : U8(Runs(bk)[k].l) # Runs(bk)[k].l THEN {"OneByteNameLen"} ELSE {})
         \cup (IF U8(bk.n) # bk.n THEN {"OneByteColCount"} ELSE {})
         \cup (IF S16(bk.p) # bk.p THEN {"Int16PathLen"} ELSE {})
Hits28(s) == UNION {HitsBk(s.b[s.cmds[k].b]) : k \in 1..Len(s.cmds)}

\* what DataService.Create + Writer.WriteCSM can produce: the key path is sym/tf/attr/YYYY.bin with components of
\* at most 255 bytes (15..526 bytes), at most 1024 columns besides Epoch, pairwise different names
Producible(bk) == /\ bk.p \in 15..526 /\ bk.n >= 1 /\ bk.n - 1 <= 1024 /\ bk.nl >= 1
                  /\ (bk.nl >= 2 \/ bk.n - 1 <= 200)
AType == CHOOSE t \in Types : TRUE
Canonical(bk) == /\ (bk.n = 1 => bk.nl = DefLen /\ bk.pos = "all" /\ bk.t = AType)
                 /\ (bk.n = 2 => bk.pos = "all")
                 /\ (bk.n > 2 => bk.t \in BigTypes)
                 /\ (bk.pos # "all" => bk.nl # DefLen)
AllClasses == [p : PathLens, n : ColCounts, nl : NameLens \cup {DefLen}, pos : {"all", "first", "last"}, t : Types]
Buckets == {bk \in AllClasses : Producible(bk) /\ Canonical(bk)}
MinOf(S) == CHOOSE x \in S : \A y \in S : x <= y
MaxOf(S) == CHOOSE x \in S : \A y \in S : x >= y
\* second bucket of a group: a short clean one, one with the longest name, one with the largest shape count
Partners == {bk \in Buckets : /\ bk.p = MinOf({q \in PathLens : q \in 15..526}) /\ bk.pos = "all" /\ bk.t \in BigTypes
                              /\ \/ (bk.n = 2 /\ bk.nl \in {MinOf(NameLens), MaxOf(NameLens)})
                                 \/ (bk.n = MaxOf(ColCounts) /\ bk.n > 2 /\ bk.nl = DefLen)}
\* payload classes: fixed = one row (empty for an Epoch-only bucket); variable = one row, or (narrow schemas) so
\* many rows of one interval that the payload exceeds BigPayload bytes (BigPayload = 0 switches the class off)
RC(rt, bk) == IF rt = 1 /\ bk.n <= 2 /\ BigPayload > 0 THEN {"one", "many"} ELSE {"one"}

Init28 == st \in {[rt |-> r, b |-> <<bk>>, cmds |-> <<[b |-> 1, rc |-> rc]>>] : r \in {0, 1}, bk \in Buckets, rc \in {"one", "many"}}
          /\ st.cmds[1].rc \in RC(st.rt, st.b[1])
Next28 == /\ Len(st.cmds) < MaxCmds
          /\ \/ (st.cmds[Len(st.cmds)].b = 1 /\      \* one WriteCSM: the commands of a bucket are adjacent
                 \E rc \in RC(st.rt, st.b[1]) : st' = [st EXCEPT !.cmds = Append(@, [b |-> 1, rc |-> rc])])
             \/ (Len(st.b) = 2 /\ \E rc \in RC(st.rt, st.b[2]) : st' = [st EXCEPT !.cmds = Append(@, [b |-> 2, rc |-> rc])])
             \/ (TwoBuckets /\ Len(st.b) = 1 /\ \E bk \in Partners, rc \in {"one", "many"} :
                   /\ bk # st.b[1] /\ rc \in RC(st.rt, bk)
                   /\ st' = [st EXCEPT !.b = Append(@, bk), !.cmds = Append(@, [b |-> 2, rc |-> rc])])

C28_RoundTrip == AllOk(DecTG(Encs(st, {}), 1, FALSE))
C28_DevExplains == (~AllOk(DecTG(Encs(st, Deviations), 1, FALSE))) <=> (Hits28(st) \cap Deviations # {})
\* no path the write path can produce overflows the int16 prefix; every payload fits the int32 prefix
C28_PathFits == \A k \in 1..Len(st.b) : Producible(st.b[k]) => S16(st.b[k].p) = st.b[k].p
C28_Int32Fits == \A k \in 1..Len(st.cmds) : Encs(st, Deviations)[k].D < 2147483647 /\ TGLen(Encs(st, Deviations), Len(st.cmds)) < 2147483647
\* fields of a command are back to back: every offset is the previous offset plus the previous width
C28_Contiguous == \A k \in 1..Len(st.cmds) :
   LET e == Encs(st, Deviations)[k] IN
   /\ e.o.plen = e.o.rt + 1 /\ e.o.path = e.o.plen + 2 /\ e.o.dlen = e.o.path + e.P /\ e.o.vrl = e.o.dlen + 4
   /\ e.o.off = e.o.vrl + 4 /\ e.o.idx = e.o.off + 8 /\ e.o.data = e.o.idx + 8 /\ e.o.dsv = e.o.data + e.D
   /\ (e.shapes # <<>> => e.shapes[1].off = e.o.dsv + 1)
   /\ \A j \in 1..(Len(e.shapes) - 1) : e.shapes[j + 1].off = e.shapes[j].off + e.shapes[j].c * (2 + e.shapes[j].l)
   /\ (e.shapes # <<>> => e.len = e.shapes[Len(e.shapes)].off + e.shapes[Len(e.shapes)].c * (2 + e.shapes[Len(e.shapes)].l))
   /\ (e.shapes = <<>> => e.len = e.o.dsv)

Emit28 ==
  LET encs == Encs(st, Deviations) IN
  PrintT(<<"CASE", ToJson([
     rt   |-> st.rt,
     b    |-> [k \in 1..Len(st.b) |-> [p |-> st.b[k].p, n |-> st.b[k].n, nl |-> st.b[k].nl, pos |-> st.b[k].pos,
                                       t |-> st.b[k].t, runs |-> [j \in 1..Len(Runs(st.b[k])) |->
                                           <<Runs(st.b[k])[j].c, Runs(st.b[k])[j].l, Runs(st.b[k])[j].t>>],
                                       rowbytes |-> RowBytes(st.b[k]), vrl |-> VRL(st.rt, st.b[k]),
                                       hit |-> HitsBk(st.b[k]) \cap Deviations]],
     cmds |-> [k \in 1..Len(st.cmds) |-> [b |-> st.cmds[k].b, rc |-> st.cmds[k].rc, enc |-> encs[k]]],
     total |-> TGLen(encs, Len(encs)),
     dec  |-> DecTG(encs, 1, FALSE),
     same |-> AllOk(DecTG(encs, 1, FALSE)),
     hit  |-> Hits28(st) \cap Deviations])>>)

\* the size classes whose prefix overflows, found by evaluating the prefix arithmetic, and whether the write
\* path can produce them
ASSUME Family = "C28" =>
  PrintT(<<"OVF", ToJson([
     path |-> {[len |-> p, stored |-> S16(p), producible |-> p \in 15..526] : p \in {q \in PathLens : S16(q) # q}},
     name |-> {[len |-> l, stored |-> U8(l)] : l \in {q \in NameLens : U8(q) # q}},
     cols |-> {[n |-> n, stored |-> U8(n)] : n \in {q \in ColCounts : U8(q) # q}},
     notproducible |-> {p \in PathLens : ~(p \in 15..526)}])>>)

(***************************************************************************)
(* DSV alone: DSVToBytes -> DSVFromBytes over the same bucket classes      *)
(* (state: one bucket class)                                               *)
(***************************************************************************)
InitDSV == st \in {[b |-> bk] : bk \in Buckets}
NextDSV == UNCHANGED st
DsvDec(bk, devs) == DecCmd(EncCmd(0, bk, "one", devs), -1)
DSV_RoundTrip == DsvDec(st.b, {}).res = "ok"
DSV_DevExplains == (DsvDec(st.b, Deviations).res # "ok") <=> (HitsBk(st.b) \cap Deviations # {})
EmitDSV ==
  LET e == EncCmd(0, st.b, "one", Deviations) IN
  PrintT(<<"CASE", ToJson([
     n |-> st.b.n, runs |-> [j \in 1..Len(Runs(st.b)) |-> <<Runs(st.b)[j].c, Runs(st.b)[j].l, Code(Runs(st.b)[j].t)>>],
     sc |-> e.sc, bytes |-> DsvBytes(st.b, Deviations),
     shapes |-> [j \in 1..Len(e.shapes) |-> [off |-> e.shapes[j].off - e.o.dsv, c |-> e.shapes[j].c, l |-> e.shapes[j].l,
                                             sl |-> e.shapes[j].sl, t |-> e.shapes[j].t]],
     dec |-> DsvDec(st.b, Deviations), hit |-> HitsBk(st.b) \cap Deviations])>>)

(***************************************************************************)
Init == CASE Family = "C27" -> Init27 [] Family = "C28" -> Init28 [] Family = "C29" -> Init29 [] Family = "DSV" -> InitDSV
Next == CASE Family = "C27" -> Next27 [] Family = "C28" -> Next28 [] Family = "C29" -> Next29 [] Family = "DSV" -> NextDSV
Spec == Init /\ [][Next]_st
=============================================================================
