----------------------------- MODULE AggTrigger -----------------------------
(***************************************************************************)
(* C24: on-disk aggregation matches the base data.                         *)
(*                                                                         *)
(* Abstract part  : the base bucket is a last-writer-wins map from base    *)
(*                  positions (bar slots in time order) to bars; for every *)
(*                  destination timeframe the destination bucket must hold *)
(*                  exactly one bar per window that has base bars, namely  *)
(*                  the aggregate of the base bars CURRENTLY stored in the *)
(*                  window (DestOfBase).  This IS the property.            *)
(* Implementation : contrib/ondiskagg/aggtrigger/aggtrigger.go.  A write   *)
(* shaped part      request is split into write commands (one per run of   *)
(*                  rows with the same index, Writer.WriteRecords); after  *)
(*                  the flush the dispatcher hands these records to        *)
(*                  OnDiskAggTrigger.Fire: head / tail from the first and  *)
(*                  last record, cachedAgg.Valid, RecordsToColumnSeries,   *)
(*                  io.ColumnSeriesUnion(new, cached), the query of the    *)
(*                  upper-bound window, and per destination                *)
(*                  writeAggregates: SliceColumnSeriesByEpoch, aggregate,  *)
(*                  WriteCSM, and the deferred cache store for the upper   *)
(*                  bound destination.                                     *)
(*                                                                         *)
(* The places where the code is known to differ from the property are      *)
(* named deviations; every operator takes the set of active deviations, so *)
(* one TLC run carries the intended design (devs = {}) and the behaviour   *)
(* of the unchanged tree (devs = Deviations) side by side.                 *)
(*   StaleCacheWins          ColumnSeriesUnion(cs, &c.cs): on equal epochs *)
(*                           the right (cached, old) row wins              *)
(*   PartialWindowFromCache  cachedAgg.Valid is an overlap test, so a      *)
(*                           request reaching outside the cached window is *)
(*                           aggregated from the cache + the new rows only *)
(*   UnsortedRequest         head / tail are the first / last record of    *)
(*                           the request, not the earliest / latest        *)
(***************************************************************************)
EXTENDS Integers, Sequences, FiniteSets, TLC, Json, SequencesExt

CONSTANTS NP,         \* base positions 0..NP-1 (bar slots of the base bucket, in time order)
          DestSet,    \* destination window sizes in positions (the configured destinations)
          MaxRows,    \* rows per write request
          Depth,      \* write requests per history
          HMul, LMul, \* multipliers in 1..12: the High of value id v has rank (v * HMul) % 13 among the Highs, the Low
                      \* rank (v * LMul) % 13 among the Lows (13 is prime: distinct value ids <= 12 get distinct ranks)
          Deviations  \* subset of {"StaleCacheWins", "PartialWindowFromCache", "UnsortedRequest"}

VARIABLES base,      \* position -> value id (0 = no bar): what is stored in the base bucket
          implP,     \* [dest, cache] of the intended design (no deviation)
          implD,     \* [dest, cache] as coded (Deviations)
          pending,   \* rows of the request flushed last, whose records the trigger has not yet processed
          devHit,    \* deviations that changed the outcome of some Fire so far
          hist       \* history (output only)

vars == <<base, implP, implD, pending, devHit, hist>>

Pos    == 0..(NP - 1)
NVal   == Depth * MaxRows
Dests  == SetToSortSeq(DestSet, LAMBDA x, y : x < y)   \* the order of the destinations does not influence the result
ND     == Len(Dests)
HRank(v) == (v * HMul) % 13
LRank(v) == (v * LMul) % 13
Upper  == CHOOSE s \in Range(Dests) : \A t \in Range(Dests) : t <= s      \* destinations.UpperBound()
NWin(size) == (NP + size - 1) \div size

MinOf(S) == CHOOSE x \in S : \A y \in S : x <= y
MaxOf(S) == CHOOSE x \in S : \A y \in S : y <= x

\* CandleDuration.Truncate / Ceil for intraday windows, in positions
Trunc(p, size) == (p \div size) * size
Ceil(p, size)  == ((p + size) \div size) * size

(***************************************************************************)
(* Bars.  A base bar written by row j of request k carries the fresh value *)
(* id (k-1)*MaxRows + j; its open, high, low, close are "the open of v"    *)
(* ..., its volume the bag <<v>>.  An aggregated bar names the value ids   *)
(* that supply open / high / low / close and the bag of summed volumes.    *)
(***************************************************************************)
NoBar == [o |-> 0, h |-> 0, l |-> 0, c |-> 0, s |-> {}]

\* accumGroup first / max / min / last / sum over a non-empty, time-ordered sequence of value ids.  The value ids
\* met in one window are distinct (fresh per row), so the bag of summed volumes is the set of the ids.
AggVals(vs) == [o |-> vs[1],
                h |-> CHOOSE x \in Range(vs) : \A y \in Range(vs) : HRank(y) <= HRank(x),
                l |-> CHOOSE x \in Range(vs) : \A y \in Range(vs) : LRank(x) <= LRank(y),
                c |-> vs[Len(vs)],
                s |-> Range(vs)]

(***************************************************************************)
(* The property: what the destination of a given window size must hold     *)
(***************************************************************************)
PosSeq(from, to) == [k \in 1..(to - from) |-> from + k - 1]          \* positions from .. to-1 in time order
Stored(b, from, to) == SelectSeq(PosSeq(from, IF to > NP THEN NP ELSE to), LAMBDA p : b[p] # 0)
WinVals(b, w, size) == LET sp == Stored(b, w * size, (w + 1) * size) IN [k \in 1..Len(sp) |-> b[sp[k]]]
DestOfBase(b, size) == [w1 \in 1..NWin(size) |-> IF WinVals(b, w1 - 1, size) = <<>> THEN NoBar
                                                 ELSE AggVals(WinVals(b, w1 - 1, size))]
Expected(b) == [di \in 1..ND |-> DestOfBase(b, Dests[di])]

(***************************************************************************)
(* Column series = sequence of [p, v]                                      *)
(***************************************************************************)
\* io.SliceColumnSeriesByEpoch(cs, &start, &end): drop everything before the first row with epoch >= start (if there
\* is one), then keep everything up to the last row with epoch < end (if there is one).  endX is the first
\* position whose epoch is not < end (end = Ceil(tail) - 1 s and rows are at least one base interval apart).
SliceStart(cs, start) == LET K == {k \in 1..Len(cs) : cs[k].p >= start}
                         IN  IF K = {} THEN cs ELSE SubSeq(cs, MinOf(K), Len(cs))
SliceEnd(cs, endX)    == LET K == {k \in 1..Len(cs) : cs[k].p < endX}
                         IN  IF K = {} THEN cs ELSE SubSeq(cs, 1, MaxOf(K))
Slice(cs, start, endX) == SliceEnd(SliceStart(cs, start), endX)

\* io.ColumnSeriesUnion(left, right): one row per epoch, rows of right replace rows of left, later rows of the same
\* series replace earlier ones, result sorted by epoch
LastAt(cs, p) == cs[MaxOf({k \in 1..Len(cs) : cs[k].p = p})].v
UnionCS(left, right) ==
  LET sp == SelectSeq(PosSeq(0, NP), LAMBDA q : (\E k \in 1..Len(left) : left[k].p = q) \/ (\E k \in 1..Len(right) : right[k].p = q))
  IN  [k \in 1..Len(sp) |-> [p |-> sp[k],
                             v |-> IF \E j \in 1..Len(right) : right[j].p = sp[k] THEN LastAt(right, sp[k])
                                   ELSE LastAt(left, sp[k])]]

\* OnDiskAggTrigger.query: the base rows stored in [window.Truncate(head), window.Ceil(tail) - 1 s] of the upper bound
QueryBase(b, hd, tl) ==
  LET sp == IF Trunc(hd, Upper) < Ceil(tl, Upper) THEN Stored(b, Trunc(hd, Upper), Ceil(tl, Upper)) ELSE <<>>
  IN  [k \in 1..Len(sp) |-> [p |-> sp[k], v |-> b[sp[k]]]]

\* aggregate(): one bar per window of the (time-ordered) input
Aggregate(cs, size) ==
  [w1 \in 1..NWin(size) |->
     LET sel == SelectSeq(cs, LAMBDA r : r.p \div size = w1 - 1)
     IN  IF sel = <<>> THEN NoBar ELSE AggVals([k \in 1..Len(sel) |-> sel[k].v])]

NoCache == [cs |-> <<>>, tail |-> -1, headX |-> -1]

\* cachedAgg.Valid(tail, head)
CacheValid(c, hd, tl, devs) ==
  IF "PartialWindowFromCache" \in devs THEN tl >= c.tail /\ hd < c.headX      \* as coded: [head, tail] overlaps the cached window
  ELSE hd >= c.tail /\ tl < c.headX /\ hd <= tl                              \* intended: the request lies inside it

\* writeAggregates for destination di
WriteAgg(st, cs, di, hd, tl) ==
  LET size == Dests[di]
      endX == Ceil(tl, size)
      slc  == Slice(cs, Trunc(hd, size), endX)
      agg  == Aggregate(slc, size)
  IN  IF slc = <<>> THEN st
      ELSE [dest  |-> [st.dest EXCEPT ![di] = [w1 \in 1..NWin(size) |-> IF agg[w1] = NoBar THEN @[w1] ELSE agg[w1]]],
            cache |-> IF size = Upper                         \* deferred store when writing the upper bound
                      THEN [cs |-> Slice(cs, Trunc(tl, Upper), endX), tail |-> Trunc(tl, Upper), headX |-> endX]
                      ELSE st.cache]

RECURSIVE WriteAll(_, _, _, _, _)
WriteAll(st, cs, di, hd, tl) == IF di > ND THEN st ELSE WriteAll(WriteAgg(st, cs, di, hd, tl), cs, di + 1, hd, tl)

\* OnDiskAggTrigger.Fire
FireOn(st, b, recs, devs) ==
  LET P  == {recs[k].p : k \in 1..Len(recs)}
      hd == IF "UnsortedRequest" \in devs THEN recs[1].p ELSE MinOf(P)
      tl == IF "UnsortedRequest" \in devs THEN recs[Len(recs)].p ELSE MaxOf(P)
  IN  IF st.cache # NoCache /\ CacheValid(st.cache, hd, tl, devs)
      THEN LET cs == IF "StaleCacheWins" \in devs THEN UnionCS(recs, st.cache.cs)     \* as coded: cached rows win
                     ELSE UnionCS(st.cache.cs, recs)
           IN  WriteAll(st, cs, 1, hd, tl)
      ELSE LET q == QueryBase(b, hd, tl)                                               \* cache missing or deleted
           IN  IF q = <<>> THEN [st EXCEPT !.cache = NoCache]
               ELSE WriteAll([st EXCEPT !.cache = NoCache], q, 1, hd, tl)

(***************************************************************************)
(* Behaviours                                                              *)
(***************************************************************************)
EmptyDest == [di \in 1..ND |-> [w1 \in 1..NWin(Dests[di]) |-> NoBar]]

Init == /\ base = [p \in Pos |-> 0]
        /\ implP = [dest |-> EmptyDest, cache |-> NoCache]
        /\ implD = [dest |-> EmptyDest, cache |-> NoCache]
        /\ pending = <<>> /\ devHit = {} /\ hist = <<>>

ASSUME NVal <= 12 /\ HMul \in 1..12 /\ LMul \in 1..12

Requests == UNION {[1..n -> Pos] : n \in 1..MaxRows}

RowsOf(ps, k) == [j \in 1..Len(ps) |-> [p |-> ps[j], v |-> (k - 1) * MaxRows + j]]

\* Writer.WriteRecords: consecutive rows with the same index become one write command holding the last of them
RECURSIVE Collapse(_)
Collapse(rows) == IF Len(rows) <= 1 THEN rows
                  ELSE IF rows[1].p = rows[2].p THEN Collapse(Tail(rows))
                  ELSE <<rows[1]>> \o Collapse(Tail(rows))

RECURSIVE ApplyRows(_, _)
ApplyRows(b, rows) == IF rows = <<>> THEN b ELSE ApplyRows([b EXCEPT ![Head(rows).p] = Head(rows).v], Tail(rows))

\* a write request to the base bucket is flushed: data on disk, records handed to the dispatcher
WriteBase(ps) ==
  /\ pending = <<>> /\ Len(hist) < Depth
  /\ LET rows == RowsOf(ps, Len(hist) + 1) IN
       /\ base' = ApplyRows(base, rows)
       /\ pending' = rows
  /\ UNCHANGED <<implP, implD, devHit, hist>>

Singles(st, recs, D) == {d \in D : FireOn(st, base, recs, D \ {d}) # FireOn(st, base, recs, D)}
Hits(st, recs, D) == IF FireOn(st, base, recs, {}) = FireOn(st, base, recs, D) THEN {}
                     ELSE IF Singles(st, recs, D) # {} THEN Singles(st, recs, D) ELSE D

\* the trigger processes the records; D = the deviations the tree under test has (a tree in which some of the
\* listed defects were repaired has a subset of Deviations; the script module AggTrigger_Script quantifies over it)
FireWith(D) ==
  /\ pending # <<>>
  /\ implP' = FireOn(implP, base, Collapse(pending), {})
  /\ implD' = FireOn(implD, base, Collapse(pending), D)
  /\ devHit' = devHit \cup Hits(implD, Collapse(pending), D)
  /\ pending' = <<>>
  /\ hist' = Append(hist, [rows |-> pending, recs |-> Collapse(pending), expect |-> Expected(base), known |-> implD'.dest, hit |-> devHit'])
  /\ UNCHANGED base

Fire == FireWith(Deviations)

Next == Fire \/ \E ps \in Requests : WriteBase(ps)

Spec == Init /\ [][Next]_vars

View == <<base, implP, implD, pending, devHit, Len(hist)>>

(***************************************************************************)
(* Properties                                                              *)
(***************************************************************************)
Quiescent == pending = <<>>
\* the intended design keeps every destination equal to the aggregate of the base (C24)
DestEqAggregateOfBase == Quiescent => implP.dest = Expected(base)
\* the unchanged tree differs from the intended design only when a listed deviation changed a Fire
DeviationsExplainAll == (Quiescent /\ devHit = {}) => implD = implP

\* output of complete histories for replay into the real code
Emit == (Quiescent /\ Len(hist) = Depth) => PrintT(<<"BEH", ToJson(hist)>>)
=============================================================================
