-------------------------------- MODULE Repl --------------------------------
(***************************************************************************)
(* C25: replicas converge to the master.                                   *)
(*                                                                         *)
(* Abstract part  : the master holds a fixed-length bucket F (last writer  *)
(*                  wins per interval) and a variable-length bucket V (a   *)
(*                  bag of records kept in time order).  After the replica *)
(*                  has applied every transmitted transaction group, every *)
(*                  query must return the same rows on both sides          *)
(*                  (ReplicaConverged).  This IS the property.             *)
(* Implementation : writes are queued as write sets (one per interval and  *)
(* shaped part      request, Writer.WriteRecords); a flush serialises what *)
(*                  is queued as ONE transaction group and hands it to the *)
(*                  ReplicationSender (executor/wal.go:318).  The replica  *)
(*                  runs replication.ReplayerImpl.Replay: ParseTGData, per *)
(*                  write set WTSetToCSM (wtSetToCS /                      *)
(*                  serializeVariableRecords) and writeFunc = WriteCSM     *)
(*                  with isVariableLength taken from the FIRST write set;  *)
(*                  Writer.WriteCSM creates a missing bucket from the      *)
(*                  flag and the columns it was given, rejects a column    *)
(*                  mismatch (which ends the replay of the group), and     *)
(*                  writes by the record type of the bucket it found.      *)
(*                                                                         *)
(* Named deviations (behaviour of the unchanged tree that breaks C25):     *)
(*   ReplicaDropsSeconds  serializeVariableRecords stamps every record     *)
(*                        with the interval start and keeps only the       *)
(*                        nanosecond part of GetTimeFromTicks: whole       *)
(*                        seconds inside an interval > 1 s are lost        *)
(*   ReplicaFirstSetType  Replay passes wtsets[0].RecordType for every     *)
(*                        write set of the group                           *)
(***************************************************************************)
EXTENDS Integers, Sequences, FiniteSets, TLC, Json, SequencesExt

CONSTANTS NI,         \* intervals 1..NI of both buckets
          TfLong,     \* TRUE: the timeframe of V is longer than one second (offsets may carry whole seconds)
          MaxRecs,    \* records per variable-length write set
          MaxSets,    \* write sets per transaction group
          MaxTGs,     \* transaction groups per history
          MaxWrites,  \* write sets per history
          Deviations  \* subset of {"ReplicaDropsSeconds", "ReplicaFirstSetType"}

VARIABLES mF,      \* master, fixed bucket: interval -> value id (0 = empty)
          mV,      \* master, variable bucket: sequence of [i, o, v] in arrival order
          replP,   \* replica of the intended design: [F |-> bucket, V |-> bucket]
          replD,   \* replica as coded (Deviations)
          open,    \* write sets queued on the master, not yet flushed
          nrec,    \* records written so far (value ids are fresh: 1, 2, ...)
          nset,    \* write sets so far
          devHit,  \* deviations that changed the outcome of some replay so far
          hist     \* flushed transaction groups with the expected and the known result (output)

vars == <<mF, mV, replP, replD, open, nrec, nset, devHit, hist>>

Ivs == 1..NI
\* offset classes inside an interval: o = 2 * (has whole seconds) + (sub-second class)
Offs == IF TfLong THEN 0..3 ELSE 0..1
SubSecond(o) == o % 2

(***************************************************************************)
(* Buckets as a query sees them: [nanos, rows]; rows = <<[i, o, v]>> in    *)
(* time order; nanos = the result carries a Nanoseconds column             *)
(***************************************************************************)
\* sort.Stable(NewByIntervalTicks) / the scan in time order: by (interval, offset), ties in arrival order
StableSort(sq) == LET idx == SortSeq([k \in 1..Len(sq) |-> k],
                                     LAMBDA a, b : \/ sq[a].i < sq[b].i
                                                   \/ (sq[a].i = sq[b].i /\ sq[a].o < sq[b].o)
                                                   \/ (sq[a].i = sq[b].i /\ sq[a].o = sq[b].o /\ a < b))
                  IN  [k \in 1..Len(sq) |-> sq[idx[k]]]

NoRec == [v |-> 0, o |-> 0]
FixedRows(fx) == LET S == SelectSeq([k \in 1..NI |-> k], LAMBDA i : fx[i].v # 0)
                 IN  [k \in 1..Len(S) |-> [i |-> S[k], o |-> fx[S[k]].o, v |-> fx[S[k]].v]]

MasterF == [nanos |-> FALSE, rows |-> FixedRows([i \in Ivs |-> [v |-> mF[i], o |-> 0]])]
MasterV == IF mV = <<>> THEN [nanos |-> FALSE, rows |-> <<>>] ELSE [nanos |-> TRUE, rows |-> StableSort(mV)]

\* a bucket of the replica: kind "none" | "fixed" | "variable"; nanos: a fixed bucket whose schema holds the
\* Nanoseconds column as data; fx: interval -> [v, o] (v = 0: empty); vr: records in arrival order
NoBucket == [kind |-> "none", nanos |-> FALSE, fx |-> [i \in Ivs |-> NoRec], vr |-> <<>>]
ViewOf(bk) == IF bk.kind = "none" THEN [nanos |-> FALSE, rows |-> <<>>]
              ELSE IF bk.kind = "fixed" THEN [nanos |-> bk.nanos, rows |-> FixedRows(bk.fx)]
              ELSE [nanos |-> TRUE, rows |-> StableSort(bk.vr)]

(***************************************************************************)
(* Replay of one transaction group on the replica                          *)
(***************************************************************************)
IsVar(ws) == ws.b = "V"

\* Replay: writeFunc(csm, wtsets[0].RecordType == VARIABLE)
Flag(tg, ws, devs) == IF "ReplicaFirstSetType" \in devs THEN IsVar(tg[1]) ELSE IsVar(ws)

\* WTSetToCSM: a fixed set gives one row at the interval start; a variable set gives one row per record, stamped
\* with the interval start + (as coded) only the nanosecond part of the decoded ticks
RowsOf(ws, devs) == [k \in 1..Len(ws.recs) |->
                       [i |-> ws.i, v |-> ws.recs[k].v,
                        o |-> IF IsVar(ws) /\ TfLong /\ "ReplicaDropsSeconds" \in devs THEN SubSecond(ws.recs[k].o) ELSE ws.recs[k].o]]

RECURSIVE PutFixed(_, _)
PutFixed(fx, rows) == IF rows = <<>> THEN fx
                      ELSE PutFixed([fx EXCEPT ![Head(rows).i] = [v |-> Head(rows).v, o |-> Head(rows).o]], Tail(rows))

\* Writer.WriteCSM(csm, flagVar) on the bucket bk: [ok, bk]
WriteCSM(bk, ws, flagVar, devs) ==
  LET rows     == RowsOf(ws, devs)
      csmNanos == IsVar(ws) /\ ~flagVar      \* the Nanoseconds column is removed only when isVariableLength is set
      \* a missing bucket is created with the record type of the flag and the columns of the column series
      target   == IF bk.kind = "none"
                  THEN [NoBucket EXCEPT !.kind = IF flagVar THEN "variable" ELSE "fixed", !.nanos = csmNanos]
                  ELSE bk
      \* "unable to match data columns to bucket columns"
      mismatch == csmNanos # (target.kind = "fixed" /\ target.nanos)
  IN  IF mismatch THEN [ok |-> FALSE, bk |-> bk]
      ELSE IF target.kind = "fixed"                       \* WriteRecords goes by the record type of the bucket
      THEN [ok |-> TRUE, bk |-> [target EXCEPT !.fx = PutFixed(@, rows)]]
      ELSE [ok |-> TRUE, bk |-> [target EXCEPT !.vr = @ \o rows]]

\* the first failing write set ends the replay of the group
RECURSIVE ApplySets(_, _, _, _)
ApplySets(r, tg, k, devs) ==
  IF k > Len(tg) THEN r
  ELSE LET ws  == tg[k]
           res == WriteCSM(r[ws.b], ws, Flag(tg, ws, devs), devs)
       IN  IF ~res.ok THEN r ELSE ApplySets([r EXCEPT ![ws.b] = res.bk], tg, k + 1, devs)

ApplyTG(r, tg, devs) == ApplySets(r, tg, 1, devs)

(***************************************************************************)
(* Behaviours                                                              *)
(***************************************************************************)
Init == /\ mF = [i \in Ivs |-> 0] /\ mV = <<>>
        /\ replP = [F |-> NoBucket, V |-> NoBucket] /\ replD = [F |-> NoBucket, V |-> NoBucket]
        /\ open = <<>> /\ nrec = 0 /\ nset = 0 /\ devHit = {} /\ hist = <<>>

OffSeqs == UNION {[1..n -> Offs] : n \in 1..MaxRecs}

CanAdd == Len(open) < MaxSets /\ nset < MaxWrites /\ Len(hist) < MaxTGs

\* a client write to one interval of F / V is queued (one write set)
AddF(i) == /\ CanAdd
           /\ open' = Append(open, [b |-> "F", i |-> i, recs |-> <<[o |-> 0, v |-> nrec + 1]>>])
           /\ nrec' = nrec + 1 /\ nset' = nset + 1
           /\ UNCHANGED <<mF, mV, replP, replD, devHit, hist>>
AddV(i, os) == /\ CanAdd
               /\ open' = Append(open, [b |-> "V", i |-> i, recs |-> [k \in 1..Len(os) |-> [o |-> os[k], v |-> nrec + k]]])
               /\ nrec' = nrec + Len(os) /\ nset' = nset + 1
               /\ UNCHANGED <<mF, mV, replP, replD, devHit, hist>>

RECURSIVE MasterApply(_, _, _)
MasterApply(f, v, tg) ==
  IF tg = <<>> THEN <<f, v>>
  ELSE LET ws == Head(tg) IN
       IF IsVar(ws) THEN MasterApply(f, v \o [k \in 1..Len(ws.recs) |-> [i |-> ws.i, o |-> ws.recs[k].o, v |-> ws.recs[k].v]], Tail(tg))
       ELSE MasterApply([f EXCEPT ![ws.i] = ws.recs[1].v], v, Tail(tg))

Singles(r, tg, D) == {d \in D : ApplyTG(r, tg, D \ {d}) # ApplyTG(r, tg, D)}
Hits(r, tg, D) == IF ApplyTG(r, tg, {}) = ApplyTG(r, tg, D) THEN {}
                  ELSE IF Singles(r, tg, D) # {} THEN Singles(r, tg, D) ELSE D

\* the queued write sets are flushed as one transaction group, sent, and replayed by the replica; D = the deviations
\* the tree under test has (a subset of Deviations once some of the listed defects are repaired, see Repl_Script)
FlushWith(D) ==
  /\ open # <<>>
  /\ mF' = MasterApply(mF, mV, open)[1] /\ mV' = MasterApply(mF, mV, open)[2]
  /\ replP' = ApplyTG(replP, open, {})
  /\ replD' = ApplyTG(replD, open, D)
  /\ devHit' = devHit \cup Hits(replD, open, D)
  /\ open' = <<>>
  /\ hist' = Append(hist, [tg |-> open, mF |-> MasterF', mV |-> MasterV',
                           kF |-> ViewOf(replD'.F), kV |-> ViewOf(replD'.V), hit |-> devHit'])
  /\ UNCHANGED <<nrec, nset>>

Flush == FlushWith(Deviations)

Next == Flush \/ (\E i \in Ivs : AddF(i)) \/ (\E i \in Ivs, os \in OffSeqs : AddV(i, os))

Spec == Init /\ [][Next]_vars

View == <<mF, mV, replP, replD, open, nrec, nset, devHit, Len(hist)>>

(***************************************************************************)
(* Properties                                                              *)
(***************************************************************************)
Quiescent == open = <<>>
\* the intended design: after every applied group both sides answer every query alike (C25)
ReplicaConverged == Quiescent => (ViewOf(replP.F) = MasterF /\ ViewOf(replP.V) = MasterV)
\* the unchanged tree differs from the intended design only when a listed deviation changed a replay
DeviationsExplainAll == (Quiescent /\ devHit = {}) => replD = replP

\* maximal histories, for replay into the real code (every prefix is compared on the way)
Complete == Quiescent /\ hist # <<>> /\ (Len(hist) = MaxTGs \/ nset = MaxWrites)
Emit == Complete => PrintT(<<"BEH", ToJson(hist)>>)
=============================================================================
