----------------------------- MODULE ReplFanout -----------------------------
(***************************************************************************)
(* Replication fan-out on the master (C26).                                *)
(*   replication/sender.go       Sender.Run: one goroutine takes committed *)
(*                               TGs from a channel and calls              *)
(*   replication/grpc_server.go  SendReplicationMessage: for every entry of*)
(*                               the StreamChannels map: channel <- tg     *)
(*                               GetWALStream (one goroutine per replica): *)
(*                               insert a channel into the map, then loop  *)
(*                               receive -> stream.Send; on a Send error   *)
(*                               delete the map entry and close the channel*)
(* Go semantics: send on a closed channel panics; a map that is written    *)
(* while another goroutine iterates it is a data race (fatal error).       *)
(*                                                                         *)
(* Deviations of the unchanged tree: "NoLock" - the map and the channels   *)
(* are not protected: the fan-out can hold a channel it picked from the map*)
(* while the handler deletes the entry and closes that channel.            *)
(***************************************************************************)
EXTENDS Integers, Sequences, FiniteSets, TLC, Json, SequencesExt

CONSTANTS Replicas, NMsg, Deviations

VARIABLES hpc,      \* replica -> "off" | "serving" | "beforeDelete" | "deleted" | "ended"
          failing,  \* replicas whose stream.Send fails from now on
          inmap,    \* replicas whose channel is in StreamChannels
          closed,   \* replicas whose channel is closed
          got,      \* replica -> Seq of messages received by the replica
          queue,    \* sender channel: committed TGs not yet fanned out
          sent,     \* number of TGs committed so far
          fpc,      \* fan-out: "idle" | "ranging" | "holding"
          fmsg, ftodo, fhold,   \* message being fanned out, replicas still to visit, replica whose channel is held
          panic, iterating, maprace,
          connectedAt,  \* replica -> number of TGs committed when its channel entered the map
          hist

vars == <<hpc, failing, inmap, closed, got, queue, sent, fpc, fmsg, ftodo, fhold, panic, iterating, maprace, connectedAt, hist>>
H(p, a, u) == hist' = Append(hist, [proc |-> p, act |-> a, until |-> u, r |-> "", out |-> ""])
HF(a, u, rr, o) == hist' = Append(hist, [proc |-> "fan", act |-> a, until |-> u, r |-> rr, out |-> o])

Init == /\ hpc = [r \in Replicas |-> "off"] /\ failing = {} /\ inmap = {} /\ closed = {}
        /\ got = [r \in Replicas |-> <<>>] /\ queue = <<>> /\ sent = 0
        /\ fpc = "idle" /\ fmsg = 0 /\ ftodo = {} /\ fhold = "" /\ panic = FALSE /\ iterating = FALSE /\ maprace = FALSE
        /\ connectedAt = [r \in Replicas |-> 0] /\ hist = <<>>

Locked == "NoLock" \notin Deviations   \* the intended design: map and channels under one lock

\* ---- replica stream handlers ----
Connect(r) ==   \* GetWALStream inserts its channel ... parks at Repl.inserted
  /\ hpc[r] = "off" /\ ~panic
  /\ (Locked => ~iterating)
  /\ hpc' = [hpc EXCEPT ![r] = "serving"] /\ inmap' = inmap \cup {r}
  /\ maprace' = (maprace \/ iterating)
  /\ connectedAt' = [connectedAt EXCEPT ![r] = sent]
  /\ H(r, "Connect", "Repl.inserted")
  /\ UNCHANGED <<failing, closed, got, queue, sent, fpc, fmsg, ftodo, fhold, panic, iterating>>
Fail(r) ==      \* the replica goes away: the next Send on its stream fails
  /\ hpc[r] = "serving" /\ r \notin failing /\ ~panic /\ failing' = failing \cup {r}
  /\ H("env", "Fail", r)
  /\ UNCHANGED <<hpc, inmap, closed, got, queue, sent, fpc, fmsg, ftodo, fhold, panic, iterating, maprace, connectedAt>>
Delete(r) ==    \* (parked at Repl.beforeDelete) delete(StreamChannels, addr) ... parks at Repl.deleted
  /\ hpc[r] = "beforeDelete" /\ ~panic
  /\ (Locked => fpc = "idle")
  /\ hpc' = [hpc EXCEPT ![r] = "deleted"] /\ inmap' = inmap \ {r} /\ maprace' = (maprace \/ iterating)
  /\ H(r, "Delete", "Repl.deleted")
  /\ UNCHANGED <<failing, closed, got, queue, sent, fpc, fmsg, ftodo, fhold, panic, iterating, connectedAt>>
Close(r) ==     \* close(streamChannel) ... the handler returns
  /\ hpc[r] = "deleted" /\ ~panic
  /\ (Locked => fpc = "idle")
  /\ hpc' = [hpc EXCEPT ![r] = "ended"] /\ closed' = closed \cup {r}
  /\ H(r, "Close", "Repl.closed")
  /\ UNCHANGED <<failing, inmap, got, queue, sent, fpc, fmsg, ftodo, fhold, panic, iterating, maprace, connectedAt>>

\* ---- the WAL writer commits a TG ----
Commit ==
  /\ sent < NMsg /\ ~panic /\ sent' = sent + 1 /\ queue' = Append(queue, sent + 1)
  /\ H("src", "Commit", "done")
  /\ UNCHANGED <<hpc, failing, inmap, closed, got, fpc, fmsg, ftodo, fhold, panic, iterating, maprace, connectedAt>>

\* ---- fan-out goroutine ----
FanNext ==      \* take a TG, start ranging over the map; picks the first replica ... parks at Repl.fanout.beforeSend
  /\ fpc = "idle" /\ queue # <<>> /\ ~panic
  /\ fmsg' = Head(queue) /\ queue' = Tail(queue)
  /\ IF inmap = {} THEN /\ fpc' = "idle" /\ ftodo' = {} /\ fhold' = "" /\ iterating' = FALSE /\ H("fan", "FanNext", "blocked")
     ELSE \E r \in inmap : /\ fhold' = r /\ ftodo' = inmap \ {r} /\ fpc' = "holding" /\ iterating' = TRUE
                           /\ H("fan", "FanPick", r)
  /\ UNCHANGED <<hpc, failing, inmap, closed, got, sent, panic, maprace, connectedAt>>
FanSend ==      \* channel <- tg for the held channel; the handler delivers (or notices the dead stream); next replica
  /\ fpc = "holding" /\ ~panic
  /\ IF fhold \in closed
     THEN /\ panic' = TRUE /\ H("fan", "FanSend", "PANIC") /\ UNCHANGED <<hpc, got, fpc, ftodo, fhold, iterating>>
     ELSE /\ panic' = FALSE
          /\ IF hpc[fhold] = "serving" /\ fhold \notin failing
             THEN got' = [got EXCEPT ![fhold] = Append(@, fmsg)] /\ hpc' = hpc
             ELSE IF hpc[fhold] = "serving" /\ fhold \in failing
                  THEN got' = got /\ hpc' = [hpc EXCEPT ![fhold] = "beforeDelete"]
                  ELSE got' = got /\ hpc' = hpc      \* nobody reads the channel any more: the message stays buffered
          /\ LET rest == ftodo \cap inmap      \* entries deleted meanwhile are not visited
                 outc == IF hpc[fhold] = "serving" /\ fhold \notin failing THEN "deliver"
                         ELSE IF hpc[fhold] = "serving" THEN "fail" ELSE "buffer" IN
             IF rest = {} THEN /\ fpc' = "idle" /\ fhold' = "" /\ ftodo' = {} /\ iterating' = FALSE /\ HF("FanSend", "lastsent", fhold, outc)
             ELSE \E r \in rest : /\ fhold' = r /\ ftodo' = rest \ {r} /\ fpc' = "holding" /\ iterating' = TRUE /\ HF("FanSendPick", r, fhold, outc)
  /\ UNCHANGED <<failing, inmap, closed, queue, sent, fmsg, maprace, connectedAt>>

Next == \/ \E r \in Replicas : Connect(r) \/ Fail(r) \/ Delete(r) \/ Close(r)
        \/ Commit \/ FanNext \/ FanSend
Spec == Init /\ [][Next]_vars
View == <<hpc, failing, inmap, closed, got, queue, sent, fpc, fmsg, ftodo, fhold, panic, iterating, maprace, connectedAt>>

\* C26
NoSendOnClosed == ~panic
NoMapRace == ~maprace
\* a replica that stays connected receives every TG committed during its connection, in commit order
InOrder(s) == \A i \in 1..(Len(s) - 1) : s[i] < s[i + 1]
ReceivedInCommitOrder == \A r \in Replicas : InOrder(got[r])
Quiet == fpc = "idle" /\ queue = <<>> /\ ~panic
ConnectedGetAll == Quiet => \A r \in Replicas : (hpc[r] = "serving" /\ r \notin failing) =>
                      \A m \in (connectedAt[r] + 1)..sent : \E i \in 1..Len(got[r]) : got[r][i] = m
PrefixStable == [][\A r \in Replicas : IsPrefix(got[r], got'[r])]_vars

Emit == (sent = NMsg /\ Quiet) => PrintT(<<"BEH", ToJson([steps |-> hist, got |-> got, panic |-> panic])>>)
EmitPanic == panic => PrintT(<<"BAD", ToJson([steps |-> hist, got |-> got, panic |-> panic])>>)
=============================================================================
