------------------------------- MODULE Schema -------------------------------
(***************************************************************************)
(* Bucket schemas of marketstore (C14, C15).                               *)
(*                                                                         *)
(* Mode = "pairs"  (C14): a write request is a map bucket -> input columns.*)
(*   Abstract part : the request is rejected iff some bucket's input       *)
(*                   column NAMES differ (as a set) from the bucket's, and *)
(*                   then no bucket of the request changes; otherwise every*)
(*                   bucket stores, under each of its column names, the    *)
(*                   input value of that name converted to the bucket type.*)
(*   Implementation: Writer.WriteCSM walks the map in (random) iteration   *)
(*   shaped part     order; per bucket: create it from the input shapes if *)
(*                   absent, length check, GetMissingAndTypeCoercionColumns*)
(*                   (set algebra over (name,type) shapes), coercion,      *)
(*                   ToRowSeries (serialises in INPUT column order), queue *)
(*                   the write commands; the flush happens only after the  *)
(*                   last bucket; an error returns immediately.            *)
(*                                                                         *)
(* Mode = "header" (C15): a bucket is created, written and reloaded.       *)
(*   Abstract part : the schema reported after a reload is the schema the  *)
(*                   bucket was created with, or creation was rejected.    *)
(*   Implementation: the 37024-byte year-file header of utils/io/metadata  *)
(*   shaped part     as byte regions (fixed part, 1024 x 32-byte names,    *)
(*                   1024 type bytes, reserved tail); Header.Load copies   *)
(*                   names into [32]byte; a record with slot index i is    *)
(*                   written at (i-1)*recordLength + Headersize.           *)
(*                                                                         *)
(* Known differences between the code and the property are named           *)
(* deviations (constant Deviations).  The module runs the pure and the     *)
(* deviating implementation side by side, so one TLC run yields, for every *)
(* case, the property's answer and the answer the unchanged tree gives.    *)
(***************************************************************************)
EXTENDS Integers, Sequences, FiniteSets, TLC, Json

CONSTANTS Mode,         \* "pairs" | "header"
          Deviations,   \* pairs : subset of {"RejectedLeavesQueued", "ReorderedByPosition"}
                        \* header: subset of {"NameTruncated32", "TooManyColumnsPanic", "DailyJan1Hole"}
          \* ---- pairs
          Names,        \* column names, e.g. {"a","b","c"}
          MaxCols,      \* columns per schema (without Epoch)
          NTypes,       \* abstract type ids 1..NTypes (equal id = equal wire type)
          MaxBuckets,   \* buckets per request (1 or 2)
          \* ---- header
          Counts,       \* column counts
          Lens,         \* byte lengths of the designated (long) column name
          TypePats,     \* 1..11 = every column has that wire type, 12 = rotate over the numeric types
          RecTypes,     \* subset of {"F","V"}
          Tfs,          \* subset of {"1D","1Min"}
          WritePats     \* subset of {"none","mid","first"}

VARIABLES case,   \* the enumerated case (request / creation)
          pc,     \* control state
          s       \* model state (pure and deviating side by side)

vars == <<case, pc, s>>

Max(a, b) == IF a > b THEN a ELSE b
Min(a, b) == IF a < b THEN a ELSE b

(***************************************************************************)
(*                       C14 :  schema pairs                               *)
(***************************************************************************)
Shape == [n : Names, t : 1..NTypes]
Distinct(sq) == \A i, j \in DOMAIN sq : i # j => sq[i].n # sq[j].n
SchemaSet == UNION {{sq \in [1..k -> Shape] : Distinct(sq)} : k \in 1..MaxCols}
\* symmetry of the type ids: the first column of a schema pair fixes id 1
Canon(sq) == sq[1].t = 1

Epoch == [n |-> "Epoch", t |-> 0]
WithEpoch(sq) == <<Epoch>> \o sq

\* one bucket of a request: bs = the bucket's columns (<<>> : the bucket does not exist yet), is = input columns
BucketCase == {[bs |-> b, is |-> i] : b \in SchemaSet \cup {<<>>}, i \in SchemaSet}
CanonBC(bc) == IF bc.bs = <<>> THEN Canon(bc.is) ELSE Canon(bc.bs)

ShapeSet(sq) == {sq[i] : i \in DOMAIN sq}
NameSet(sq)  == {sq[i].n : i \in DOMAIN sq}
ExtractByNames(dsv, names) == SelectSeq(dsv, LAMBDA x : x.n \in names)

\* utils/io/columnseries.go GetMissingAndTypeCoercionColumns(requiredDSV, availableDSV)
GMTC(req, avail) ==
  IF ShapeSet(req) \subseteq ShapeSet(avail) THEN [missing |-> <<>>, coercion |-> <<>>]
  ELSE LET missingDSV      == SelectSeq(req, LAMBDA x : x \notin ShapeSet(avail))   \* missing OR wrong type
           allMissingNames == NameSet(req) \ NameSet(avail)
       IN  IF Len(missingDSV) = Cardinality(allMissingNames)
           THEN [missing |-> ExtractByNames(req, allMissingNames), coercion |-> <<>>]
           ELSE [missing  |-> ExtractByNames(req, allMissingNames),
                 coercion |-> ExtractByNames(req, NameSet(missingDSV) \ allMissingNames)]

\* executor/writer.go WriteCSM, the schema check of one bucket (dbDSV = bucket shapes with Epoch, csDSV = input)
ImplVerdict(db, cs) ==
  IF Len(db) # Len(cs) THEN "mismatch"
  ELSE IF GMTC(db, cs).missing # <<>> THEN "mismatch" ELSE "ok"

\* the property: columns match "by name"
NamesMatch(db, cs) == NameSet(db) = NameSet(cs)
Retyped(db, cs) == {x.n : x \in {y \in ShapeSet(db) : \E z \in ShapeSet(cs) : z.n = y.n /\ z.t # y.t}}

\* shapes the bucket has when the loop reaches it (an absent bucket is created from the input shapes)
DbOf(bc) == WithEpoch(IF bc.bs = <<>> THEN bc.is ELSE bc.bs)
CsOf(bc) == WithEpoch(bc.is)
BcMatch(bc)   == NamesMatch(DbOf(bc), CsOf(bc))
BcVerdict(bc) == ImplVerdict(DbOf(bc), CsOf(bc))
\* ToRowSeries serialises the (coerced) input columns in input order; the bucket reads them in bucket order
Reordered(bc) == bc.bs # <<>> /\ BcMatch(bc) /\ [i \in DOMAIN bc.bs |-> bc.bs[i].n] # [i \in DOMAIN bc.is |-> bc.is[i].n]

Perms(n) == IF n = 1 THEN {<<1>>} ELSE {<<1, 2>>, <<2, 1>>}

PairCases == {[bk |-> b, order |-> o] :
                 b \in UNION {{q \in [1..k -> BucketCase] : \A i \in 1..k : CanonBC(q[i])} : k \in 1..MaxBuckets},
                 o \in Perms(MaxBuckets)}
PairCaseOK(c) == Len(c.order) = Len(c.bk)

\* how a bucket's row is laid out when it reaches the file
Layout(bc, devs) == IF Reordered(bc) /\ "ReorderedByPosition" \in devs THEN "by_position" ELSE "by_name"

PairInit ==
  /\ case \in {c \in PairCases : PairCaseOK(c)}
  /\ pc = "iter"
  /\ s = [pos |-> 1,
          queuedD |-> {}, createdD |-> {}, storedD |-> {}, resD |-> "running",   \* deviating implementation
          storedP |-> {}, createdP |-> {}, resP |-> "running",                   \* pure implementation
          obs1 |-> {}, hit |-> {}]                                              \* stored right after the request

NB == Len(case.bk)
AnyMismatch == \E b \in 1..NB : BcVerdict(case.bk[b]) = "mismatch"

\* pure implementation: validate every bucket, then create / queue / flush
PureOutcome == IF AnyMismatch THEN [res |-> "err", stored |-> {}, created |-> {}]
               ELSE [res |-> "ok", stored |-> 1..NB, created |-> {b \in 1..NB : case.bk[b].bs = <<>>}]

\* one iteration of `for tbk, cs := range csm` in the unchanged tree
Iter ==
  /\ pc = "iter"
  /\ LET b  == case.order[s.pos]
         bc == case.bk[b]
         cr == IF bc.bs = <<>> THEN s.createdD \cup {b} ELSE s.createdD
     IN IF "RejectedLeavesQueued" \notin Deviations
        THEN LET p == PureOutcome IN
             /\ s' = [s EXCEPT !.resD = p.res, !.storedD = p.stored, !.createdD = p.created,
                               !.resP = p.res, !.storedP = p.stored, !.createdP = p.created, !.obs1 = p.stored]
             /\ pc' = "later"
        ELSE IF BcVerdict(bc) = "mismatch"
        THEN /\ s' = [s EXCEPT !.resD = "err", !.createdD = cr, !.obs1 = s.storedD,
                               !.resP = PureOutcome.res, !.storedP = PureOutcome.stored, !.createdP = PureOutcome.created,
                               !.hit = IF s.queuedD # {} \/ cr # {} THEN {"RejectedLeavesQueued"} ELSE {}]
             /\ pc' = "later"                                           \* return err: no flush, queue survives
        ELSE IF s.pos = NB
        THEN /\ s' = [s EXCEPT !.resD = "ok", !.createdD = cr, !.queuedD = {},
                               !.storedD = s.storedD \cup s.queuedD \cup {b}, !.obs1 = s.storedD \cup s.queuedD \cup {b},
                               !.resP = PureOutcome.res, !.storedP = PureOutcome.stored, !.createdP = PureOutcome.created]
             /\ pc' = "later"                                           \* walFile.RequestFlush()
        ELSE /\ s' = [s EXCEPT !.pos = s.pos + 1, !.createdD = cr, !.queuedD = s.queuedD \cup {b}]
             /\ pc' = "iter"
  /\ UNCHANGED case

\* a later successful write request of another bucket: its flush carries everything still queued
Later ==
  /\ pc = "later"
  /\ s' = [s EXCEPT !.storedD = s.storedD \cup s.queuedD, !.queuedD = {}]
  /\ pc' = "done"
  /\ UNCHANGED case

PairNext == Iter \/ Later

ReorderHits == {b \in 1..NB : Reordered(case.bk[b]) /\ b \in s.storedD}

PairEmit == pc = "done" =>
  PrintT(<<"CASE", ToJson([bk |-> case.bk, order |-> case.order,
                            expect |-> [res |-> s.resP, stored |-> s.storedP, created |-> s.createdP],
                            known  |-> [res |-> s.resD, stored_now |-> s.obs1, stored_later |-> s.storedD, created |-> s.createdD,
                                        layout |-> [b \in 1..NB |-> Layout(case.bk[b], Deviations)]],
                            retyped |-> [b \in 1..NB |-> Retyped(DbOf(case.bk[b]), CsOf(case.bk[b]))],
                            hit |-> s.hit \cup (IF ReorderHits # {} /\ "ReorderedByPosition" \in Deviations
                                               THEN {"ReorderedByPosition"} ELSE {})])>>)

\* ---- properties of the pairs model (E1)
\* the set algebra of the real check decides exactly "names match", for every schema pair
SetAlgebraDecidesNames == \A b \in 1..NB : (BcVerdict(case.bk[b]) = "ok") <=> BcMatch(case.bk[b])
\* and its coercion list is exactly the set of columns present under the same name with another type
CoercionListExact == \A b \in 1..NB : BcVerdict(case.bk[b]) = "ok" =>
                        NameSet(GMTC(DbOf(case.bk[b]), CsOf(case.bk[b])).coercion) = Retyped(DbOf(case.bk[b]), CsOf(case.bk[b]))
\* C14 on the pure implementation
PureIsProperty == pc = "done" =>
   /\ (s.resP = "err") <=> (\E b \in 1..NB : ~BcMatch(case.bk[b]))
   /\ s.resP = "err" => s.storedP = {} /\ s.createdP = {}
   /\ s.resP = "ok"  => s.storedP = 1..NB
\* the unchanged tree differs only where a listed deviation fired
PairDeviationsExplainAll == pc = "done" =>
   ((s.hit = {}) => (s.resD = s.resP /\ s.storedD = s.storedP /\ s.createdD = s.createdP /\ s.obs1 = s.storedP))

(***************************************************************************)
(*                       C15 :  header regions                             *)
(***************************************************************************)
\* utils/io/metadata.go
FixedPart   == 312          \* version 8, description 256, year 8, timeframe 8, record type 8, nElements 8, recLen 8, reserved 8
NameBytes   == 32
MaxElements == 1024
NamesAt     == FixedPart
TypesAt     == NamesAt + MaxElements * NameBytes       \* 33080
ReservedAt  == TypesAt + MaxElements                   \* 34104
Headersize  == 37024
ASSUME ReservedAt + 365 * 8 = Headersize

\* wire types in the order i1 i2 i4 i8 u1 u2 u4 u8 f4 f8 U16 (pattern ids 1..11)
SizeOf == <<1, 2, 4, 8, 1, 2, 4, 8, 4, 8, 64>>
Sum10  == 1 + 2 + 4 + 8 + 1 + 2 + 4 + 8 + 4 + 8
RECURSIVE Partial(_)
Partial(k) == IF k = 0 THEN 0 ELSE SizeOf[k] + Partial(k - 1)
\* the type of column i (1-based) under a pattern
TypeAt(pat, i) == IF pat <= 11 THEN pat ELSE ((i - 1) % 10) + 1
SumSizes(pat, n) == IF pat <= 11 THEN n * SizeOf[pat] ELSE (n \div 10) * Sum10 + Partial(n % 10)
Align8(x) == IF x % 8 = 0 THEN x ELSE x + 8 - (x % 8)
RecLen(c) == IF c.rt = "F" THEN Align8(SumSizes(c.ty, c.n)) + 8 ELSE 24

HeaderCases == {[n |-> n, len |-> l, lpos |-> p, ty |-> t, rt |-> r, tf |-> f, wr |-> w] :
                  n \in Counts, l \in Lens, p \in {"first", "last"}, t \in TypePats, r \in RecTypes, f \in Tfs, w \in WritePats}
\* U16 values cannot be written by the driver; one long name position is enough for single-column schemas;
\* rows wider than the header are kept out (the offset of slot 0 would be negative)
HeaderCaseOK(c) == /\ (c.ty = 11 => c.wr = "none" /\ c.n <= 255)
                   /\ (c.n = 1 => c.lpos = "first")
                   /\ (c.n > 255 => c.tf = "1D")
                   /\ (c.n > MaxElements => c.wr = "none")        \* no writes into a bucket whose creation failed
                   /\ RecLen(c) < Headersize

LongCol(c) == IF c.lpos = "first" THEN 1 ELSE c.n

\* slot index of the written interval (utils/io/timeindex.go TimeToIndex): 1 + intervals since Jan 1;
\* the 1D case uses YearDay-1, i.e. 0 for the first interval of the year
SlotOf(c, devs) == IF c.wr = "mid" THEN 40
                   ELSE IF c.tf = "1D" /\ "DailyJan1Hole" \in devs THEN 0 ELSE 1
OffsetOf(c, devs) == (SlotOf(c, devs) - 1) * RecLen(c) + Headersize        \* IndexToOffset

\* element indices (1-based) whose header bytes intersect [lo, hi)
HitTypes(c, lo, hi) == [lo |-> Max(1, lo - TypesAt + 1), hi |-> Min(c.n, hi - TypesAt)]
HitNames(c, lo, hi) == [lo |-> Max(1, ((Max(lo, NamesAt) - NamesAt) \div NameBytes) + 1),
                        hi |-> Min(c.n, ((Min(hi, TypesAt) - 1 - NamesAt) \div NameBytes) + 1)]
Norm(r) == IF r.lo > r.hi THEN [lo |-> 0, hi |-> 0] ELSE r
None == [lo |-> 0, hi |-> 0]

Faithful(c) == c.len <= NameBytes /\ c.n <= MaxElements

HeaderInit ==
  /\ case \in {c \in HeaderCases : HeaderCaseOK(c)}
  /\ pc = "create"
  /\ s = [createdP |-> "?", createdD |-> "?", storedLenD |-> 0, storedLenP |-> 0,
          badTypesD |-> None, badNamesD |-> None, badFixedD |-> FALSE, lowestOffP |-> Headersize, hit |-> {}]

\* frontend Create -> catalog.AddTimeBucket -> newTimeBucketInfoFromTemplate -> WriteHeader / Header.Load
Create ==
  /\ pc = "create"
  /\ LET panics == case.n > MaxElements /\ "TooManyColumnsPanic" \in Deviations   \* hp.ElementNames[1024]: index out of range,
         trunc  == case.len > NameBytes /\ "NameTruncated32" \in Deviations        \* after the file was created empty
     IN s' = [s EXCEPT !.createdP = IF Faithful(case) THEN "ok" ELSE "rejected",
                       !.storedLenP = case.len,
                       !.createdD = IF panics THEN "panic_empty_file"
                                    ELSE IF case.n > MaxElements \/ (case.len > NameBytes /\ ~trunc) THEN "rejected" ELSE "ok",
                       !.storedLenD = Min(case.len, NameBytes),              \* copy(hp.ElementNames[i][:], name)
                       !.hit = (IF panics THEN {"TooManyColumnsPanic"} ELSE {})
                               \cup (IF trunc /\ ~panics THEN {"NameTruncated32"} ELSE {})]
  /\ pc' = "write"
  /\ UNCHANGED case

\* one record written through the WAL to offset IndexToOffset(slot)
WriteRec ==
  /\ pc = "write"
  /\ IF case.wr = "none" \/ s.createdD # "ok"
     THEN s' = s
     ELSE LET lo == OffsetOf(case, Deviations)
              hi == lo + RecLen(case)
          IN  s' = [s EXCEPT !.lowestOffP = OffsetOf(case, {}),
                             !.badTypesD = Norm(HitTypes(case, lo, hi)),
                             !.badNamesD = Norm(HitNames(case, lo, hi)),
                             !.badFixedD = lo < FixedPart,
                             !.hit = s.hit \cup (IF lo < Headersize THEN {"DailyJan1Hole"} ELSE {})]
  /\ pc' = "done"
  /\ UNCHANGED case

HeaderNext == Create \/ WriteRec

HeaderEmit == pc = "done" =>
  PrintT(<<"HDR", ToJson([c |-> case, reclen |-> RecLen(case),
                           expect |-> s.createdP,                         \* "ok": reported = created; "rejected"
                           known |-> [created |-> s.createdD, stored_len |-> s.storedLenD,
                                      bad_types |-> s.badTypesD, bad_names |-> s.badNamesD, bad_fixed |-> s.badFixedD],
                           hit |-> s.hit])>>)

\* ---- properties of the header model (E1)
\* pure implementation: whatever is accepted round-trips, records never reach the header
PureHeaderFaithful == pc = "done" => /\ (s.createdP = "ok" => s.storedLenP = case.len /\ case.n <= MaxElements)
                                     /\ s.lowestOffP >= Headersize
\* names and types of all accepted columns fit their regions
RegionsFit == s.createdD = "ok" => NamesAt + case.n * NameBytes <= TypesAt /\ TypesAt + case.n <= ReservedAt
\* the unchanged tree reports another schema only where a listed deviation fired
HeaderDeviationsExplainAll == pc = "done" =>
   ((s.hit = {}) => /\ s.createdD = s.createdP
                    /\ (s.createdD = "ok" => s.storedLenD = case.len)
                    /\ s.badTypesD = None /\ s.badNamesD = None /\ ~s.badFixedD)
\* only slot 0 of a fixed daily bucket reaches into the header
HoleOnlyDaily == pc = "done" /\ "DailyJan1Hole" \in s.hit => case.tf = "1D" /\ case.wr = "first"

(***************************************************************************)
Init == IF Mode = "pairs" THEN PairInit ELSE HeaderInit
Next == IF Mode = "pairs" THEN PairNext ELSE HeaderNext
Spec == Init /\ [][Next]_vars
Emit == IF Mode = "pairs" THEN PairEmit ELSE HeaderEmit
=============================================================================
