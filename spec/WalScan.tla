------------------------------ MODULE WalScan ------------------------------
(***************************************************************************)
(* First pass of WAL replay (executor/walreplay.go: Replay, readMessageID, *)
(* readTGData, readTransactionInfo, fullRead) over a damaged WAL file (C06)*)
(*                                                                         *)
(* The file is a sequence of cells (the fields the writer emitted):        *)
(*   ST   status header (message id + 10 bytes)                            *)
(*   TI   transaction info (message id + tgid, destination, status)        *)
(*   MID  message id TGDATA, LEN, BODY, CK  - the four cells of one TG     *)
(*   JUNK inserted garbage                                                 *)
(* One damage operator is applied to a valid base file:                    *)
(*   truncate after cell c (or in the middle of cell c), flip inside cell c*)
(*   insert junk before cell c, duplicate a whole message, swap two        *)
(*   adjacent messages.                                                    *)
(*                                                                         *)
(* The scanner reads message by message.  What stops it: end of file or a  *)
(* short read.  What it merely skips: an unknown message id, an insane TG  *)
(* length, a checksum mismatch, a bad enum in a TI.  After such an error it*)
(* continues AT THE CURRENT CURSOR, which may be inside a cell: from then  *)
(* on it reads garbage until it happens to land on a cell boundary again   *)
(* (state "desync", resolved nondeterministically: any later boundary, or  *)
(* the end of file).  Garbage never passes the MD5 check, so nothing read  *)
(* while desynchronised is applied.                                        *)
(***************************************************************************)
EXTENDS Integers, Sequences, FiniteSets, TLC, Json, SequencesExt

CONSTANTS NTG,          \* transactions in the base file, ids 1..NTG
          Ckpt,         \* subset of 1..NTG: TGs directly followed by a completed checkpoint record
          Partial,      \* TRUE: the base file ends with an incomplete TG (the crash hit the writer)
          Deviations    \* {"DupAbortsReplay"}: a second copy of a TG makes the code give up the whole file

\* ---- the valid base file ----
TGCells(i) == << [k |-> "TI", tg |-> i, d |-> "WAL", st |-> "PREP"],
                 [k |-> "MID", tg |-> i], [k |-> "LEN", tg |-> i], [k |-> "BODY", tg |-> i], [k |-> "CK", tg |-> i],
                 [k |-> "TI", tg |-> i, d |-> "WAL", st |-> "DONE"] >>
             \o (IF i \in Ckpt THEN << [k |-> "TI", tg |-> i, d |-> "CKPT", st |-> "PREP"],
                                       [k |-> "TI", tg |-> i, d |-> "CKPT", st |-> "DONE"] >> ELSE <<>>)
RECURSIVE AllTGs(_)
AllTGs(i) == IF i > NTG THEN <<>> ELSE TGCells(i) \o AllTGs(i + 1)
Tail3 == << [k |-> "TI", tg |-> NTG + 1, d |-> "WAL", st |-> "PREP"], [k |-> "MID", tg |-> NTG + 1], [k |-> "LEN", tg |-> NTG + 1] >>
Base == << [k |-> "ST"] >> \o AllTGs(1) \o (IF Partial THEN Tail3 ELSE <<>>)

\* ---- damage ----
CompleteMsg(c) == c + 3 <= Len(Base) /\ Base[c].k = "MID" /\ Base[c + 3].k = "CK"
Damages ==
       {[op |-> "none"]}
  \cup {[op |-> "truncate", at |-> c, mid |-> m] : c \in 1..Len(Base), m \in BOOLEAN}   \* keep cells 1..c-1 (+ half of c if mid)
  \cup {[op |-> "flip", at |-> c] : c \in 1..Len(Base)}
  \cup {[op |-> "insert", at |-> c] : c \in 2..(Len(Base) + 1)}
  \cup {[op |-> "dup", at |-> c] : c \in {c \in 2..(Len(Base) - 3) : CompleteMsg(c)}}     \* duplicate the TG data message starting at c
  \cup {[op |-> "swap", at |-> c] : c \in {c \in 2..(Len(Base) - 7) : CompleteMsg(c) /\ \E e \in (c+4)..(Len(Base) - 3) : CompleteMsg(e)}}

VARIABLES file,      \* Seq of cells, each with field bad (TRUE: damaged / cut)
          dmg,       \* the damage applied
          pos,       \* index of the cell the cursor is at (aligned), or
          desync,    \* TRUE: the cursor is inside a cell / reading garbage
          stopped,   \* the scan has ended
          tgData,    \* set of TG ids whose data is registered for replay
          aborted,   \* "Duplicate TG Data": replay of this file is given up
          steps      \* scan iterations (termination: bounded by the file length)

vars == <<file, dmg, pos, desync, stopped, tgData, aborted, steps>>

Mark(c, b) == [c EXCEPT !.bad = b]
Clean(sq) == [i \in 1..Len(sq) |-> [k |-> sq[i].k, tg |-> (IF "tg" \in DOMAIN sq[i] THEN sq[i].tg ELSE 0),
                                    d |-> (IF "d" \in DOMAIN sq[i] THEN sq[i].d ELSE ""), st |-> (IF "st" \in DOMAIN sq[i] THEN sq[i].st ELSE ""),
                                    bad |-> FALSE, cut |-> FALSE]]
B == Clean(Base)
Junk == [k |-> "JUNK", tg |-> 0, d |-> "", st |-> "", bad |-> TRUE, cut |-> FALSE]

Apply(d) ==
  CASE d.op = "none" -> B
    [] d.op = "truncate" -> IF d.mid THEN SubSeq(B, 1, d.at - 1) \o <<[B[d.at] EXCEPT !.bad = TRUE, !.cut = TRUE]>>
                            ELSE SubSeq(B, 1, d.at - 1)
    [] d.op = "flip" -> [B EXCEPT ![d.at].bad = TRUE]
    [] d.op = "insert" -> SubSeq(B, 1, d.at - 1) \o <<Junk>> \o SubSeq(B, d.at, Len(B))
    [] d.op = "dup" -> SubSeq(B, 1, d.at + 3) \o SubSeq(B, d.at, d.at + 3) \o SubSeq(B, d.at + 4, Len(B))
    [] d.op = "swap" -> LET e == CHOOSE e \in (d.at + 4)..(Len(B) - 3) : CompleteMsg(e) /\ \A x \in (d.at + 4)..(e - 1) : ~CompleteMsg(x)
                        IN SubSeq(B, 1, d.at - 1) \o SubSeq(B, e, e + 3) \o SubSeq(B, d.at + 4, e - 1) \o SubSeq(B, d.at, d.at + 3)
                           \o SubSeq(B, e + 4, Len(B))

Init == /\ dmg \in Damages /\ file = Apply(dmg)
        /\ pos = 1 /\ desync = FALSE /\ stopped = FALSE /\ tgData = {} /\ aborted = FALSE /\ steps = 0

AtEnd == pos > Len(file)
Cell == file[pos]

Stop == /\ stopped' = TRUE /\ UNCHANGED <<file, dmg, pos, desync, tgData, aborted>> /\ steps' = steps + 1

\* one iteration of the read loop when the cursor is on a cell boundary
ScanAligned ==
  /\ ~stopped /\ ~desync /\ ~aborted
  /\ steps' = steps + 1
  /\ IF AtEnd THEN /\ stopped' = TRUE /\ UNCHANGED <<file, dmg, pos, desync, tgData, aborted>>       \* EOF
     ELSE IF Cell.cut THEN /\ stopped' = TRUE /\ UNCHANGED <<file, dmg, pos, desync, tgData, aborted>>   \* short read
     ELSE CASE Cell.k = "ST" ->
                 \* message id STATUS + 10 bytes; damaged content is not interpreted during the scan
                 /\ pos' = pos + 1 /\ UNCHANGED <<file, dmg, desync, stopped, tgData, aborted>>
            [] Cell.k = "TI" ->
                 IF Cell.bad
                 THEN \* a flipped message id, tgid, destination or status: unknown id / bad enum / other tgid:
                      \* skipped, or read as something else of another width -> lose alignment
                      /\ \/ (pos' = pos + 1 /\ desync' = FALSE)
                         \/ (pos' = pos /\ desync' = TRUE)
                      /\ UNCHANGED <<file, dmg, stopped, tgData, aborted>>
                 ELSE /\ pos' = pos + 1
                      /\ tgData' = IF Cell.d = "CKPT" /\ Cell.st = "DONE" /\ Cell.tg \in tgData
                                   THEN {t \in tgData : t > Cell.tg} ELSE tgData
                      /\ UNCHANGED <<file, dmg, desync, stopped, aborted>>
            [] Cell.k = "MID" ->
                 \* TG data: needs LEN, BODY, CK of the same TG, all intact, right behind
                 IF Cell.bad THEN /\ pos' = pos /\ desync' = TRUE /\ UNCHANGED <<file, dmg, stopped, tgData, aborted>>
                 ELSE IF pos + 1 > Len(file) THEN Stop
                 ELSE IF file[pos + 1].k # "LEN" \/ file[pos + 1].bad \/ file[pos + 1].cut
                      THEN \* garbage length: insane -> error, continue at the cursor; or plausible -> reads that many
                           \* bytes as body (-> checksum mismatch or short read)
                           /\ \/ (pos' = pos + 1 /\ desync' = TRUE /\ stopped' = FALSE)
                              \/ (stopped' = TRUE /\ pos' = pos /\ desync' = desync)
                           /\ UNCHANGED <<file, dmg, tgData, aborted>>
                 ELSE IF pos + 3 > Len(file) \/ file[pos + 2].cut \/ file[pos + 3].cut
                      THEN /\ stopped' = TRUE /\ UNCHANGED <<file, dmg, pos, desync, tgData, aborted>>   \* short read of body / checksum
                 ELSE IF file[pos + 2].k # "BODY" \/ file[pos + 3].k # "CK" \/ file[pos + 2].tg # file[pos + 1].tg
                         \/ file[pos + 3].tg # file[pos + 1].tg \/ file[pos + 2].bad \/ file[pos + 3].bad
                      THEN \* checksum mismatch: the record is skipped (cursor after the checksum)
                           /\ pos' = pos + 4 /\ UNCHANGED <<file, dmg, desync, stopped, tgData, aborted>>
                 ELSE IF file[pos + 1].tg \in tgData
                      THEN IF "DupAbortsReplay" \in Deviations
                           THEN /\ aborted' = TRUE /\ tgData' = {}      \* Duplicate TG Data: ReplayError, nothing is applied
                                /\ UNCHANGED <<file, dmg, pos, desync, stopped>>
                           ELSE /\ pos' = pos + 4 /\ UNCHANGED <<file, dmg, desync, stopped, tgData, aborted>> \* (pure: skip the copy)
                      ELSE /\ tgData' = tgData \cup {file[pos + 1].tg} /\ pos' = pos + 4
                           /\ UNCHANGED <<file, dmg, desync, stopped, aborted>>
            [] OTHER ->  \* LEN / BODY / CK / JUNK met as if it were a message: garbage
                 /\ pos' = pos /\ desync' = TRUE /\ UNCHANGED <<file, dmg, stopped, tgData, aborted>>

\* reading garbage: the scanner consumes bytes (at least one per iteration) until it is aligned again or the file ends
ScanDesync ==
  /\ ~stopped /\ desync /\ ~aborted
  /\ steps' = steps + 1
  /\ \/ (stopped' = TRUE /\ UNCHANGED <<pos, desync>>)
     \/ \E p \in (pos + 1)..(Len(file) + 1) : pos' = p /\ desync' = FALSE /\ stopped' = FALSE
  /\ UNCHANGED <<file, dmg, tgData, aborted>>

Next == ScanAligned \/ ScanDesync
Spec == Init /\ [][Next]_vars

\* ---- what the property demands, in terms of the base file and the damage ----
\* a TG is damaged when one of its four data cells is hit / cut / displaced
CellsOf(t) == {i \in 1..Len(file) : file[i].k \in {"MID", "LEN", "BODY", "CK"} /\ file[i].tg = t}
Intact(t) == \E i \in 1..(Len(file) - 3) :
               /\ file[i].k = "MID" /\ file[i+1].k = "LEN" /\ file[i+2].k = "BODY" /\ file[i+3].k = "CK"
               /\ \A j \in i..(i+3) : file[j].tg = t /\ ~file[j].bad /\ ~file[j].cut
FirstBad == IF \E i \in 1..Len(file) : file[i].bad THEN CHOOSE i \in 1..Len(file) : file[i].bad /\ \A j \in 1..(i-1) : ~file[j].bad
            ELSE (IF dmg.op = "truncate" THEN Len(file) + 1
                  ELSE IF dmg.op \in {"dup", "swap"} THEN dmg.at ELSE Len(file) + 1)
Precedes(t) == \A i \in CellsOf(t) : i < FirstBad
Checkpointed(t) == \E j \in 1..Len(file) : /\ file[j].k = "TI" /\ file[j].d = "CKPT" /\ file[j].st = "DONE" /\ ~file[j].bad /\ ~file[j].cut
                                             /\ file[j].tg >= t      \* (an intact checkpoint record anywhere: the TG is durable)
                                             /\ \E i \in CellsOf(file[j].tg) : i < j
Committed(t) == t \in 1..NTG
MustApply == {t \in 1..NTG : Intact(t) /\ Precedes(t) /\ ~Checkpointed(t)}
MustNot   == {t \in 1..(NTG + 1) : ~Intact(t)}

Done == stopped \/ aborted
\* C06 in the model: the scan terminates (bounded steps), registers no damaged TG, and every intact committed TG that
\* precedes the damage is registered for replay when the scan ends
Terminates == steps <= 2 * Len(file) + 2
NoDamagedApplied == tgData \cap MustNot = {}
PrecedingApplied == Done => MustApply \subseteq tgData
\* a duplicated TG aborts the replay of the file by design (ReplayError, file moved aside): only then may earlier TGs be lost
AbortOnlyOnDup == aborted => (dmg.op = "dup" /\ "DupAbortsReplay" \in Deviations)

Emit == (pos = 1 /\ steps = 0) =>
          PrintT(<<"CASE", ToJson([dmg |-> dmg, ntg |-> NTG, ckpt |-> Ckpt, partial |-> Partial,
                                   cells |-> [i \in 1..Len(Base) |-> Base[i].k], must |-> MustApply, mustnot |-> MustNot])>>)
=============================================================================
