------------------------------ MODULE WalCore ------------------------------
(***************************************************************************)
(* Message-grain abstraction of Wal.tla over integers and finite sets, with*)
(* type annotations, so that Apalache can discharge an INDUCTIVE invariant:*)
(* whatever the number of flushes, checkpoints, truncations, crashes (kill *)
(* or power failure, also in the middle of a recovery) and recoveries,     *)
(* every committed - hence every acknowledged - transaction group is       *)
(* recoverable.  Wal.tla (one action per system call) is shown to REFINE   *)
(* this module by TLC (WalRefine.tla), and Wal.tla is what the real code is*)
(* replayed against and what its recorded system calls are validated with. *)
(*                                                                         *)
(*   Commit        WAL record of group `next` written and fsynced          *)
(*   Apply         primary files written (page cache), in commit order     *)
(*   Ack           the request returns: after the fsync and the primary    *)
(*                 write                                                   *)
(*   CkptPrepare   CHECKPOINT/PREPARING(last committed) - only when all    *)
(*                 committed groups are applied                            *)
(*   Syncfs        sync(): the page cache reaches the disk                 *)
(*   CkptDone      CHECKPOINT/COMMITCOMPLETE - only after the sync         *)
(*   Truncate      rotation: the WAL is emptied - only when the last       *)
(*                 checkpoint covers everything committed                  *)
(*   Crash         kill (page cache survives) or power failure (the cache  *)
(*                 and checkpoint records that were not synced are lost),  *)
(*                 from any mode                                           *)
(*   RecStart      start-up finds the WAL of the dead instance             *)
(*   RecApply      replay of the lowest group above the believed checkpoint*)
(*   RecCkptPrepare / Syncfs / CkptDone   the checkpoint after each        *)
(*                 replayed group                                          *)
(*   RecDone       the old WAL is deleted - only when every group in it is *)
(*                 covered by a complete checkpoint                        *)
(*                                                                         *)
(* Deviations (each breaks the invariant; Apalache / TLC show the trace):  *)
(*   "CkptWithoutSync"   COMMITCOMPLETE written before sync() returned     *)
(*   "PrepCountsAsDone"  recovery treats a PREPARING record as complete    *)
(*                       (the seeded change `C05`)                         *)
(*   "TruncateEarly"     truncation not guarded by the checkpoint          *)
(*   "DeleteBeforeDone"  the old WAL is deleted before the last replayed   *)
(*                       group's checkpoint is complete                    *)
(***************************************************************************)
EXTENDS Integers, FiniteSets

CONSTANTS
    \* @type: Int;
    MaxTg,
    \* @type: Set(Str);
    Deviations

VARIABLES
    \* @type: Int;
    next,
    \* @type: Set(Int);
    wal,
    \* @type: Set(Int);
    primCache,
    \* @type: Set(Int);
    primDisk,
    \* @type: Int;
    prepRec,
    \* @type: Int;
    ckptActive,
    \* @type: Bool;
    syncedSincePrep,
    \* @type: Int;
    ckptDone,
    \* @type: Set(Int);
    acked,
    \* @type: Str;
    mode

vars == <<next, wal, primCache, primDisk, prepRec, ckptActive, syncedSincePrep, ckptDone, acked, mode>>

\* Apalache wants constant integer ranges: group ids live in 1..Cap, MaxTg (<= Cap) is the bound of one run
Cap == 12
Tgs == {t \in 1..12 : t <= MaxTg}
Committed == {t \in Tgs : t < next}
UpTo(k) == {t \in Tgs : t <= k}

Init == /\ next = 1 /\ wal = {} /\ primCache = {} /\ primDisk = {} /\ prepRec = 0 /\ ckptActive = 0 /\ syncedSincePrep = FALSE
        /\ ckptDone = 0 /\ acked = {} /\ mode = "run"

Commit == /\ mode = "run" /\ next <= MaxTg
          /\ wal' = wal \union {next} /\ next' = next + 1
          /\ UNCHANGED <<primCache, primDisk, prepRec, ckptActive, syncedSincePrep, ckptDone, acked, mode>>
Apply == /\ mode = "run"
         /\ \E t \in Committed : /\ t \notin primCache /\ \A u \in Committed : u < t => u \in primCache
                                 /\ primCache' = primCache \union {t}
         /\ UNCHANGED <<next, wal, primDisk, prepRec, ckptActive, syncedSincePrep, ckptDone, acked, mode>>
Ack == /\ mode = "run"
       /\ \E t \in primCache : t \notin acked /\ acked' = acked \union {t}
       /\ UNCHANGED <<next, wal, primCache, primDisk, prepRec, ckptActive, syncedSincePrep, ckptDone, mode>>
CkptPrepare == /\ mode = "run" /\ ckptActive = 0 /\ next > 1 /\ primCache = Committed
               /\ ckptActive' = next - 1 /\ prepRec' = next - 1 /\ syncedSincePrep' = FALSE
               /\ UNCHANGED <<next, wal, primCache, primDisk, ckptDone, acked, mode>>
Syncfs == /\ mode \in {"run", "rec"} /\ primDisk' = primCache
          /\ syncedSincePrep' = (IF ckptActive > 0 THEN TRUE ELSE syncedSincePrep)
          /\ UNCHANGED <<next, wal, primCache, prepRec, ckptActive, ckptDone, acked, mode>>
CkptDone == /\ mode \in {"run", "rec"} /\ ckptActive > 0 /\ (syncedSincePrep \/ "CkptWithoutSync" \in Deviations)
            /\ ckptDone' = ckptActive /\ ckptActive' = 0 /\ syncedSincePrep' = FALSE
            /\ UNCHANGED <<next, wal, primCache, primDisk, prepRec, acked, mode>>
Truncate == /\ mode = "run" /\ ckptActive = 0 /\ (ckptDone = next - 1 \/ "TruncateEarly" \in Deviations)
            /\ wal' = {}
            /\ UNCHANGED <<next, primCache, primDisk, prepRec, ckptActive, syncedSincePrep, ckptDone, acked, mode>>
\* kill: the page cache survives.  Power failure: the cache is lost, and so may be checkpoint records written after the
\* last sync (a lower checkpoint only makes the recovery replay more).  The checkpoint in progress dies with the process.
Crash == /\ mode' = "down" /\ ckptActive' = 0 /\ syncedSincePrep' = FALSE
         /\ \/ UNCHANGED <<primCache, ckptDone, prepRec>>
            \/ /\ primCache' = primDisk
               /\ \E c \in 0..12 : c <= ckptDone /\ ckptDone' = c
               /\ \E p \in 0..12 : p <= prepRec /\ prepRec' = p
         /\ UNCHANGED <<next, wal, primDisk, acked>>

\* the checkpoint the recovery believes: the last complete one, or (deviation) also a PREPARING record
Believed == IF "PrepCountsAsDone" \in Deviations /\ prepRec > ckptDone THEN prepRec ELSE ckptDone
RecStart == /\ mode = "down" /\ mode' = "rec"
            /\ UNCHANGED <<next, wal, primCache, primDisk, prepRec, ckptActive, syncedSincePrep, ckptDone, acked>>
RecApply == /\ mode = "rec" /\ ckptActive = 0
            /\ \E t \in wal : /\ t > Believed /\ \A u \in wal : (u > Believed /\ u < t) => u \in primCache
                              /\ primCache' = primCache \union {t}
            /\ UNCHANGED <<next, wal, primDisk, prepRec, ckptActive, syncedSincePrep, ckptDone, acked, mode>>
RecCkptPrepare == /\ mode = "rec" /\ ckptActive = 0
                  /\ \E t \in wal : /\ t > Believed /\ t \in primCache /\ \A u \in wal : (u > Believed /\ u < t) => u \in primCache
                                    /\ ckptActive' = t /\ prepRec' = t /\ syncedSincePrep' = FALSE
                  /\ UNCHANGED <<next, wal, primCache, primDisk, ckptDone, acked, mode>>
RecDone == /\ mode = "rec"
           /\ \/ ckptActive = 0 /\ \A t \in wal : t <= Believed
              \/ "DeleteBeforeDone" \in Deviations /\ \A t \in wal : t <= Believed \/ t \in primCache
           /\ wal' = {} /\ ckptDone' = next - 1 /\ ckptActive' = 0 /\ syncedSincePrep' = FALSE /\ mode' = "run"
           /\ UNCHANGED <<next, primCache, primDisk, prepRec, acked>>

Next == Commit \/ Apply \/ Ack \/ CkptPrepare \/ Syncfs \/ CkptDone \/ Truncate \/ Crash
        \/ RecStart \/ RecApply \/ RecCkptPrepare \/ RecDone
Spec == Init /\ [][Next]_vars

\* ---- the property: an acknowledged group is visible while the server runs, and recoverable at every moment ----
Recoverable(t) == t \in primDisk \/ (t \in wal /\ t > ckptDone)
AckedRecoverable == \A t \in acked : Recoverable(t)
AckedVisible == mode = "run" => acked \subseteq primCache

\* ---- inductive invariant ----
TypeOK == /\ next \in 1..13 /\ next <= MaxTg + 1
          /\ wal \in SUBSET (1..12) /\ primCache \in SUBSET (1..12) /\ primDisk \in SUBSET (1..12) /\ acked \in SUBSET (1..12)
          /\ wal \subseteq Tgs /\ primCache \subseteq Tgs /\ primDisk \subseteq Tgs /\ acked \subseteq Tgs
          /\ prepRec \in 0..12 /\ prepRec <= MaxTg /\ ckptActive \in 0..12 /\ ckptActive <= MaxTg
          /\ syncedSincePrep \in BOOLEAN /\ ckptDone \in 0..12 /\ ckptDone <= MaxTg
          /\ mode \in {"run", "down", "rec"}
IndInv ==
    /\ TypeOK
    /\ wal \subseteq Committed /\ primCache \subseteq Committed /\ acked \subseteq Committed
    /\ primDisk \subseteq primCache
    /\ ckptDone < next /\ prepRec < next /\ ckptActive < next
    /\ UpTo(ckptDone) \subseteq primDisk                                      \* a complete checkpoint tells the truth
    /\ (ckptActive > 0) => (mode \in {"run", "rec"} /\ UpTo(ckptActive) \subseteq primCache)
    /\ (ckptActive > 0 /\ syncedSincePrep) => UpTo(ckptActive) \subseteq primDisk
    /\ \A t \in Committed : Recoverable(t)                                   \* the WAL fsync precedes everything
    /\ (mode = "run") => acked \subseteq primCache
    /\ AckedRecoverable

\* Apalache: IndInit = IndInv as the initial predicate (every variable is bounded by TypeOK)
IndInit == IndInv
\* constants for Apalache (--cinit): every bound on the number of transaction groups up to 12 at once
\* @type: Set(Str);
NoDev == {}
ConstInit == MaxTg \in 1..12 /\ Deviations = NoDev
ConstInitCkptWithoutSync == MaxTg \in 1..12 /\ Deviations = {"CkptWithoutSync"}
ConstInitPrepCountsAsDone == MaxTg \in 1..12 /\ Deviations = {"PrepCountsAsDone"}
ConstInitTruncateEarly == MaxTg \in 1..12 /\ Deviations = {"TruncateEarly"}
ConstInitDeleteBeforeDone == MaxTg \in 1..12 /\ Deviations = {"DeleteBeforeDone"}
=============================================================================
