------------------------------ MODULE WalCore ------------------------------
(***************************************************************************)
(* Message-grain abstraction of Wal.tla over integers and finite sets, with*)
(* type annotations, so that Apalache can discharge an INDUCTIVE invariant:*)
(* whatever the number of flushes, checkpoints, truncations, power failures*)
(* and recoveries, every acknowledged transaction group is recoverable.    *)
(*                                                                         *)
(*   Commit       WAL record of group `next` written and fsynced           *)
(*   Apply(t)     primary files written (page cache), in commit order      *)
(*   Ack(t)       the request returns: after the fsync and the primary write*)
(*   CkptPrepare  CHECKPOINT/PREPARING(last committed) - only when all     *)
(*                committed groups are applied                             *)
(*   Syncfs       sync(): the page cache reaches the disk                  *)
(*   CkptDone     CHECKPOINT/COMMITCOMPLETE - only after the sync          *)
(*   Truncate     rotation: the WAL is emptied - only when the last        *)
(*                checkpoint covers everything committed                   *)
(*   Crash        power failure: the page cache is lost                    *)
(*   Recover      start-up: groups in the WAL above the last complete      *)
(*                checkpoint are applied, synced, the old WAL is deleted   *)
(*                                                                         *)
(* Deviations (each breaks the invariant; Apalache / TLC show the trace):  *)
(*   "CkptWithoutSync"   COMMITCOMPLETE written before sync() returned     *)
(*   "PrepCountsAsDone"  recovery treats a PREPARING record as complete    *)
(*                       (the seeded change `C05`)                         *)
(*   "TruncateEarly"     truncation not guarded by the checkpoint          *)
(***************************************************************************)
EXTENDS Integers, FiniteSets

CONSTANTS
    \* @type: Int;
    MaxTg,
    \* @type: Set(Str);
    Deviations

VARIABLES
    \* @type: Int;
    next,
    \* @type: Set(Int);
    wal,
    \* @type: Set(Int);
    primCache,
    \* @type: Set(Int);
    primDisk,
    \* @type: Int;
    ckptPrep,
    \* @type: Bool;
    syncedSincePrep,
    \* @type: Int;
    ckptDone,
    \* @type: Set(Int);
    acked,
    \* @type: Str;
    mode

vars == <<next, wal, primCache, primDisk, ckptPrep, syncedSincePrep, ckptDone, acked, mode>>

\* Apalache wants constant integer ranges: group ids live in 1..Cap, MaxTg (<= Cap) is the bound of one run
Cap == 12
Tgs == {t \in 1..12 : t <= MaxTg}
Committed == {t \in Tgs : t < next}
UpTo(k) == {t \in Tgs : t <= k}

Init == /\ next = 1 /\ wal = {} /\ primCache = {} /\ primDisk = {} /\ ckptPrep = 0 /\ syncedSincePrep = FALSE
        /\ ckptDone = 0 /\ acked = {} /\ mode = "run"

Commit == /\ mode = "run" /\ next <= MaxTg
          /\ wal' = wal \union {next} /\ next' = next + 1
          /\ UNCHANGED <<primCache, primDisk, ckptPrep, syncedSincePrep, ckptDone, acked, mode>>
Apply == /\ mode = "run"
         /\ \E t \in Committed : /\ t \notin primCache /\ \A u \in Committed : u < t => u \in primCache
                                 /\ primCache' = primCache \union {t}
         /\ UNCHANGED <<next, wal, primDisk, ckptPrep, syncedSincePrep, ckptDone, acked, mode>>
Ack == /\ mode = "run"
       /\ \E t \in primCache : t \notin acked /\ acked' = acked \union {t}
       /\ UNCHANGED <<next, wal, primCache, primDisk, ckptPrep, syncedSincePrep, ckptDone, mode>>
CkptPrepare == /\ mode = "run" /\ ckptPrep = 0 /\ next > 1 /\ primCache = Committed
               /\ ckptPrep' = next - 1 /\ syncedSincePrep' = FALSE
               /\ UNCHANGED <<next, wal, primCache, primDisk, ckptDone, acked, mode>>
Syncfs == /\ mode = "run" /\ primDisk' = primCache
          /\ syncedSincePrep' = (IF ckptPrep > 0 THEN TRUE ELSE syncedSincePrep)
          /\ UNCHANGED <<next, wal, primCache, ckptPrep, ckptDone, acked, mode>>
CkptDone == /\ mode = "run" /\ ckptPrep > 0 /\ (syncedSincePrep \/ "CkptWithoutSync" \in Deviations)
            /\ ckptDone' = ckptPrep /\ ckptPrep' = 0 /\ syncedSincePrep' = FALSE
            /\ UNCHANGED <<next, wal, primCache, primDisk, acked, mode>>
Truncate == /\ mode = "run" /\ ckptPrep = 0 /\ (ckptDone = next - 1 \/ "TruncateEarly" \in Deviations)
            /\ wal' = {}
            /\ UNCHANGED <<next, primCache, primDisk, ckptPrep, syncedSincePrep, ckptDone, acked, mode>>
Crash == /\ mode = "run" /\ mode' = "down" /\ primCache' = primDisk
         /\ UNCHANGED <<next, wal, primDisk, ckptPrep, syncedSincePrep, ckptDone, acked>>
\* the checkpoint the recovery believes: the last complete one, or (deviation) also a PREPARING record
Believed == IF "PrepCountsAsDone" \in Deviations /\ ckptPrep > ckptDone THEN ckptPrep ELSE ckptDone
Recover == /\ mode = "down"
           /\ LET replay == {t \in wal : t > Believed} IN
              /\ primCache' = primDisk \union replay /\ primDisk' = primDisk \union replay
           /\ wal' = {} /\ ckptDone' = next - 1 /\ ckptPrep' = 0 /\ syncedSincePrep' = FALSE /\ mode' = "run"
           /\ UNCHANGED <<next, acked>>

Next == Commit \/ Apply \/ Ack \/ CkptPrepare \/ Syncfs \/ CkptDone \/ Truncate \/ Crash \/ Recover
Spec == Init /\ [][Next]_vars

\* ---- the property: an acknowledged group is visible while the server runs, and recoverable at every moment ----
Recoverable(t) == t \in primDisk \/ (t \in wal /\ t > ckptDone)
AckedRecoverable == \A t \in acked : Recoverable(t)
AckedVisible == mode = "run" => acked \subseteq primCache

\* ---- inductive invariant ----
TypeOK == /\ next \in 1..13 /\ next <= MaxTg + 1
          /\ wal \in SUBSET (1..12) /\ primCache \in SUBSET (1..12) /\ primDisk \in SUBSET (1..12) /\ acked \in SUBSET (1..12)
          /\ wal \subseteq Tgs /\ primCache \subseteq Tgs /\ primDisk \subseteq Tgs /\ acked \subseteq Tgs
          /\ ckptPrep \in 0..12 /\ ckptPrep <= MaxTg /\ syncedSincePrep \in BOOLEAN /\ ckptDone \in 0..12 /\ ckptDone <= MaxTg
          /\ mode \in {"run", "down"}
IndInv ==
    /\ TypeOK
    /\ wal \subseteq Committed /\ primCache \subseteq Committed /\ acked \subseteq Committed
    /\ primDisk \subseteq primCache
    /\ \A t \in primCache : \A u \in Tgs : u < t => u \in primCache          \* applied in commit order
    /\ \A t \in primDisk : \A u \in Tgs : u < t => u \in primDisk
    /\ ckptDone < next /\ ckptPrep < next
    /\ UpTo(ckptDone) \subseteq primDisk                                      \* a complete checkpoint tells the truth
    /\ (ckptPrep > 0 /\ mode = "run") => UpTo(ckptPrep) \subseteq primCache
    /\ (ckptPrep > 0 /\ syncedSincePrep) => UpTo(ckptPrep) \subseteq primDisk
    /\ \A t \in Committed : Recoverable(t)                                   \* the WAL fsync precedes everything
    /\ (mode = "run") => acked \subseteq primCache
    /\ (mode = "down") => primCache = primDisk
    /\ AckedRecoverable

\* Apalache: IndInit = IndInv as the initial predicate (every variable is bounded by TypeOK)
IndInit == IndInv
\* constants for Apalache (--cinit): every bound on the number of transaction groups up to 12 at once
\* @type: Set(Str);
NoDev == {}
ConstInit == MaxTg \in 1..12 /\ Deviations = NoDev
ConstInitCkptWithoutSync == MaxTg \in 1..12 /\ Deviations = {"CkptWithoutSync"}
ConstInitPrepCountsAsDone == MaxTg \in 1..12 /\ Deviations = {"PrepCountsAsDone"}
ConstInitTruncateEarly == MaxTg \in 1..12 /\ Deviations = {"TruncateEarly"}
=============================================================================
