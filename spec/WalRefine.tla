----------------------------- MODULE WalRefine -----------------------------
(***************************************************************************)
(* Wal.tla (one action per system call of the real code) REFINES           *)
(* WalCore.tla (one action per protocol message, whose invariant "every    *)
(* committed transaction group is recoverable" is proved inductive by      *)
(* Apalache for any number of steps).                                      *)
(*                                                                         *)
(* The refinement mapping needs to know which transaction groups have been *)
(* applied / synced / checkpointed; Wal.tla only has the bytes, so this    *)
(* module adds history variables (they never constrain Wal's behaviour):   *)
(*    hApplied   groups whose primary writes have all been done            *)
(*    hSynced    hApplied at the last sync(2); after a power failure only  *)
(*               these count as applied (a conservative reading: more may  *)
(*               have survived, never less)                                *)
(*    hActive, hPrep, hSince, hDone   the checkpoint protocol              *)
(*    hReqTg     request -> the group that carried it                      *)
(* TLC checks  WC!Spec  as a property of this module: every step of the    *)
(* system-call model is a step (or a stuttering step) of the message model.*)
(* A group replayed by recovery although its commit never completed (id =  *)
(* tg) is invisible to the abstraction.                                    *)
(***************************************************************************)
EXTENDS Wal

VARIABLES hApplied, hSynced, hPrep, hActive, hSince, hDone, hReqTg

hvars == <<hApplied, hSynced, hPrep, hActive, hSince, hDone, hReqTg>>
allvars == <<vars, hvars>>

\* ids of the committed groups whose complete record is in the durable part of the WAL
WalSet(w, ws, t) == {w[j + 2].id : j \in {i \in CompleteTGs(w) : i + 3 <= ws /\ w[i + 2].id < t}}
TiIds(w, d, st, t) == {w[j].id : j \in {i \in 1..Len(w) : w[i].k = "TI" /\ w[i].d = d /\ w[i].st = st /\ w[i].id < t}}
MaxOf(S) == CHOOSE x \in S : \A y \in S : y <= x
MinOf(S) == CHOOSE x \in S : \A y \in S : x <= y

RInit == /\ Init /\ hApplied = {} /\ hSynced = {} /\ hPrep = 0 /\ hActive = 0 /\ hSince = FALSE /\ hDone = 0 /\ hReqTg = <<>>

Keep == UNCHANGED hvars
R_WalWrite ==
  /\ WalWrite
  /\ IF pc = "ckPrep" THEN /\ hActive' = lastC /\ hPrep' = lastC /\ hSince' = FALSE /\ UNCHANGED <<hApplied, hSynced, hDone, hReqTg>>
     ELSE IF pc = "ckDone" THEN /\ hDone' = hActive /\ hActive' = 0 /\ hSince' = FALSE /\ UNCHANGED <<hApplied, hSynced, hPrep, hReqTg>>
     ELSE Keep
R_WalFsync == /\ WalFsync /\ hReqTg' = (ReqOf(cur[1].recs[1]) :> tg) @@ hReqTg
              /\ UNCHANGED <<hApplied, hSynced, hPrep, hActive, hSince, hDone>>
R_PrimWrite == /\ PrimWrite
               /\ hApplied' = IF todo' = <<>> /\ vtmp' = <<>> THEN hApplied \cup {tg - 1} ELSE hApplied
               /\ UNCHANGED <<hSynced, hPrep, hActive, hSince, hDone, hReqTg>>
R_Syncfs == /\ Syncfs /\ hSynced' = hApplied /\ hSince' = (IF hActive > 0 THEN TRUE ELSE hSince)
            /\ UNCHANGED <<hApplied, hPrep, hActive, hDone, hReqTg>>
CrashGuard == \/ (mode = "run" /\ (~Idle \/ queue # <<>> \/ lastC # 0 \/ (req > 0 /\ req \notin acked)))
              \/ mode = "rec"
              \/ (mode = "run" /\ unsynced # <<>> /\ PowerLoss)
R_CrashKill == /\ CrashGuard /\ CrashKill /\ hActive' = 0 /\ hSince' = FALSE
               /\ UNCHANGED <<hApplied, hSynced, hPrep, hDone, hReqTg>>
R_CrashPower ==
  /\ CrashGuard /\ CrashPower /\ hActive' = 0 /\ hSince' = FALSE
  /\ hApplied' = hSynced
  \* checkpoint records written after the last sync may be gone
  /\ LET done == TiIds(wal', "CKPT", "DONE", tg)
         prep == TiIds(wal', "CKPT", "PREP", tg)
         ws   == WalSet(wal', walSync', tg) IN
     /\ hDone' = IF done # {} THEN (IF MaxOf(done) < hDone THEN MaxOf(done) ELSE hDone)
                 ELSE IF ws = {} THEN hDone
                 ELSE (IF MinOf(ws) - 1 < hDone THEN MinOf(ws) - 1 ELSE hDone)
     /\ hPrep' = IF prep # {} /\ MaxOf(prep) <= hPrep THEN MaxOf(prep) ELSE IF prep = {} THEN 0 ELSE hPrep
  /\ UNCHANGED <<hSynced, hReqTg>>
RId == Head(rtodo).id
R_RecoverApply == /\ RecoverApply
                  /\ hApplied' = IF todo' = <<>> /\ vtmp' = <<>> /\ RId < tg THEN hApplied \cup {RId} ELSE hApplied
                  /\ UNCHANGED <<hSynced, hPrep, hActive, hSince, hDone, hReqTg>>
R_RecoverCkptPrep == /\ RecoverCkptPrep
                     /\ IF RId < tg THEN /\ hActive' = RId /\ hPrep' = RId /\ hSince' = FALSE /\ UNCHANGED <<hApplied, hSynced, hDone, hReqTg>>
                        ELSE Keep
R_RecoverCkptDone == /\ RecoverCkptDone
                     /\ IF RId < tg THEN /\ hDone' = RId /\ hActive' = 0 /\ hSince' = FALSE /\ UNCHANGED <<hApplied, hSynced, hPrep, hReqTg>>
                        ELSE Keep
R_RecoverDone == /\ RecoverDone /\ hDone' = tg - 1 /\ hActive' = 0 /\ hSince' = FALSE
                 /\ UNCHANGED <<hApplied, hSynced, hPrep, hReqTg>>

RNext == \/ (IssueAny /\ Keep) \/ ((\E k \in 1..Len(queue) : FlushBegin(k)) /\ Keep) \/ (WalTruncate /\ Keep) \/ (StatusWrite /\ Keep)
         \/ R_WalWrite \/ R_WalFsync \/ R_PrimWrite \/ (Ack /\ Keep) \/ (CkptBegin /\ Keep) \/ R_Syncfs
         \/ R_CrashKill \/ R_CrashPower
         \/ (RecoverScan /\ Keep) \/ (RecoverNextTG /\ Keep) \/ R_RecoverApply \/ R_RecoverCkptPrep \/ R_RecoverCkptDone \/ R_RecoverDone
RSpec == RInit /\ [][RNext]_allvars

\* ---- the refinement mapping ----
AMode == IF mode = "run" THEN "run" ELSE IF pc = "rscan" THEN "down" ELSE "rec"
AAcked == {hReqTg[r] : r \in acked}
WC == INSTANCE WalCore WITH MaxTg <- 12, Deviations <- {}, next <- tg, wal <- WalSet(wal, walSync, tg),
                            primCache <- hApplied, primDisk <- hSynced, prepRec <- hPrep, ckptActive <- hActive,
                            syncedSincePrep <- hSince, ckptDone <- hDone, acked <- AAcked, mode <- AMode
Refines == WC!Spec
\* and the abstract invariant, read through the mapping, as a plain invariant of the system-call model
AbstractInv == WC!IndInv
\* every acknowledged request's group is recoverable: in the synced primaries or in the durable WAL above the checkpoint
AckedRecoverableR == WC!AckedRecoverable

RView == <<wal, walSync, fx, vidx, vdat, veof, unsynced, snap, pc, cur, todo, vtmp, tg, lastC, req, acked, mode, rtodo, crashes, ckpts, bad, inflight, queue, rots, hvars>>
=============================================================================
