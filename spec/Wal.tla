-------------------------------- MODULE Wal --------------------------------
(***************************************************************************)
(* Durable-write protocol of marketstore at the grain of system calls.     *)
(*                                                                         *)
(*   executor/wal.go      FlushToWAL / FlushCommandsToWAL / writePrimary / *)
(*                        CreateCheckpoint / WriteStatus / rotation        *)
(*   executor/writer.go   WriteBufferToFile, WriteBufferToFileIndirect     *)
(*   executor/walreplay.go, walclean.go, internal/di/wal.go  (start-up)    *)
(*                                                                         *)
(* One action = one system call of the real code (one write(2) to the WAL  *)
(* = one fragment), so that every recorded execution can be checked as a   *)
(* behaviour of this module (Wal_Trace.tla) and every crash point of the   *)
(* real code (a prefix of its system calls) is a state of this module.     *)
(*                                                                         *)
(* Crash models: CrashKill (page cache survives) and CrashPower(S, T):     *)
(* everything written after a file's last fsync / the last global sync may *)
(* be lost -- S = surviving subset of unsynced primary writes, T = surviving*)
(* subset of unsynced WAL fragments.  File creation, size and directory    *)
(* entries are treated as durable (the properties speak of file DATA).     *)
(*                                                                         *)
(* Known deviations of the unchanged tree (constant Deviations):           *)
(*  "InPlace"  a second write to the interval that owns the tail of a      *)
(*             variable file overwrites its data IN PLACE before the index *)
(*             is updated (WriteBufferToFileIndirect continuation write)   *)
(*  "Reappend" replay of a variable-length command appends its records     *)
(*             again although the primary write had completed              *)
(*  "LoopSplitsRequest"  the background loop's timer flush takes whatever   *)
(*             is on the write channel, possibly only the first commands   *)
(*             of a request that is still being queued: the request is     *)
(*             committed as two transactions                               *)
(*  "PowerReorder"  see CrashPower                                         *)
(***************************************************************************)
EXTENDS Integers, Sequences, FiniteSets, TLC, SequencesExt, Json

CONSTANTS FixedFiles, VarFiles,   \* file ids (strings)
          Slots,                  \* slot ids per file (1..N)
          MaxReq,                 \* client requests
          MaxCmds,                \* commands per request
          MaxCrash, MaxCkpt,
          PowerLoss,              \* TRUE: CrashPower enabled, FALSE: CrashKill only
          LoopMode,               \* TRUE: background WAL loop (flushes any prefix of the queue, rotates), client runs concurrently
          MaxRot,                 \* WAL rotations (truncate + status) in LoopMode
          Deviations

Files == FixedFiles \cup VarFiles
NoIdx == [off |-> 0, len |-> 0]
Cmds  == [f : Files, s : Slots]

VARIABLES
  wal,        \* Seq of fragments: the WAL file of the running / crashed instance (page-cache view)
  walSync,    \* number of leading fragments that are durable
  fx,         \* [FixedFiles -> [Slots -> Nat]]           fixed files: slot -> value (0 = never written)
  vidx,       \* [VarFiles -> [Slots -> [off, len]]]      variable files: index triples
  vdat,       \* [VarFiles -> [Nat -> [len, recs]]]       variable files: data area, offset -> blob
  veof,       \* [VarFiles -> Nat]
  unsynced,   \* Seq of primary writes since the last global sync (for power loss)
  snap,       \* primary state as of the last global sync: [fx, vidx, vdat, veof]
  pc,         \* program counter of the writer / recovery
  cur,        \* commands of the request being flushed (with values)
  todo,       \* primary writes still to do for the current TG:  Seq of commands (grouped per file)
  vtmp,       \* sub-step state of a variable write
  tg, lastC,  \* next TG id; last committed TG not yet checkpointed
  req, acked, writes,   \* client bookkeeping: requests issued, acked, their commands
  mode,       \* "run" | "rec"
  rtodo,      \* recovery: TGs still to replay
  crashes, ckpts, bad,
  inflight,   \* request in flight at the (last) crash, 0 if none
  queue,      \* write channel: commands enqueued and not yet taken by a flush
  rots        \* rotations done

vars == <<wal, walSync, fx, vidx, vdat, veof, unsynced, snap, pc, cur, todo, vtmp, tg, lastC, req, acked, writes,
          mode, rtodo, crashes, ckpts, bad, inflight, queue, rots>>

Prim == [fx |-> fx, vidx |-> vidx, vdat |-> vdat, veof |-> veof]

FragST(rs)        == [k |-> "ST", rs |-> rs]
FragTI(id, d, st) == [k |-> "TI", id |-> id, d |-> d, st |-> st]
FragMID           == [k |-> "MID"]
FragLEN(id)       == [k |-> "LEN", id |-> id]
FragBODY(id, c)   == [k |-> "BODY", id |-> id, cmds |-> c]
FragCK(id)        == [k |-> "CK", id |-> id]
FragHOLE          == [k |-> "HOLE"]

Init ==
  /\ wal = <<FragST("NOTREPLAYED")>> /\ walSync = 1
  /\ fx = [f \in FixedFiles |-> [s \in Slots |-> 0]]
  /\ vidx = [f \in VarFiles |-> [s \in Slots |-> NoIdx]]
  /\ vdat = [f \in VarFiles |-> <<>>]
  /\ veof = [f \in VarFiles |-> 1]
  /\ unsynced = <<>>
  /\ snap = [fx |-> fx, vidx |-> vidx, vdat |-> vdat, veof |-> veof]
  /\ pc = "idle" /\ cur = <<>> /\ todo = <<>> /\ vtmp = <<>>
  /\ tg = 1 /\ lastC = 0 /\ req = 0 /\ acked = {} /\ writes = <<>>
  /\ mode = "run" /\ rtodo = <<>> /\ crashes = 0 /\ ckpts = 0 /\ bad = "none" /\ inflight = 0
  /\ queue = <<>> /\ rots = 0

(***************************************************************************)
(* Primary-file primitives, as pure functions on a primary state p.        *)
(* A primary write op is a record; ApplyOp(p, op) is its effect.           *)
(***************************************************************************)
ReadBlob(p, f, s) ==
  LET ix == p.vidx[f][s] IN
  IF ix = NoIdx THEN [ok |-> TRUE, recs |-> <<>>]
  ELSE IF ix.off \in DOMAIN p.vdat[f] /\ p.vdat[f][ix.off].len = ix.len
       THEN [ok |-> TRUE, recs |-> p.vdat[f][ix.off].recs]
       ELSE [ok |-> FALSE, recs |-> <<>>]          \* index points at bytes that are not the blob it described

\* where WriteBufferToFileIndirect puts the new blob: at EOF, or -- continuation write -- over the old blob
\* when that blob is the last thing in the file
VarPos(p, f, s, devs) ==
  LET ix == p.vidx[f][s] IN
  IF ix # NoIdx /\ ix.off + ix.len = p.veof[f] /\ "InPlace" \in devs THEN ix.off ELSE p.veof[f]

OpFix(f, s, v)           == [t |-> "fix", f |-> f, s |-> s, v |-> v]
OpDat(f, off, len, recs) == [t |-> "dat", f |-> f, off |-> off, len |-> len, recs |-> recs]
OpIdx(f, s, off, len)    == [t |-> "idx", f |-> f, s |-> s, off |-> off, len |-> len]

\* blobs overlapped by a write at [off, off+len) are destroyed (their bytes are overwritten)
Overlaps(o1, l1, o2, l2) == o1 < o2 + l2 /\ o2 < o1 + l1
ApplyOp(p, op) ==
  CASE op.t = "fix" -> [p EXCEPT !.fx[op.f][op.s] = op.v]
    [] op.t = "dat" ->
         LET keep == {o \in DOMAIN p.vdat[op.f] : ~Overlaps(o, p.vdat[op.f][o].len, op.off, op.len)}
             nd   == [o \in keep \cup {op.off} |-> IF o = op.off THEN [len |-> op.len, recs |-> op.recs] ELSE p.vdat[op.f][o]]
         IN [p EXCEPT !.vdat[op.f] = nd,
                      !.veof[op.f] = IF op.off + op.len > @ THEN op.off + op.len ELSE @]
    [] op.t = "idx" -> [p EXCEPT !.vidx[op.f][op.s] = [off |-> op.off, len |-> op.len]]

RECURSIVE ApplyOps(_, _)
ApplyOps(p, ops) == IF ops = <<>> THEN p ELSE ApplyOps(ApplyOp(p, Head(ops)), Tail(ops))

\* the sequence of primary write ops (system calls) that applying command c to state p performs;
\* "bad" when the old data cannot be decoded (snappy: corrupt input)
CmdOps(p, c, devs, blobLen(_)) ==
  IF c.f \in FixedFiles THEN [ok |-> TRUE, ops |-> <<OpFix(c.f, c.s, c.recs[Len(c.recs)])>>]
  ELSE LET old == ReadBlob(p, c.f, c.s) IN
       IF ~old.ok THEN [ok |-> FALSE, ops |-> <<>>]
       ELSE LET recs == old.recs \o c.recs
                pos  == VarPos(p, c.f, c.s, devs)
                ln   == blobLen(recs)
            IN [ok |-> TRUE, ops |-> <<OpDat(c.f, pos, ln, recs), OpIdx(c.f, c.s, pos, ln)>>]

DefaultLen(recs) == Len(recs)

(***************************************************************************)
(* Client + inline flush (BackgroundSync off): one request at a time        *)
(***************************************************************************)
SetPrim(p) == /\ fx' = p.fx /\ vidx' = p.vidx /\ vdat' = p.vdat /\ veof' = p.veof

\* "prim" with nothing left to write is as good as idle (the flush has ended)
Idle == pc = "idle" \/ (pc = "prim" /\ todo = <<>> /\ vtmp = <<>>)
PrevAcked == req = 0 \/ req \in acked \/ req = inflight   \* (a request in flight at a crash died with its client)

\* WriteCSM: the request's commands are queued on the write channel (one client, one request at a time)
Issue(cmds) ==
  /\ mode = "run" /\ bad = "none" /\ req < MaxReq /\ PrevAcked
  /\ (LoopMode \/ (Idle /\ queue = <<>>))
  /\ req' = req + 1
  /\ queue' = queue \o [i \in 1..Len(cmds) |-> [f |-> cmds[i].f, s |-> cmds[i].s, recs |-> cmds[i].recs]]
  /\ writes' = Append(writes, [i \in 1..Len(cmds) |-> [f |-> cmds[i].f, s |-> cmds[i].s, recs |-> cmds[i].recs]])
  /\ UNCHANGED <<wal, walSync, fx, vidx, vdat, veof, unsynced, snap, pc, cur, todo, vtmp, tg, lastC, acked, mode, rtodo, crashes, ckpts, bad, inflight, rots>>

\* FlushToWAL: take what is on the write channel now (inline: everything; the background loop may run while the
\* client is still queueing, so it may take any non-empty prefix)
FlushBegin(k) ==
  /\ mode = "run" /\ bad = "none" /\ Idle /\ k \in 1..Len(queue)
  /\ \/ k = Len(queue)
     \/ LoopMode /\ "LoopSplitsRequest" \in Deviations   \* a timer flush may fire while WriteCSM is still queueing
  /\ cur' = SubSeq(queue, 1, k) /\ queue' = SubSeq(queue, k + 1, Len(queue))
  /\ pc' = "tiPrep"
  /\ UNCHANGED <<wal, walSync, fx, vidx, vdat, veof, unsynced, snap, todo, vtmp, tg, lastC, req, acked, writes, mode, rtodo, crashes, ckpts, bad, inflight, rots>>

\* the fragment the writer emits next, and the pc after it
NextFrag == CASE pc = "tiPrep" -> FragTI(tg, "WAL", "PREP")
              [] pc = "mid"    -> FragMID
              [] pc = "len"    -> FragLEN(tg)
              [] pc = "body"   -> FragBODY(tg, cur)
              [] pc = "ck"     -> FragCK(tg)
              [] pc = "tiDone" -> FragTI(tg, "WAL", "DONE")
              [] pc = "ckPrep" -> FragTI(lastC, "CKPT", "PREP")
              [] pc = "ckDone" -> FragTI(lastC, "CKPT", "DONE")
              [] OTHER -> FragHOLE
PcAfter == CASE pc = "tiPrep" -> "mid" [] pc = "mid" -> "len" [] pc = "len" -> "body" [] pc = "body" -> "ck"
             [] pc = "ck" -> "tiDone" [] pc = "tiDone" -> "fsync" [] pc = "ckPrep" -> "ckSync" [] pc = "ckDone" -> "idle"
             [] OTHER -> pc

WalWrite ==   \* one write(2) appending a fragment to the WAL
  /\ mode = "run" /\ bad = "none"
  /\ pc \in {"tiPrep", "mid", "len", "body", "ck", "tiDone", "ckPrep", "ckDone"}
  /\ wal' = Append(wal, NextFrag)
  /\ pc' = PcAfter
  /\ lastC' = IF pc = "ckDone" THEN 0 ELSE lastC
  /\ ckpts' = IF pc = "ckDone" THEN ckpts + 1 ELSE ckpts
  /\ UNCHANGED <<walSync, fx, vidx, vdat, veof, unsynced, snap, cur, todo, vtmp, tg, req, acked, writes, mode, rtodo, crashes, bad, inflight, queue, rots>>

\* group the commands per file in the order of first appearance (writesPerFile); the files themselves are
\* visited in Go map order, i.e. any order
FilesOf(cmds) == {cmds[i].f : i \in 1..Len(cmds)}
CmdsOfFile(cmds, f) == SelectSeq(cmds, LAMBDA c : c.f = f)

WalFsync ==   \* FilePtr.Sync(): the TG is committed
  /\ mode = "run" /\ bad = "none" /\ pc = "fsync"
  /\ walSync' = Len(wal)
  /\ lastC' = tg /\ tg' = tg + 1
  /\ todo' = cur
  /\ pc' = "prim"
  /\ UNCHANGED <<wal, fx, vidx, vdat, veof, unsynced, snap, cur, vtmp, req, acked, writes, mode, rtodo, crashes, ckpts, bad, inflight, queue, rots>>

\* one primary write system call.  The commands of one file are applied in order, the next file is any file
\* that still has commands.  vtmp holds the ops of the command in progress.
PrimStep(devs, blobLen(_)) ==
  /\ bad = "none"
  /\ IF vtmp # <<>>
     THEN /\ SetPrim(ApplyOp(Prim, Head(vtmp)))
          /\ unsynced' = Append(unsynced, Head(vtmp))
          /\ vtmp' = Tail(vtmp)
          /\ UNCHANGED <<todo, bad, queue, rots>>
     ELSE \E f \in FilesOf(todo) :
            \* continue with the file in progress if any command of the current file remains: the real code finishes
            \* a file before the next (approximated: any file; per-file order is kept)
            LET k  == CHOOSE i \in 1..Len(todo) : todo[i].f = f /\ \A j \in 1..(i-1) : todo[j].f # f
                c  == todo[k]
                r  == CmdOps(Prim, c, devs, blobLen)
            IN /\ todo' = [i \in 1..(Len(todo) - 1) |-> IF i < k THEN todo[i] ELSE todo[i + 1]]
               /\ IF r.ok
                  THEN /\ SetPrim(ApplyOp(Prim, Head(r.ops)))
                       /\ unsynced' = Append(unsynced, Head(r.ops))
                       /\ vtmp' = Tail(r.ops)
                       /\ bad' = bad
                  ELSE /\ bad' = "decode" /\ UNCHANGED <<fx, vidx, vdat, veof, unsynced, vtmp, queue, rots>>

PrimWrite ==
  /\ mode = "run" /\ pc = "prim" /\ (todo # <<>> \/ vtmp # <<>>)
  /\ PrimStep(Deviations, DefaultLen)
  /\ UNCHANGED <<wal, walSync, snap, pc, cur, tg, lastC, req, acked, writes, mode, rtodo, crashes, ckpts, inflight, queue, rots>>

\* the request returns: all of its commands have been flushed (WAL synced, primary written)
HasReq(sq, r) == \E i \in 1..Len(sq) : \E k \in 1..Len(sq[i].recs) : sq[i].recs[k] \div 10 = r
Flushing == pc \in {"tiPrep", "mid", "len", "body", "ck", "tiDone", "fsync"} \/ (pc = "prim" /\ (todo # <<>> \/ vtmp # <<>>))
\* (the reply reaches the client thread while the loop thread may already be doing something else, e.g. a checkpoint)
Ack ==
  /\ mode = "run" /\ bad = "none" /\ req > 0 /\ req \notin acked /\ req # inflight
  /\ ~HasReq(queue, req) /\ ~(Flushing /\ HasReq(cur, req))
  /\ (LoopMode \/ Idle)
  /\ acked' = acked \cup {req}
  /\ UNCHANGED <<wal, walSync, fx, vidx, vdat, veof, unsynced, snap, pc, cur, todo, vtmp, tg, lastC, req, writes, mode, rtodo, crashes, ckpts, bad, inflight, queue, rots>>

(***************************************************************************)
(* Checkpoint: TI(CKPT,PREP) ; sync() ; TI(CKPT,DONE)    (CreateCheckpoint) *)
(***************************************************************************)
CkptBegin ==
  /\ mode = "run" /\ bad = "none" /\ Idle /\ lastC # 0 /\ ckpts < MaxCkpt
  /\ pc' = "ckPrep"
  /\ UNCHANGED <<wal, walSync, fx, vidx, vdat, veof, unsynced, snap, cur, todo, vtmp, tg, lastC, req, acked, writes, mode, rtodo, crashes, ckpts, bad, inflight, queue, rots>>

Syncfs ==     \* sync(2): every file, including the WAL, is durable
  /\ bad = "none" /\ pc \in {"ckSync", "rckSync"}
  /\ snap' = Prim /\ unsynced' = <<>> /\ walSync' = Len(wal)
  /\ pc' = IF pc = "ckSync" THEN "ckDone" ELSE "rckDone"
  /\ UNCHANGED <<wal, fx, vidx, vdat, veof, cur, todo, vtmp, tg, lastC, req, acked, writes, mode, rtodo, crashes, ckpts, bad, inflight, queue, rots>>

(***************************************************************************)
(* Crashes                                                                 *)
(***************************************************************************)
InFlightNow == IF mode = "run" THEN (IF req > 0 /\ req \notin acked THEN req ELSE 0) ELSE inflight

CrashCommon ==
  /\ crashes < MaxCrash /\ bad = "none"
  /\ crashes' = crashes + 1 /\ mode' = "rec" /\ pc' = "rscan"
  /\ inflight' = InFlightNow
  /\ cur' = <<>> /\ todo' = <<>> /\ vtmp' = <<>> /\ rtodo' = <<>> /\ lastC' = 0 /\ queue' = <<>>
  /\ UNCHANGED <<tg, req, acked, writes, ckpts, bad, rots>>

CrashKill ==   \* the process dies, the page cache survives
  /\ CrashCommon
  /\ UNCHANGED <<wal, walSync, fx, vidx, vdat, veof, unsynced, snap>>

\* power loss: the durable image plus a subset of the still-volatile writes.
\* Without the deviation "PowerReorder" the writes of one file reach the disk in program order (a file keeps a
\* prefix of its volatile writes); with it any subset may survive -- the code never orders the data write of a
\* variable interval before its index write with an fsync, so an index can survive without its data.
SubSeqsOf(s) == {[i \in 1..Cardinality(I) |-> s[SetToSortSeq(I, LAMBDA a, b : a < b)[i]]] : I \in SUBSET (1..Len(s))}
PrefixClosed(s, I) == \A i \in I : \A j \in 1..(i - 1) : s[j].f = s[i].f => j \in I
SurvivorSets(s) == IF "PowerReorder" \in Deviations THEN SUBSET (1..Len(s))
                   ELSE {I \in SUBSET (1..Len(s)) : PrefixClosed(s, I)}
CrashPower ==
  /\ PowerLoss /\ CrashCommon
  /\ \E I \in SurvivorSets(unsynced) :
       LET ops == [i \in 1..Cardinality(I) |-> unsynced[SetToSortSeq(I, LAMBDA a, b : a < b)[i]]]
           p == ApplyOps(snap, ops) IN
       /\ SetPrim(p) /\ snap' = p /\ unsynced' = <<>>
  /\ \E n \in walSync..Len(wal) :     \* the WAL is one append-only file: a prefix of its volatile fragments survives,
       \E T \in (IF "PowerReorder" \in Deviations THEN SUBSET ((walSync + 1)..Len(wal)) ELSE {(walSync + 1)..n}) :
       /\ wal' = [i \in 1..Len(wal) |-> IF i <= walSync \/ i \in T THEN wal[i] ELSE FragHOLE]
       /\ walSync' = Len(wal)

(***************************************************************************)
(* Start-up recovery (CleanupOldWALFiles -> Replay) on the crashed WAL      *)
(***************************************************************************)
\* first pass of Replay: a TG is complete when MID LEN BODY CK of the same id follow each other.
\* A HOLE or a foreign fragment in between makes the scanner lose the record (checksum / short read).
CompleteAt(w, i) == /\ i + 3 <= Len(w) /\ w[i].k = "MID" /\ w[i+1].k = "LEN" /\ w[i+2].k = "BODY" /\ w[i+3].k = "CK"
                    /\ w[i+1].id = w[i+2].id /\ w[i+2].id = w[i+3].id
CompleteTGs(w) == {i \in 1..Len(w) : CompleteAt(w, i)}
\* a CHECKPOINT COMMITCOMPLETE record for a TG seen earlier in the file prunes every TG with id <= its id
Pruned(w, i) == \E j \in 1..Len(w) : /\ w[j].k = "TI" /\ w[j].d = "CKPT" /\ w[j].st = "DONE" /\ w[j].id >= w[i+2].id
                                      /\ \E h \in CompleteTGs(w) : h < j /\ w[h+2].id = w[j].id
ToReplay(w) == LET idx == {i \in CompleteTGs(w) : ~Pruned(w, i)}
               IN  SortSeq(SetToSeq({w[i+2] : i \in idx}), LAMBDA a, b : a.id < b.id)

\* ---- recovery as a function: what a restart makes of primary state p and WAL w ----
AlreadyThere(p, c, devs) ==
  /\ c.f \in VarFiles /\ "Reappend" \notin devs
  /\ LET old == ReadBlob(p, c.f, c.s) IN old.ok /\ \A k \in 1..Len(c.recs) : \E j \in 1..Len(old.recs) : old.recs[j] = c.recs[k]
RECURSIVE ReplayCmds(_, _, _)
ReplayCmds(p, cmds, devs) ==
  IF cmds = <<>> THEN [ok |-> TRUE, p |-> p]
  ELSE IF AlreadyThere(p, Head(cmds), devs) THEN ReplayCmds(p, Tail(cmds), devs)
  ELSE LET r == CmdOps(p, Head(cmds), devs, DefaultLen) IN
       IF ~r.ok THEN [ok |-> FALSE, p |-> p] ELSE ReplayCmds(ApplyOps(p, r.ops), Tail(cmds), devs)
RECURSIVE ReplayTGs(_, _, _)
ReplayTGs(p, tgs, devs) ==
  IF tgs = <<>> THEN [ok |-> TRUE, p |-> p]
  ELSE LET r == ReplayCmds(p, Head(tgs).cmds, devs) IN IF ~r.ok THEN r ELSE ReplayTGs(r.p, Tail(tgs), devs)
Recovered(p, w, devs) == ReplayTGs(p, ToReplay(w), devs)
\* observable summary of a primary state: what queries return
Summary(r) == [ok |-> r.ok,
               fx |-> r.p.fx,
               vr |-> [f \in VarFiles |-> [s \in Slots |-> ReadBlob(r.p, f, s)]]]

RecoverScan ==
  /\ mode = "rec" /\ bad = "none" /\ pc = "rscan"
  /\ rtodo' = ToReplay(wal) /\ pc' = "rnext"
  /\ wal' = IF wal = <<>> THEN wal ELSE [wal EXCEPT ![1] = FragST("INPROCESS")] \* WriteStatus(OPEN, REPLAYINPROCESS) + fsync
                                                                          \* (a WAL of <= 10 bytes is just removed)
  /\ walSync' = Len(wal)
  /\ UNCHANGED <<fx, vidx, vdat, veof, unsynced, snap, cur, todo, vtmp, tg, lastC, req, acked, writes, mode, crashes, ckpts, bad, inflight, queue, rots>>

RecoverNextTG ==
  /\ mode = "rec" /\ bad = "none" /\ pc = "rnext" /\ rtodo # <<>>
  /\ todo' = Head(rtodo).cmds /\ pc' = "rapply"
  /\ UNCHANGED <<wal, walSync, fx, vidx, vdat, veof, unsynced, snap, cur, vtmp, tg, lastC, req, acked, writes, mode, rtodo, crashes, ckpts, bad, inflight, queue, rots>>

\* replay applies the commands with the same routines as the flush (wtSets in TG order)
\* pure model: replaying a variable command whose records are already in the interval adds nothing
ReplayDevs == Deviations
RecoverApply ==
  /\ mode = "rec" /\ pc = "rapply" /\ (todo # <<>> \/ vtmp # <<>>) /\ bad = "none"
  /\ IF vtmp # <<>>
     THEN /\ SetPrim(ApplyOp(Prim, Head(vtmp))) /\ unsynced' = Append(unsynced, Head(vtmp)) /\ vtmp' = Tail(vtmp)
          /\ UNCHANGED <<todo, bad, queue, rots>>
     ELSE LET c0 == Head(todo)
              already == /\ c0.f \in VarFiles /\ "Reappend" \notin Deviations
                         /\ LET old == ReadBlob(Prim, c0.f, c0.s) IN
                              old.ok /\ \A k \in 1..Len(c0.recs) : \E j \in 1..Len(old.recs) : old.recs[j] = c0.recs[k]
              r == CmdOps(Prim, c0, Deviations, DefaultLen)
          IN /\ todo' = Tail(todo)
             /\ IF already THEN UNCHANGED <<fx, vidx, vdat, veof, unsynced, vtmp, bad, queue, rots>>
                ELSE IF r.ok
                THEN /\ SetPrim(ApplyOp(Prim, Head(r.ops))) /\ unsynced' = Append(unsynced, Head(r.ops))
                     /\ vtmp' = Tail(r.ops) /\ bad' = bad
                ELSE /\ bad' = "decode" /\ UNCHANGED <<fx, vidx, vdat, veof, unsynced, vtmp, queue, rots>>
  /\ UNCHANGED <<wal, walSync, snap, pc, cur, tg, lastC, req, acked, writes, mode, rtodo, crashes, ckpts, inflight, queue, rots>>

\* after each replayed TG: CreateCheckpoint on the old WAL (PREP, sync, DONE)
RecoverCkptPrep ==
  /\ mode = "rec" /\ bad = "none" /\ pc = "rapply" /\ todo = <<>> /\ vtmp = <<>>
  /\ wal' = Append(wal, FragTI(Head(rtodo).id, "CKPT", "PREP")) /\ pc' = "rckSync"
  /\ UNCHANGED <<walSync, fx, vidx, vdat, veof, unsynced, snap, cur, todo, vtmp, tg, lastC, req, acked, writes, mode, rtodo, crashes, ckpts, bad, inflight, queue, rots>>
RecoverCkptDone ==
  /\ mode = "rec" /\ bad = "none" /\ pc = "rckDone"
  /\ wal' = Append(wal, FragTI(Head(rtodo).id, "CKPT", "DONE")) /\ pc' = "rnext" /\ rtodo' = Tail(rtodo)
  /\ UNCHANGED <<walSync, fx, vidx, vdat, veof, unsynced, snap, cur, todo, vtmp, tg, lastC, req, acked, writes, mode, crashes, ckpts, bad, inflight, queue, rots>>

\* WriteStatus(REPLAYED), Delete (close + unlink), and the fresh WAL of the new instance
RecoverDone ==
  /\ mode = "rec" /\ bad = "none" /\ pc = "rnext" /\ rtodo = <<>>
  /\ mode' = "run" /\ pc' = "idle" /\ wal' = <<FragST("NOTREPLAYED")>> /\ walSync' = 1 /\ lastC' = 0
  /\ UNCHANGED <<fx, vidx, vdat, veof, unsynced, snap, cur, todo, vtmp, tg, req, acked, writes, rtodo, crashes, ckpts, bad, inflight, queue, rots>>

(***************************************************************************)
(* Next-state relation (free mode: the client chooses its requests)        *)
(***************************************************************************)
CmdSeqs == UNION {[1..n -> Cmds] : n \in 1..MaxCmds}
\* one WriteCSM request is either all fixed-length or all variable-length (isVariableLength is per request)
SameKind(cs) == \A i, j \in 1..Len(cs) : (cs[i].f \in FixedFiles) = (cs[j].f \in FixedFiles)
IssueAny == \E cs \in {c \in CmdSeqs : SameKind(c)} :
              Issue([i \in 1..Len(cs) |-> [f |-> cs[i].f, s |-> cs[i].s, recs |-> <<(req + 1) * 10 + i>>]])

Crash == /\ \/ (mode = "run" /\ (~Idle \/ queue # <<>> \/ lastC # 0 \/ (req > 0 /\ req \notin acked)))
            \/ mode = "rec"
            \/ (mode = "run" /\ unsynced # <<>> /\ PowerLoss)
         /\ (CrashKill \/ CrashPower)

\* rotation (SyncWAL, tickerPrimary branch): after the checkpoint, truncate the WAL to 0 and rewrite its status
WalTruncate ==
  /\ LoopMode /\ mode = "run" /\ bad = "none" /\ Idle /\ lastC = 0 /\ rots < MaxRot
  /\ wal' = <<>> /\ walSync' = 0 /\ pc' = "rotStatus" /\ cur' = <<>>
  /\ UNCHANGED <<fx, vidx, vdat, veof, unsynced, snap, todo, vtmp, tg, lastC, req, acked, writes, mode, rtodo, crashes, ckpts, bad, inflight, queue, rots>>
StatusWrite ==
  /\ mode = "run" /\ bad = "none" /\ pc = "rotStatus"
  /\ wal' = <<FragST("NOTREPLAYED")>> /\ walSync' = 1 /\ pc' = "idle" /\ rots' = rots + 1
  /\ UNCHANGED <<fx, vidx, vdat, veof, unsynced, snap, cur, todo, vtmp, tg, lastC, req, acked, writes, mode, rtodo, crashes, ckpts, bad, inflight, queue>>

Next == \/ IssueAny \/ (\E k \in 1..Len(queue) : FlushBegin(k)) \/ WalTruncate \/ StatusWrite \/ WalWrite \/ WalFsync \/ PrimWrite \/ Ack \/ CkptBegin \/ Syncfs
        \/ Crash
        \/ RecoverScan \/ RecoverNextTG \/ RecoverApply \/ RecoverCkptPrep \/ RecoverCkptDone \/ RecoverDone

Spec == Init /\ [][Next]_vars

(***************************************************************************)
(* Properties                                                              *)
(***************************************************************************)
Quiet == mode = "run" /\ Idle /\ queue = <<>> /\ bad = "none" /\ PrevAcked

\* every record carries a unique id  request*10 + command index
ReqOf(x) == x \div 10
RecIds(r, f, s) == UNION {Range(writes[r][i].recs) : i \in {i \in 1..Len(writes[r]) : writes[r][i].f = f /\ writes[r][i].s = s}}
WritesTo(r, f, s) == RecIds(r, f, s) # {}
\* the value request r leaves in a fixed slot: the last record of its last command for that slot
LastRec(r, f, s) == LET I == {i \in 1..Len(writes[r]) : writes[r][i].f = f /\ writes[r][i].s = s}
                        m == CHOOSE i \in I : \A j \in I : j <= i
                    IN  writes[r][m].recs[Len(writes[r][m].recs)]
LastAcked(f, s) == LET rs == {r \in acked : WritesTo(r, f, s)} IN IF rs = {} THEN 0 ELSE CHOOSE r \in rs : \A q \in rs : q <= r
Blob(f, s) == ReadBlob(Prim, f, s)
Count(sq, x) == Cardinality({j \in 1..Len(sq) : sq[j] = x})

\* C01 / C04: acknowledged writes survive
AckedSurvive == Quiet =>
  /\ \A f \in FixedFiles, s \in Slots :
       LET la == LastAcked(f, s) IN
       fx[f][s] \in (IF la = 0 THEN {0} ELSE {LastRec(la, f, s)})
                    \cup {LastRec(r, f, s) : r \in {r \in 1..req : r > la /\ r \notin acked /\ WritesTo(r, f, s)}}
  /\ \A f \in VarFiles, s \in Slots :
       Blob(f, s).ok /\ \A r \in acked : \A x \in RecIds(r, f, s) : Count(Blob(f, s).recs, x) >= 1

\* C02: nothing duplicated, nothing invented, in-flight request all or nothing
NoPhantomNoDup == Quiet =>
  /\ \A f \in FixedFiles, s \in Slots : fx[f][s] = 0 \/ (ReqOf(fx[f][s]) \in 1..req /\ fx[f][s] \in RecIds(ReqOf(fx[f][s]), f, s))
  /\ \A f \in VarFiles, s \in Slots : Blob(f, s).ok =>
       \A j \in 1..Len(Blob(f, s).recs) :
          LET x == Blob(f, s).recs[j] IN ReqOf(x) \in 1..req /\ x \in RecIds(ReqOf(x), f, s) /\ Count(Blob(f, s).recs, x) = 1
Present(r, i) == LET c == writes[r][i] IN
                 IF c.f \in FixedFiles THEN fx[c.f][c.s] = LastRec(r, c.f, c.s)
                 ELSE Blob(c.f, c.s).ok /\ \A x \in Range(c.recs) : Count(Blob(c.f, c.s).recs, x) >= 1
Absent(r, i) == LET c == writes[r][i] IN
                 IF c.f \in FixedFiles THEN ReqOf(fx[c.f][c.s]) # r
                 ELSE Blob(c.f, c.s).ok /\ \A x \in Range(c.recs) : Count(Blob(c.f, c.s).recs, x) = 0
Overwritten(r, i) == LET c == writes[r][i] IN c.f \in FixedFiles /\ \E q \in (r+1)..req : WritesTo(q, c.f, c.s)
InFlightAtomic == (Quiet /\ inflight # 0 /\ inflight \notin acked) =>
  \/ \A i \in 1..Len(writes[inflight]) : Present(inflight, i) \/ Overwritten(inflight, i)
  \/ \A i \in 1..Len(writes[inflight]) : Absent(inflight, i)

\* C02 with the known deviation "Reappend" (every replay of a transaction group appends its variable records again): the
\* checkpoint written after EACH replayed group bounds the damage - a record appears at most 1 + (number of crashes) times,
\* and at most ONE group (the one whose replay a second crash interrupted) is replayed by two recoveries
VarRecIds == {r * 10 + i : r \in 1..req, i \in 1..MaxCmds} \cap
             {x \in 1..(req * 10 + MaxCmds) : ReqOf(x) \in 1..req /\ (x % 10) \in 1..Len(writes[ReqOf(x)]) /\ writes[ReqOf(x)][x % 10].f \in VarFiles}
VarCount(x) == LET c == writes[ReqOf(x)][x % 10] IN IF Blob(c.f, c.s).ok THEN Count(Blob(c.f, c.s).recs, x) ELSE 0
ReappendBounded == Quiet =>
  /\ \A x \in VarRecIds : VarCount(x) <= 1 + crashes
  /\ Cardinality({ReqOf(x) : x \in {y \in VarRecIds : VarCount(y) >= 3}}) <= 1

\* C03: start-up never fails on the state a crash leaves behind, and data stays readable
StartupOk == bad = "none"
Readable == Quiet => \A f \in VarFiles, s \in Slots : Blob(f, s).ok

\* C35: whenever everything queued has been flushed and checkpointed (what a graceful shutdown establishes before
\* the process exits) a restart finds nothing to replay, so queries return what they returned before
CleanWhenCheckpointed == (mode = "run" /\ Idle /\ queue = <<>> /\ lastC = 0 /\ bad = "none") => ToReplay(wal) = <<>>

\* C05: TG ids only grow; the WAL never holds a committed TG beyond a later checkpoint record it is not covered by
TgMonotone == [][tg' >= tg]_vars
\* rotation never discards a transaction that a restart would still have to replay
TruncateSafe == [][(wal' = <<>> /\ mode = "run") => ToReplay(wal) = <<>>]_vars

View == <<wal, walSync, fx, vidx, vdat, veof, unsynced, snap, pc, cur, todo, vtmp, lastC, req, acked, mode, rtodo, crashes, ckpts, bad, inflight, queue, rots>>
=============================================================================
