-------------------------------- MODULE Agg --------------------------------
(***************************************************************************)
(* Aggregates of marketstore (C21, C22, C23).                              *)
(*                                                                         *)
(* Three small transition systems share this module (one SPECIFICATION     *)
(* each, selected by the generated cfg):                                   *)
(*                                                                         *)
(*  SpecCandle : the candle accumulator of contrib/candler.  A state is    *)
(*               the row sequence fed so far plus the accumulator state of *)
(*               a FINE and of a COARSE candler (coarse = Ratio * fine;    *)
(*               Ratio = 1 for plain C21).  One transition = one iteration *)
(*               of the loop in TickCandler/CandleCandler.Accum            *)
(*               (GetCandle, AddCandle, sums, Count++).                    *)
(*               Abstract side: Candles(rows, cd), the declarative         *)
(*               definition of the property.                               *)
(*  SpecScalar : count / min / max / avg (package uda).  A state is the    *)
(*               sequence of batches handed to Accum plus the accumulator  *)
(*               structs.                                                  *)
(*  SpecGap    : uda/gap with an explicit threshold; a state is a          *)
(*               time-ordered row sequence plus the threshold.             *)
(*                                                                         *)
(* Places where the unchanged tree is known to differ from the property    *)
(* are named deviations (constant Deviations); the pure and the deviating  *)
(* implementation are carried side by side (st / stD) so that one TLC run  *)
(* yields the property's answer and the answer the tree is known to give.  *)
(***************************************************************************)
EXTENDS Integers, Sequences, FiniteSets, TLC, Json, SequencesExt

CONSTANTS
  \* ---- candle model
  Input,       \* "tick" (one price per row) | "candle" (open, high, low, close per row)
  NT,          \* time slots per fine window
  NW,          \* number of coarse windows
  Ratio,       \* fine windows per coarse window (1 = plain C21)
  FineCls,     \* "duration" (Sec/Min/H: time.Truncate) | "daily" (D: calendar date)
  CoarseCls,
  NP,          \* price levels 1..NP (Python maps them to increasing concrete values)
  MaxLen,      \* rows per sequence (all three models)
  PermLen,     \* the explicit permutation theorem is evaluated for sequences up to this length
  FullLen,     \* sequences up to this length are all emitted for replay ...
  SampleMod,   \* ... longer ones when (hash + SampleSalt) % SampleMod = 0
  SampleSalt,
  \* ---- scalar model
  NL,          \* value levels 1..NL
  TypeClass,   \* "wide" (float32, float64, int32, int64) | "narrow" (every other numeric column type)
  MaxBatches,  \* Accum calls per history
  \* ---- gap model
  SubDiv,      \* time units per second (1: whole seconds; 2: half seconds, i.e. a Nanoseconds column)
  TMax,        \* times 0..TMax (units)
  Thresholds,  \* set of thresholds (seconds)
  Deviations   \* subset of {"NarrowTypesDropped", "GapIgnoresNanos"}

VARIABLES inp,   \* input so far
          st,    \* implementation state, pure
          stD,   \* implementation state with the known deviations
          hit    \* deviations whose guard fired so far

vars == <<inp, st, stD, hit>>

SetMin(S) == CHOOSE x \in S : \A y \in S : x <= y
SetMax(S) == CHOOSE x \in S : \A y \in S : y <= x
SortedSeq(S) == SortSeq(SetToSeq(S), LAMBDA a, b : a < b)

(***************************************************************************)
(* utils/timeframe.go: CandleDuration                                      *)
(***************************************************************************)
FineCD   == [d |-> NT,         cls |-> FineCls]
CoarseCD == [d |-> Ratio * NT, cls |-> CoarseCls]
Times    == 0..(NW * Ratio * NT - 1)

\* calendar date of an instant / midnight of a date (suffix "D" works on ts.Date())
DateOf(cd, t)    == t \div cd.d
DateStart(cd, x) == x * cd.d

\* Truncate: "D" -> time.Date(yy, mm, dd, 0, ...), otherwise ts.Truncate(duration)
Truncate(cd, t) == IF cd.cls = "daily" THEN DateStart(cd, DateOf(cd, t)) ELSE t - (t % cd.d)
\* Ceil: "D" -> midnight of the date of ts+Day, otherwise (ts.Add(duration)).Truncate(duration)
Ceil(cd, t) == IF cd.cls = "daily" THEN DateStart(cd, DateOf(cd, t + cd.d)) ELSE Truncate(cd, t + cd.d)
\* IsWithin: "D" -> same calendar date, otherwise ts.Truncate(duration) == start
IsWithin(cd, ts, start) == IF cd.cls = "daily" THEN DateOf(cd, ts) = DateOf(cd, start) ELSE Truncate(cd, ts) = start

\* a window is [start, start + d) with start a multiple of d; Truncate/Ceil/IsWithin implement exactly that
WindowLaws == \A cd \in {FineCD, CoarseCD} : \A t \in Times :
                /\ Truncate(cd, t) % cd.d = 0
                /\ Truncate(cd, t) <= t /\ t < Ceil(cd, t)
                /\ Ceil(cd, t) = Truncate(cd, t) + cd.d
                /\ \A s \in {x \in Times : x % cd.d = 0} : IsWithin(cd, t, s) <=> (s = Truncate(cd, t))
ASSUME WindowLaws

(***************************************************************************)
(* Rows                                                                    *)
(***************************************************************************)
\* a tick row has one price (o = h = l = c); a candle row is a well-formed candle.  The summed /
\* averaged column carries the level of c (Python maps it through an exact affine map).
TickRows   == {[t |-> t, o |-> p, h |-> p, l |-> p, c |-> p] : t \in Times, p \in 1..NP}
CandleRows == {r \in [t : Times, o : 1..NP, h : 1..NP, l : 1..NP, c : 1..NP] :
                 r.l <= r.o /\ r.o <= r.h /\ r.l <= r.c /\ r.c <= r.h}
AllRows == IF Input = "tick" THEN TickRows ELSE CandleRows
Vol(r) == r.c

(***************************************************************************)
(* contrib/candler/candler.go, implementation-shaped                       *)
(***************************************************************************)
NoTime == -1      \* time.Time{} (IsZero)

NewCandle(start) == [start |-> start, o |-> 0, h |-> 0, l |-> 0, c |-> 0, ot |-> NoTime, ct |-> NoTime, sum |-> 0, cnt |-> 0]

\* Candle.AddCandle(ts, prices...): one price (tick) or four (candle)
AddCandle(ca, cd, ts, prices) ==
  LET open == prices[1]
      high == IF Len(prices) = 1 THEN prices[1] ELSE prices[2]
      low  == IF Len(prices) = 1 THEN prices[1] ELSE prices[3]
      clos == IF Len(prices) = 1 THEN prices[1] ELSE prices[4]
  IN IF ~IsWithin(cd, ts, ca.start) THEN ca
     ELSE LET c1 == IF ca.ot = NoTime                                     \* if ca.OpenTime.IsZero()
                    THEN [ca EXCEPT !.o = open, !.h = high, !.l = low, !.c = clos, !.ot = ts, !.ct = ts] ELSE ca
              c2 == IF ts < c1.ot THEN [c1 EXCEPT !.o = open, !.ot = ts] ELSE c1     \* ts.Before(OpenTime)
              c3 == IF ts > c2.ct THEN [c2 EXCEPT !.c = clos, !.ct = ts] ELSE c2     \* ts.After(CloseTime)
              c4 == IF high > c3.h THEN [c3 EXCEPT !.h = high] ELSE c3
              c5 == IF low < c4.l THEN [c4 EXCEPT !.l = low] ELSE c4
          IN c5

\* Candler: CMap plus the candle handed from one loop iteration to the next
EmptyAcc == [cm |-> <<>>, cur |-> NoTime]

\* Candler.GetCandle(t, candle): reuse the passed candle if it starts at Truncate(t), else look up / create
GetCandle(acc, cd, t) ==
  LET start == Truncate(cd, t)
  IN IF acc.cur # NoTime /\ acc.cm[acc.cur].start = start THEN acc
     ELSE IF start \in DOMAIN acc.cm THEN [acc EXCEPT !.cur = start]
     ELSE [cm |-> acc.cm @@ (start :> NewCandle(start)), cur |-> start]

\* one iteration of the loop in Accum: GetCandle, AddCandle, SumMap[name] += v, Count++
Step(acc, cd, r, kind) ==
  LET a1 == GetCandle(acc, cd, r.t)
      ca == AddCandle(a1.cm[a1.cur], cd, r.t, IF kind = "tick" THEN <<r.o>> ELSE <<r.o, r.h, r.l, r.c>>)
  IN [a1 EXCEPT !.cm[a1.cur] = [ca EXCEPT !.sum = @ + Vol(r), !.cnt = @ + 1]]

RECURSIVE Run(_, _, _, _)
Run(acc, cd, rows, kind) == IF rows = <<>> THEN acc ELSE Run(Step(acc, cd, Head(rows), kind), cd, Tail(rows), kind)

\* Candler.Output: candles sorted by start time; avg = SumMap / Count is left as the pair (sum, cnt)
Output(acc) == LET ks == SortedSeq(DOMAIN acc.cm)
               IN [k \in 1..Len(ks) |-> [w |-> acc.cm[ks[k]].start, o |-> acc.cm[ks[k]].o, h |-> acc.cm[ks[k]].h,
                                         l |-> acc.cm[ks[k]].l, c |-> acc.cm[ks[k]].c,
                                         sum |-> acc.cm[ks[k]].sum, cnt |-> acc.cm[ks[k]].cnt]]
OHLC(out) == [k \in 1..Len(out) |-> <<out[k].w, out[k].o, out[k].h, out[k].l, out[k].c>>]

\* the output of a candler read as candle rows for the next aggregate in a call chain
AsRows(out) == [k \in 1..Len(out) |-> [t |-> out[k].w, o |-> out[k].o, h |-> out[k].h, l |-> out[k].l, c |-> out[k].c]]

(***************************************************************************)
(* The property: declarative candles                                       *)
(***************************************************************************)
Starts(cd) == {s \in Times : s % cd.d = 0}
Members(rows, cd, s) == {k \in 1..Len(rows) : s <= rows[k].t /\ rows[k].t < s + cd.d}
RECURSIVE SumVol(_, _)
SumVol(rows, K) == IF K = {} THEN 0 ELSE LET k == CHOOSE x \in K : TRUE IN Vol(rows[k]) + SumVol(rows, K \ {k})

CandleOf(rows, cd, s) ==
  LET K    == Members(rows, cd, s)
      tmin == SetMin({rows[k].t : k \in K})
      tmax == SetMax({rows[k].t : k \in K})
  IN [w |-> s,
      openSet  |-> {rows[k].o : k \in {j \in K : rows[j].t = tmin}},    \* the price of AN earliest row
      closeSet |-> {rows[k].c : k \in {j \in K : rows[j].t = tmax}},    \* the price of A latest row
      high |-> SetMax({rows[k].h : k \in K}),
      low  |-> SetMin({rows[k].l : k \in K}),
      sum  |-> SumVol(rows, K),
      cnt  |-> Cardinality(K)]

\* one candle per window that contains rows, in time order
Candles(rows, cd) == LET ks == SortedSeq({s \in Starts(cd) : Members(rows, cd, s) # {}})
                     IN [k \in 1..Len(ks) |-> CandleOf(rows, cd, ks[k])]

MatchesOHLC(out, decl) == /\ Len(out) = Len(decl)
                          /\ \A k \in 1..Len(out) : /\ out[k].w = decl[k].w
                                                    /\ out[k].o \in decl[k].openSet /\ out[k].c \in decl[k].closeSet
                                                    /\ out[k].h = decl[k].high /\ out[k].l = decl[k].low
Matches(out, decl) == /\ MatchesOHLC(out, decl)
                      /\ \A k \in 1..Len(out) : out[k].sum = decl[k].sum /\ out[k].cnt = decl[k].cnt

DistinctTimes(rows) == \A i, j \in 1..Len(rows) : i # j => rows[i].t # rows[j].t

(***************************************************************************)
(* SpecCandle                                                              *)
(***************************************************************************)
InitCandle == /\ inp = <<>> /\ st = [f |-> EmptyAcc, c |-> EmptyAcc] /\ stD = 0 /\ hit = {}
AddRow(r) == /\ Len(inp) < MaxLen
             /\ inp' = Append(inp, r)
             /\ st' = [f |-> Step(st.f, FineCD, r, Input), c |-> Step(st.c, CoarseCD, r, Input)]
             /\ UNCHANGED <<stD, hit>>
NextCandle == \E r \in AllRows : AddRow(r)
SpecCandle == InitCandle /\ [][NextCandle]_vars

\* C21 (E1): the accumulator refines the declarative candles, for both durations
RefinesCandles == /\ Matches(Output(st.c), Candles(inp, CoarseCD))
                  /\ (Ratio > 1 => Matches(Output(st.f), Candles(inp, FineCD)))

\* C21: for distinct timestamps the result is a function of the row SET (open/close sets are singletons, so
\* RefinesCandles pins the output), and -- evaluated explicitly on short sequences -- every permutation of the
\* input drives the accumulator to the same open, high, low, close
PermuteSeq(rows, p) == [k \in 1..Len(rows) |-> rows[p[k]]]
OrderIndependent ==
  DistinctTimes(inp) =>
    LET decl == Candles(inp, CoarseCD)
        mine == OHLC(Output(st.c))
    IN /\ \A k \in 1..Len(decl) : Cardinality(decl[k].openSet) = 1 /\ Cardinality(decl[k].closeSet) = 1
       /\ (Len(inp) <= PermLen =>
             \A p \in Permutations(1..Len(inp)) : OHLC(Output(Run(EmptyAcc, CoarseCD, PermuteSeq(inp, p), Input))) = mine)

\* C22 (E1): feeding the fine candles to a coarse candle-candler gives the OHLC of the direct coarse aggregation
\* (exactly, even on ties, in the implementation-shaped model) and satisfies the declarative coarse candles
Composes == LET comp == Output(Run(EmptyAcc, CoarseCD, AsRows(Output(st.f)), "candle"))
            IN /\ OHLC(comp) = OHLC(Output(st.c))
               /\ MatchesOHLC(comp, Candles(inp, CoarseCD))

\* seeded sampling of the enumerated space for replay into the real code
RECURSIVE Hash(_, _)
Hash(rows, h) == IF rows = <<>> THEN h
                 ELSE LET r == Head(rows) IN Hash(Tail(rows), (h * 31 + r.t * 7 + r.o * 3 + r.h * 5 + r.l * 11 + r.c + 1) % 10007)
Sampled(rows) == Len(rows) <= FullLen \/ (Hash(rows, 17) + SampleSalt) % SampleMod = 0

RowOut(r) == <<r.t, r.o, r.h, r.l, r.c>>
EmitCandle == Sampled(inp) =>
  PrintT(<<"CASE", ToJson([rows |-> [k \in 1..Len(inp) |-> RowOut(inp[k])],
                           exp |-> Candles(inp, CoarseCD),
                           expf |-> IF Ratio = 1 THEN <<>> ELSE Candles(inp, FineCD),
                           impl |-> OHLC(Output(st.c)),
                           distinct |-> DistinctTimes(inp)])>>)

(***************************************************************************)
(* uda/count, uda/min, uda/max, uda/avg, implementation-shaped             *)
(***************************************************************************)
Panic == -1      \* the call panicked (index out of range)
Unset == 0       \* the zero value of an accumulator that was never initialised
Levels == 1..NL
Batches == UNION {[1..n -> Levels] : n \in 0..MaxLen}

\* uda.ColumnToFloat32: the type switch converts []float32, []float64, []int, []int64, []int32;
\* every other column type falls through and yields a nil slice with a nil error ("NarrowTypesDropped")
ConvF32(col, devs) == IF TypeClass = "narrow" /\ "NarrowTypesDropped" \in devs THEN <<>> ELSE col

RECURSIVE FoldMin(_, _)
FoldMin(v, col) == IF col = <<>> THEN v ELSE FoldMin(IF Head(col) < v THEN Head(col) ELSE v, Tail(col))
RECURSIVE FoldMax(_, _)
FoldMax(v, col) == IF col = <<>> THEN v ELSE FoldMax(IF Head(col) > v THEN Head(col) ELSE v, Tail(col))
RECURSIVE SumSeq(_)
SumSeq(col) == IF col = <<>> THEN 0 ELSE Head(col) + SumSeq(Tail(col))

\* Min.Accum / Max.Accum: empty batch -> Output(); first batch initialises from inputCol[0]; loop
ExtAccum(m, batch, devs, Fold(_, _)) ==
  IF Len(batch) = 0 THEN [m EXCEPT !.out = m.v]
  ELSE LET col == ConvF32(batch, devs)
       IN IF ~m.init /\ col = <<>> THEN [m EXCEPT !.out = Panic]          \* inputCol[0] on an empty slice
          ELSE LET v0 == IF ~m.init THEN col[1] ELSE m.v
                   v1 == Fold(v0, col)
               IN [init |-> TRUE, v |-> v1, out |-> v1]

\* Avg.Accum: Avg += float64(value); Count++   (Output divides: 0/0 = NaN when Count = 0)
AvgAccum(a, batch, devs) ==
  IF Len(batch) = 0 THEN a
  ELSE LET col == ConvF32(batch, devs) IN [sum |-> a.sum + SumSeq(col), n |-> a.n + Len(col)]

ScalarInit == [cnt |-> 0, mn |-> [init |-> FALSE, v |-> Unset, out |-> Unset], mx |-> [init |-> FALSE, v |-> Unset, out |-> Unset],
               avg |-> [sum |-> 0, n |-> 0]]
ScalarAccum(s, batch, devs) ==
  [cnt |-> s.cnt + Len(batch),                                             \* Count.Accum: Sum += cols.Len()
   mn  |-> ExtAccum(s.mn, batch, devs, FoldMin),
   mx  |-> ExtAccum(s.mx, batch, devs, FoldMax),
   avg |-> AvgAccum(s.avg, batch, devs)]

RECURSIVE Flatten(_)
Flatten(bs) == IF bs = <<>> THEN <<>> ELSE Head(bs) \o Flatten(Tail(bs))
Elems(s) == {s[k] : k \in 1..Len(s)}

InitScalar == /\ inp = <<>> /\ st = ScalarInit /\ stD = ScalarInit /\ hit = {}
AccumBatch(b) == /\ Len(inp) < MaxBatches
                 /\ Len(Flatten(inp)) + Len(b) <= MaxLen
                 /\ inp' = Append(inp, b)
                 /\ st'  = ScalarAccum(st, b, {})
                 /\ stD' = ScalarAccum(stD, b, Deviations)
                 /\ hit' = hit \cup (IF "NarrowTypesDropped" \in Deviations /\ TypeClass = "narrow" /\ Len(b) > 0
                                     THEN {"NarrowTypesDropped"} ELSE {})
NextScalar == \E b \in Batches : AccumBatch(b)
SpecScalar == InitScalar /\ [][NextScalar]_vars

\* C23 (E1): count is the number of rows; min / max / mean over all rows fed so far
ScalarRefines == LET all == Flatten(inp) IN
                 /\ st.cnt = Len(all)
                 /\ all # <<>> => /\ st.mn.init /\ st.mn.v = SetMin(Elems(all)) /\ st.mn.out = st.mn.v
                                  /\ st.mx.init /\ st.mx.v = SetMax(Elems(all)) /\ st.mx.out = st.mx.v
                                  /\ st.avg.sum = SumSeq(all) /\ st.avg.n = Len(all)
ScalarDeviationsExplainAll == (hit = {}) => stD = st

EmitScalar == PrintT(<<"CASE", ToJson([batches |-> inp,
                                       count |-> Len(Flatten(inp)),
                                       min |-> IF Flatten(inp) = <<>> THEN 0 ELSE SetMin(Elems(Flatten(inp))),
                                       max |-> IF Flatten(inp) = <<>> THEN 0 ELSE SetMax(Elems(Flatten(inp))),
                                       sum |-> SumSeq(Flatten(inp)),
                                       known |-> [count |-> stD.cnt, min |-> stD.mn.out, max |-> stD.mx.out,
                                                  sum |-> stD.avg.sum, n |-> stD.avg.n],
                                       hit |-> hit])>>)

(***************************************************************************)
(* uda/gap with an explicit threshold, implementation-shaped               *)
(***************************************************************************)
\* the time a row contributes: the property speaks of the row's time (Epoch and, when present, Nanoseconds);
\* Gap.Accum reads the Epoch column only ("GapIgnoresNanos")
RowTime(t, devs) == IF "GapIgnoresNanos" \in devs THEN (t \div SubDiv) * SubDiv ELSE t

\* Gap.Accum: fewer than two rows -> nothing; gaps = epochs[1:] - epochs[:size-1]; bigGapIdxsByThreshold keeps x > threshold
GapAccum(ts, th, devs) ==
  IF Len(ts) < 2 THEN <<>>
  ELSE LET gaps == [k \in 1..(Len(ts) - 1) |-> RowTime(ts[k + 1], devs) - RowTime(ts[k], devs)]
       IN SelectSeq([k \in 1..(Len(ts) - 1) |-> k], LAMBDA k : gaps[k] > th * SubDiv)

\* the property: exactly the consecutive pairs whose time difference exceeds the threshold
GapPairs(ts, th) == {k \in 1..(Len(ts) - 1) : ts[k + 1] - ts[k] > th * SubDiv}

InitGap == /\ inp \in [ts : {<<>>}, th : Thresholds] /\ st = <<>> /\ stD = <<>> /\ hit = {}
AddTime(t) == /\ Len(inp.ts) < MaxLen
              /\ (IF inp.ts = <<>> THEN TRUE ELSE t >= inp.ts[Len(inp.ts)])  \* query results are time ordered
              /\ inp' = [inp EXCEPT !.ts = Append(@, t)]
              /\ st'  = GapAccum(inp'.ts, inp.th, {})
              /\ stD' = GapAccum(inp'.ts, inp.th, Deviations)
              /\ hit' = hit \cup (IF "GapIgnoresNanos" \in Deviations /\ t % SubDiv # 0 THEN {"GapIgnoresNanos"} ELSE {})
NextGap == \E t \in 0..TMax : AddTime(t)
SpecGap == InitGap /\ [][NextGap]_vars

GapRefines == st = SortedSeq(GapPairs(inp.ts, inp.th))
GapDeviationsExplainAll == (hit = {}) => stD = st

EmitGap == PrintT(<<"CASE", ToJson([ts |-> inp.ts, th |-> inp.th, pairs |-> SortedSeq(GapPairs(inp.ts, inp.th)),
                                    known |-> stD, hit |-> hit])>>)
=============================================================================
