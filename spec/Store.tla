------------------------------- MODULE Store -------------------------------
(***************************************************************************)
(* Data model of one marketstore bucket (C08, C09, C11, C12).              *)
(*                                                                         *)
(* Abstract part  : a fixed-length bucket is a last-writer-wins map from   *)
(*                  intervals to values; a variable-length bucket is a bag *)
(*                  of records kept in time order.  This IS the property.  *)
(* Implementation : year files made of slots.  A write request goes through*)
(* shaped part      the grouping loop of Writer.WriteRecords (prevIndex /  *)
(*                  prevYear / current command), commands are applied slot *)
(*                  by slot, a query scans year files in order and skips   *)
(*                  slots whose stored index is 0; the range is turned into*)
(*                  slot offsets per file, rows are trimmed to the range,  *)
(*                  the row limit is applied (readSecondStage).            *)
(*                                                                         *)
(* Places where the code is known to differ from the property are named    *)
(* deviations (constant Deviations); the module carries the pure and the   *)
(* deviating implementation side by side so that one TLC run yields, for   *)
(* every history, the property's answer and the answer the unchanged tree  *)
(* is known to give.                                                       *)
(***************************************************************************)
EXTENDS Integers, Sequences, FiniteSets, TLC, Json, SequencesExt

CONSTANTS NI0,        \* number of interval ids in year 0 (ids 1..NI0); id 1 is Jan 1 00:00
          NI1,        \* number of interval ids in year 1 (ids NI0+1..NI0+NI1)
          NV,         \* values 1..NV
          NO,         \* offset classes inside an interval 0..NO-1 (variable records; fixed rows use 0)
          Kind,       \* "fixed" | "variable"
          TfClass,    \* "intraday" | "daily"
          MaxRows,    \* rows per write request
          Depth,      \* requests per history
          EdgeOff,    \* offset class (or 99 = none) whose tick value decodes to within 5 ns below a whole second
          Deviations  \* subset of {"DailyJan1Hole", "PrevYearStale", "LateSecond"}: known behaviour of the tree

VARIABLES abs,      \* abstract content
          implP,    \* implementation state, pure (no deviation)
          implD,    \* implementation state with the known deviations
          devHit,   \* deviations whose guard fired so far
          hist      \* history of requests with the expected results (output only, hidden by VIEW)

vars == <<abs, implP, implD, devHit, hist>>

NI   == NI0 + NI1
Ivs  == 1..NI
Offs == 0..(NO - 1)
YearOf(i) == IF i <= NI0 THEN 0 ELSE 1
Pos(i)    == IF i <= NI0 THEN i - 1 ELSE i - NI0 - 1        \* intervals since Jan 1
IsFirst(i) == Pos(i) = 0
MaxSlot == (IF NI0 > NI1 THEN NI0 ELSE NI1) + 1

Row  == [i : Ivs, o : Offs, v : 1..NV]
Rows == UNION {[1..n -> Row] : n \in 1..MaxRows}

(***************************************************************************)
(* Abstract semantics                                                      *)
(***************************************************************************)
AbsInit == IF Kind = "fixed" THEN [i \in Ivs |-> 0] ELSE <<>>

RECURSIVE AbsWriteFixed(_, _)
AbsWriteFixed(m, rows) == IF rows = <<>> THEN m
                          ELSE AbsWriteFixed([m EXCEPT ![Head(rows).i] = Head(rows).v], Tail(rows))
AbsWrite(a, rows) == IF Kind = "fixed" THEN AbsWriteFixed(a, rows) ELSE a \o rows

\* what an unrestricted query must return: fixed = one row per written interval ascending;
\* variable = every record, sorted by (interval, offset) -- ties in any order (compared as bags per time)
Less(r1, r2) == r1.i < r2.i \/ (r1.i = r2.i /\ r1.o < r2.o)
AbsRead(a) == IF Kind = "fixed"
              THEN LET S == {i \in Ivs : a[i] # 0}
                   IN  SortSeq(SetToSeq({[i |-> i, o |-> 0, v |-> a[i], late |-> FALSE] : i \in S}), Less)
              ELSE SortSeq([k \in 1..Len(a) |-> [i |-> a[k].i, o |-> a[k].o, v |-> a[k].v, late |-> FALSE]], Less)   \* SortSeq is stable w.r.t. nothing in particular; compare as time-keyed bags

(***************************************************************************)
(* Implementation-shaped semantics                                         *)
(***************************************************************************)
NoCell == [idx |-> 0, recs |-> <<>>]
ImplInit == [y \in 0..1 |-> [s \in 0..MaxSlot |-> NoCell]]

\* io.TimeToIndex: 1 + intervals since Jan 1; the daily timeframe uses YearDay-1, i.e. 0 on Jan 1
Slot(i, devs) == Pos(i) + (IF TfClass = "daily" /\ "DailyJan1Hole" \in devs THEN 0 ELSE 1)
IvOf(y, s, devs) == LET p == s - (IF TfClass = "daily" /\ "DailyJan1Hole" \in devs THEN 0 ELSE 1)
                    IN  IF y = 0 THEN p + 1 ELSE NI0 + p + 1

NoCmd == [y |-> -1, s |-> -1, recs |-> <<>>]
\* Writer.WriteRecords: rows with the same (index, year) as the previous row extend the current
\* command (fixed: replace its payload, variable: append), otherwise the command is queued and a
\* new one started.  prevIndex is refreshed there; prevYear is refreshed only in the pure variant.
RECURSIVE Group(_, _, _)
Group(rows, acc, devs) ==
  IF rows = <<>> THEN (IF acc.cc = NoCmd THEN acc.out ELSE Append(acc.out, acc.cc))
  ELSE LET r == Head(rows)
           y == YearOf(r.i)
           s == Slot(r.i, devs)
           rec == [o |-> r.o, v |-> r.v]
       IN IF acc.cc = NoCmd
          THEN Group(Tail(rows), [pi |-> s, py |-> y, cc |-> [y |-> y, s |-> s, recs |-> <<rec>>], out |-> <<>>], devs)
          ELSE IF s = acc.pi /\ y = acc.py
          THEN Group(Tail(rows), [acc EXCEPT !.cc.recs = IF Kind = "fixed" THEN <<rec>> ELSE @ \o <<rec>>], devs)
          ELSE Group(Tail(rows), [pi |-> s,
                                  py |-> IF "PrevYearStale" \in devs THEN acc.py ELSE y,
                                  cc |-> [y |-> y, s |-> s, recs |-> <<rec>>],
                                  out |-> Append(acc.out, acc.cc)], devs)

Commands(rows, devs) == Group(rows, [pi |-> -1, py |-> -1, cc |-> NoCmd, out |-> <<>>], devs)

\* stable sort of a cell's records by offset (sort.Stable(NewByIntervalTicks))
RECURSIVE InsertSorted(_, _)
InsertSorted(sq, r) == IF sq = <<>> THEN <<r>>
                       ELSE IF Last(sq).o <= r.o THEN Append(sq, r)
                       ELSE Append(InsertSorted(Front(sq), r), Last(sq))
RECURSIVE StableSort(_, _)
StableSort(done, todo) == IF todo = <<>> THEN done ELSE StableSort(InsertSorted(done, Head(todo)), Tail(todo))

ApplyCmd(f, c) ==
  IF Kind = "fixed"
  THEN [f EXCEPT ![c.y][c.s] = [idx |-> c.s, recs |-> c.recs]]
  ELSE [f EXCEPT ![c.y][c.s] = [idx |-> c.s, recs |-> StableSort(<<>>, (IF @.idx # 0 THEN @.recs ELSE <<>>) \o c.recs)]]

RECURSIVE ApplyAll(_, _)
ApplyAll(f, cmds) == IF cmds = <<>> THEN f ELSE ApplyAll(ApplyCmd(f, Head(cmds)), Tail(cmds))

ImplWrite(f, rows, devs) == ApplyAll(f, Commands(rows, devs))

\* scan: year files in order, data area = slots 1..MaxSlot, a stored index of 0 marks a hole
\* GetTimeFromTicks rounds the second up but keeps the nanoseconds of the unrounded value: a record whose
\* ticks decode to within 5 ns below a whole second is reported one second late ("LateSecond")
RECURSIVE CellRows(_, _, _, _)
CellRows(i, recs, k, devs) ==
  IF k > Len(recs) THEN <<>>
  ELSE <<[i |-> i, o |-> recs[k].o, v |-> recs[k].v, late |-> ("LateSecond" \in devs /\ recs[k].o = EdgeOff)]>>
       \o CellRows(i, recs, k + 1, devs)
RECURSIVE Scan(_, _, _, _)
Scan(f, y, s, devs) ==
  IF y > 1 THEN <<>>
  ELSE IF s > MaxSlot THEN Scan(f, y + 1, 1, devs)
  ELSE (IF f[y][s].idx # 0 /\ IvOf(y, s, devs) \in Ivs THEN CellRows(IvOf(y, s, devs), f[y][s].recs, 1, devs) ELSE <<>>)
       \o Scan(f, y, s + 1, devs)
ImplRead(f, devs) == Scan(f, 0, 1, devs)

(***************************************************************************)
(* Which deviations does a request exercise?                               *)
(***************************************************************************)
HitJan1(rows) == TfClass = "daily" /\ \E k \in 1..Len(rows) : IsFirst(rows[k].i)
HitStale(rows) == Commands(rows, {}) # Commands(rows, {"PrevYearStale"})
HitLate(rows) == Kind = "variable" /\ \E k \in 1..Len(rows) : rows[k].o = EdgeOff
Hits(rows) == (IF "DailyJan1Hole" \in Deviations /\ HitJan1(rows) THEN {"DailyJan1Hole"} ELSE {})
         \cup (IF "LateSecond" \in Deviations /\ HitLate(rows) THEN {"LateSecond"} ELSE {})
         \cup (IF "PrevYearStale" \in Deviations /\ HitStale(rows) THEN {"PrevYearStale"} ELSE {})

(***************************************************************************)
(* Behaviours: histories of write requests                                 *)
(***************************************************************************)
Init == /\ abs = AbsInit /\ implP = ImplInit /\ implD = ImplInit /\ devHit = {} /\ hist = <<>>

RowOK(r) == Kind = "variable" \/ r.o = 0

Write(rows) ==
  /\ Len(hist) < Depth
  /\ \A k \in 1..Len(rows) : RowOK(rows[k])
  /\ abs'   = AbsWrite(abs, rows)
  /\ implP' = ImplWrite(implP, rows, {})
  /\ implD' = ImplWrite(implD, rows, Deviations)
  /\ devHit' = devHit \cup Hits(rows)
  /\ hist'  = Append(hist, [act |-> "Write", rows |-> rows,
                            expect |-> AbsRead(abs'), known |-> ImplRead(implD', Deviations), hit |-> devHit'])

Next == \E rows \in Rows : Write(rows)

Spec == Init /\ [][Next]_vars

View == <<abs, implP, implD, devHit, Len(hist)>>

(***************************************************************************)
(* Properties (E1)                                                         *)
(***************************************************************************)
\* same rows at the same times, as a bag per (interval, offset) key
SameBag(s1, s2) == /\ Len(s1) = Len(s2)
                   /\ \A r \in Range(s1) \cup Range(s2) :
                        Cardinality({k \in 1..Len(s1) : s1[k] = r}) = Cardinality({k \in 1..Len(s2) : s2[k] = r})
TimeOrdered(s) == \A k \in 1..(Len(s) - 1) : ~Less(s[k + 1], s[k])

\* the pure implementation refines the abstract bucket: C08 (fixed) / C09 (variable)
ImplRefinesAbs == LET r == ImplRead(implP, {}) IN
                  /\ TimeOrdered(r)
                  /\ IF Kind = "fixed" THEN r = AbsRead(abs) ELSE SameBag(r, AbsRead(abs))
\* the deviating implementation differs from the property only when a listed deviation was exercised
DeviationsExplainAll == (devHit = {}) => ImplRead(implD, Deviations) = ImplRead(implP, {})
\* every listed deviation is really reachable and really matters (non-vacuity is read from coverage)

\* output of behaviours for replay into the real code (simulation mode: printed when the history is complete)
Emit == (Len(hist) = Depth) => PrintT(<<"BEH", ToJson(hist)>>)
=============================================================================
