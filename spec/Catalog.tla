------------------------------- MODULE Catalog -------------------------------
(***************************************************************************)
(* The catalog: in-memory directory tree vs the files on disk (C17).       *)
(*   catalog/catalog.go   AddTimeBucket   (root lock; mkdir loop, year     *)
(*                        file, RESCAN of the symbol's subtree with        *)
(*                        NewDirectory, addSubdir replaces the subtree and *)
(*                        merges its directMap)                            *)
(*                        GetSubDirectoryAndAddFile / AddFile (root lock;  *)
(*                        directMap lookup, create year file, register it  *)
(*                        in the leaf object's datafile map)               *)
(*                        RemoveTimeBucket (NO root lock: find the tree    *)
(*                        symbol/timeframe/attrgroup, RemoveAll(leaf),     *)
(*                        removeSubDir bottom-up, RemoveAll of parents that*)
(*                        have no sub-directories left IN THE OBJECTS THAT *)
(*                        WERE FOUND, root.removeSubDir)                   *)
(*   executor/writer.go   WriteCSM: bucket missing in directMap =>         *)
(*                        AddTimeBucket(year of first row); row of another *)
(*                        year than the latest file => AddFile             *)
(*   frontend             Create (year = current year), Destroy, ListSymbols*)
(*                        (tree walk), Query (directMap -> leaf -> files)  *)
(*                                                                         *)
(* Objects matter: a rescan creates NEW Directory objects for the whole    *)
(* symbol subtree ("generation").  A goroutine that found objects of an    *)
(* older generation keeps mutating those.  The model therefore keeps       *)
(* generations: gens[g] = [sym, leaves, files], root[sym] = attached       *)
(* generation, dmap[b] = generation whose leaf object directMap points to. *)
(*                                                                         *)
(* Every bucket of one symbol lives under ONE timeframe directory, so the  *)
(* timeframe node and the symbol node have sub-directories exactly when the*)
(* generation has leaves.                                                  *)
(***************************************************************************)
EXTENDS Integers, Sequences, FiniteSets, TLC, Json

CONSTANTS Buckets,     \* e.g. {"A/X", "A/Y", "B/X"}   (symbol/attrgroup; one timeframe)
          Years,       \* e.g. {0, 1}     0 = the current year (the one Create uses)
          Procs,       \* e.g. {1, 2}
          MaxOps,      \* operations per process
          MaxGen,      \* bound on generations (the first three are reserved for the initial state)
          PreSets,     \* set of sets of buckets that exist initially
          Deviations   \* {"DestroyNoRootLock"}: RemoveTimeBucket runs without the root lock (unchanged tree)

Sym(b) == IF b \in {"A/X", "A/Y", "A/Z"} THEN "A" ELSE IF b \in {"B/X", "B/Y"} THEN "B" ELSE "C"
Syms == {Sym(b) : b \in Buckets}
NoOp == [k |-> "none", b |-> "", y |-> 0]
Ops == [k : {"create"}, b : Buckets, y : {0}] \cup [k : {"write"}, b : Buckets, y : Years] \cup [k : {"destroy"}, b : Buckets, y : {0}]

VARIABLES disk,     \* set of <<b, y>> : year files on disk
          gens,     \* g -> [sym, leaves : SUBSET Buckets, files : SUBSET (Buckets \X Years)]
          ngen,
          root,     \* sym -> g (0 = no sub-directory of the root)
          dmap,     \* b -> g  (0 = not in directMap)
          lock,     \* holder of the root's write lock (0 = free)
          pc, op, loc, nops,   \* per process
          hist, outcome, pre

vars == <<disk, gens, ngen, root, dmap, lock, pc, op, loc, nops, hist, outcome, pre>>

NoLoc == [g |-> 0, snap |-> {}, snapl |-> {}, kind |-> "", leafgone |-> FALSE]
EmptyGen == [sym |-> "", leaves |-> {}, files |-> {}]

\* Initial state: the buckets of `pre` were created one after the other (each with the current year's file) by a
\* sequential prefix; what matters of that prefix is one attached generation per symbol.  PreSets = {{}} starts empty.
SymIdx(s) == IF s = "A" THEN 1 ELSE IF s = "B" THEN 2 ELSE 3
PreGen(P, g) == LET ss == {s \in Syms : SymIdx(s) = g /\ \E b \in P : Sym(b) = s} IN
                IF ss = {} THEN EmptyGen
                ELSE LET s == CHOOSE x \in ss : TRUE IN [sym |-> s, leaves |-> {b \in P : Sym(b) = s}, files |-> {<<b, 0>> : b \in {c \in P : Sym(c) = s}}]
Init == /\ pre \in PreSets
        /\ disk = {<<b, 0>> : b \in pre} /\ gens = [g \in 1..MaxGen |-> PreGen(pre, g)] /\ ngen = 3
        /\ root = [s \in Syms |-> IF \E b \in pre : Sym(b) = s THEN SymIdx(s) ELSE 0]
        /\ dmap = [b \in Buckets |-> IF b \in pre THEN SymIdx(Sym(b)) ELSE 0]
        /\ lock = 0 /\ pc = [p \in Procs |-> "idle"] /\ op = [p \in Procs |-> NoOp]
        /\ loc = [p \in Procs |-> NoLoc] /\ nops = [p \in Procs |-> 0]
        /\ hist = <<>> /\ outcome = <<>>

DiskBuckets == {f[1] : f \in disk}
FilesOf(S, b) == {f \in S : f[1] = b}
SymFiles(S, s) == {f \in S : Sym(f[1]) = s}
Max(S) == CHOOSE x \in S : \A y \in S : y <= x

H(p, a, u) == hist' = Append(hist, [proc |-> p, act |-> a, until |-> u, op |-> op[p]])
HStart(p, o, u) == hist' = Append(hist, [proc |-> p, act |-> "Begin", until |-> u, op |-> o])
Out(p, o, r) == outcome' = Append(outcome, [proc |-> p, op |-> o, res |-> r])

\* ------------------------------------------------------------------------------------------------
\* a process picks its next operation
\* ------------------------------------------------------------------------------------------------
Begin(p) ==
  /\ pc[p] = "idle" /\ nops[p] < MaxOps
  /\ \E o \in Ops :
       /\ op' = [op EXCEPT ![p] = o] /\ nops' = [nops EXCEPT ![p] = @ + 1]
       /\ loc' = [loc EXCEPT ![p] = NoLoc]
       /\ pc' = [pc EXCEPT ![p] = CASE o.k = "create" -> "c_lock"
                                    [] o.k = "write" -> "w_lookup"
                                    [] o.k = "destroy" -> "d_find"]
       /\ HStart(p, o, "begin")
  /\ UNCHANGED <<disk, gens, ngen, root, dmap, lock, outcome, pre>>

\* ------------------------------------------------------------------------------------------------
\* AddTimeBucket(b, year y)   [used by Create (y = 0) and by the writer for a bucket it cannot find]
\*   c_lock   : d.Lock()                                    ... parks at Cat.add.locked
\*   c_file   : mkdir loop + newTimeBucketInfoFromTemplate  ... parks at Cat.add.created  (or fails: file exists)
\*   c_scan   : NewDirectory(root/sym)  = snapshot of the disk subtree   ... parks at Cat.add.scanned
\*   c_attach : addSubdir (replace subtree, merge directMap), Unlock     ... done
\* ------------------------------------------------------------------------------------------------
CLock(p) ==
  /\ pc[p] = "c_lock" /\ lock = 0 /\ lock' = p
  /\ pc' = [pc EXCEPT ![p] = "c_file"] /\ H(p, "CLock", "Cat.add.locked")
  /\ UNCHANGED <<disk, gens, ngen, root, dmap, op, loc, nops, outcome, pre>>
CFile(p) ==
  /\ pc[p] = "c_file"
  /\ LET b == op[p].b  y == op[p].y IN
     IF <<b, y>> \in disk
     THEN \* "Can not overwrite file": Create reports the error; the writer ignores it and goes on
          /\ lock' = 0 /\ UNCHANGED <<disk>>
          /\ IF op[p].k = "create"
             THEN /\ pc' = [pc EXCEPT ![p] = "idle"] /\ Out(p, op[p], "exists") /\ H(p, "CFileExists", "done")
             ELSE \* the writer goes on with the TimeBucketInfo it built itself and writes into the existing file
                  /\ pc' = [pc EXCEPT ![p] = "idle"] /\ Out(p, op[p], "ok") /\ H(p, "CFileExists", "done")
     ELSE /\ disk' = disk \cup {<<b, y>>} /\ UNCHANGED <<lock, outcome>>
          /\ pc' = [pc EXCEPT ![p] = "c_scan"] /\ H(p, "CFile", "Cat.add.created")
  /\ UNCHANGED <<gens, ngen, root, dmap, op, loc, nops, pre>>
CScan(p) ==
  /\ pc[p] = "c_scan"
  /\ IF SymFiles(disk, Sym(op[p].b)) = {}
     THEN \* the symbol's directory was removed meanwhile (pruned by a destroy): NewDirectory fails, the request fails
          /\ lock' = 0 /\ loc' = loc /\ pc' = [pc EXCEPT ![p] = "idle"] /\ Out(p, op[p], "error") /\ H(p, "CScanGone", "done")
     ELSE /\ loc' = [loc EXCEPT ![p] = [NoLoc EXCEPT !.snap = SymFiles(disk, Sym(op[p].b)), !.snapl = {f[1] : f \in SymFiles(disk, Sym(op[p].b))}]]
          /\ pc' = [pc EXCEPT ![p] = "c_attach"] /\ H(p, "CScan", "Cat.add.scanned") /\ UNCHANGED <<lock, outcome>>
  /\ UNCHANGED <<disk, gens, ngen, root, dmap, op, nops, pre>>
CAttach(p) ==
  /\ pc[p] = "c_attach" /\ ngen < MaxGen
  /\ LET g == (IF ngen < 3 THEN 4 ELSE ngen + 1)  s == Sym(op[p].b) IN
     /\ ngen' = g
     /\ gens' = [gens EXCEPT ![g] = [sym |-> s, leaves |-> loc[p].snapl, files |-> loc[p].snap]]
     /\ root' = [root EXCEPT ![s] = g]
     /\ dmap' = [b \in Buckets |-> IF b \in loc[p].snapl THEN g ELSE dmap[b]]   \* Store overwrites; nothing is deleted
  /\ lock' = 0
  /\ IF op[p].k = "create"
     THEN /\ pc' = [pc EXCEPT ![p] = "idle"] /\ Out(p, op[p], "ok")
     ELSE /\ pc' = [pc EXCEPT ![p] = "idle"] /\ Out(p, op[p], "ok")   \* the writer then writes into the file it created
  /\ H(p, "CAttach", "done")
  /\ UNCHANGED <<disk, op, loc, nops, pre>>

\* ------------------------------------------------------------------------------------------------
\* the writer:  GetLatestTimeBucketInfoFromKey (directMap lookup, latest year of the leaf object)
\*   not found            -> AddTimeBucket(b, y)  (c_lock ...)
\*   found, latest = y    -> write into it
\*   found, latest # y    -> GetSubDirectoryAndAddFile: root lock, directMap lookup again, AddFile
\* ------------------------------------------------------------------------------------------------
LeafFiles(g, b) == FilesOf(gens[g].files, b)
WLookup(p) ==
  /\ pc[p] = "w_lookup" /\ lock = 0     \* GetOwningSubDirectory takes the root's read lock
  /\ LET b == op[p].b  y == op[p].y  g == dmap[b] IN
     IF g = 0 \/ LeafFiles(g, b) = {}
     THEN /\ pc' = [pc EXCEPT ![p] = "c_lock"] /\ UNCHANGED outcome /\ H(p, "WLookupMiss", "WriteCSM.lookedUp")
     ELSE IF Max({f[2] : f \in LeafFiles(g, b)}) = y
          THEN /\ pc' = [pc EXCEPT ![p] = "idle"] /\ Out(p, op[p], "ok") /\ H(p, "WLookupHit", "WriteCSM.lookedUp")
          ELSE /\ pc' = [pc EXCEPT ![p] = "a_lock"] /\ UNCHANGED outcome /\ H(p, "WLookupYear", "WriteCSM.lookedUp")
  /\ UNCHANGED <<disk, gens, ngen, root, dmap, lock, op, loc, nops, pre>>
ALock(p) ==
  /\ pc[p] = "a_lock" /\ lock = 0
  /\ IF dmap[op[p].b] = 0
     THEN /\ pc' = [pc EXCEPT ![p] = "idle"] /\ Out(p, op[p], "error") /\ lock' = 0 /\ loc' = loc /\ H(p, "ALockGone", "done")
     ELSE /\ lock' = p /\ loc' = [loc EXCEPT ![p] = [NoLoc EXCEPT !.g = dmap[op[p].b]]]
          /\ pc' = [pc EXCEPT ![p] = "a_file"] /\ UNCHANGED outcome /\ H(p, "ALock", "Cat.addfile.locked")
  /\ UNCHANGED <<disk, gens, ngen, root, dmap, op, nops, pre>>
AFile(p) ==     \* newTimeBucketInfoFromTemplate: create the year file unless it exists; then register it in the leaf object
  /\ pc[p] = "a_file"
  /\ LET b == op[p].b  y == op[p].y  g == loc[p].g IN
     IF FilesOf(disk, b) = {}
     THEN \* the leaf directory was removed meanwhile (RemoveAll): the file cannot be created, the write fails
          /\ UNCHANGED <<disk, gens>> /\ Out(p, op[p], "error")
     ELSE /\ disk' = disk \cup {<<b, y>>}
          /\ IF <<b, y>> \in disk
             THEN gens' = gens          \* FileAlreadyExists: returned without registering
             ELSE gens' = [gens EXCEPT ![g].files = @ \cup {<<b, y>>}]
          /\ Out(p, op[p], "ok")
  /\ lock' = 0 /\ pc' = [pc EXCEPT ![p] = "idle"] /\ H(p, "AFile", "done")
  /\ UNCHANGED <<ngen, root, dmap, op, loc, nops, pre>>

\* ------------------------------------------------------------------------------------------------
\* RemoveTimeBucket(b)
\*   d_find   : walk root -> symbol -> timeframe -> leaf in the attached objects   ... parks at Cat.rm.found
\*   d_leaf   : RemoveAll(leaf dir) on disk                                        ... parks at Cat.rm.leafRemoved
\*   d_unlink : timeframe.removeSubDir(leaf) in the FOUND generation, directMap.Delete(leaf path);
\*              found timeframe / symbol objects without sub-directories => RemoveAll(symbol dir) on disk,
\*              root.removeSubDir(symbol) (whatever generation is attached now)      ... done
\* The intended design runs all of it under the root lock.
\* ------------------------------------------------------------------------------------------------
Locked == "DestroyNoRootLock" \notin Deviations
DFind(p) ==
  /\ pc[p] = "d_find" /\ lock = 0           \* GetSubDirWithItemName takes the root's read lock
  /\ LET b == op[p].b  g == root[Sym(b)] IN
     IF g = 0 \/ b \notin gens[g].leaves
     THEN /\ pc' = [pc EXCEPT ![p] = "idle"] /\ Out(p, op[p], "notfound") /\ H(p, "DFindMiss", "done") /\ UNCHANGED <<loc, lock>>
     ELSE /\ loc' = [loc EXCEPT ![p] = [NoLoc EXCEPT !.g = g]] /\ lock' = (IF Locked THEN p ELSE lock)
          /\ pc' = [pc EXCEPT ![p] = "d_leaf"] /\ UNCHANGED outcome /\ H(p, "DFind", "Cat.rm.found")
  /\ UNCHANGED <<disk, gens, ngen, root, dmap, op, nops, pre>>
DLeaf(p) ==
  /\ pc[p] = "d_leaf"
  /\ disk' = disk \ FilesOf(disk, op[p].b)
  /\ pc' = [pc EXCEPT ![p] = "d_unlink"] /\ H(p, "DLeaf", "Cat.rm.leafRemoved")
  /\ UNCHANGED <<gens, ngen, root, dmap, lock, op, loc, nops, outcome, pre>>
DUnlink(p) ==
  /\ pc[p] = "d_unlink"
  /\ LET b == op[p].b  g == loc[p].g  s == Sym(b)
         left == gens[g].leaves \ {b} IN
     /\ gens' = [gens EXCEPT ![g].leaves = left, ![g].files = @ \ FilesOf(@, b)]
     /\ dmap' = [dmap EXCEPT ![b] = 0]
     /\ IF left = {}
        THEN /\ disk' = disk \ SymFiles(disk, s)          \* RemoveAll(timeframe dir), RemoveAll(symbol dir)
             /\ pc' = [pc EXCEPT ![p] = "d_root"] /\ UNCHANGED <<outcome, lock>> /\ H(p, "DUnlinkPrune", "Cat.rm.beforeRoot")
        ELSE /\ UNCHANGED <<disk>> /\ lock' = (IF Locked THEN 0 ELSE lock)
             /\ pc' = [pc EXCEPT ![p] = "idle"] /\ Out(p, op[p], "ok") /\ H(p, "DUnlink", "done")
  /\ UNCHANGED <<ngen, root, op, loc, nops, pre>>
DRoot(p) ==      \* root.removeSubDir(symbol name): takes the root lock; by NAME, whatever generation is attached now
  /\ pc[p] = "d_root" /\ (lock = 0 \/ lock = p)
  /\ root' = [root EXCEPT ![Sym(op[p].b)] = 0]
  /\ lock' = 0
  /\ pc' = [pc EXCEPT ![p] = "idle"] /\ Out(p, op[p], "ok") /\ H(p, "DRoot", "done")
  /\ UNCHANGED <<disk, gens, ngen, dmap, op, loc, nops, pre>>

Step(p) == Begin(p) \/ CLock(p) \/ CFile(p) \/ CScan(p) \/ CAttach(p) \/ WLookup(p) \/ ALock(p) \/ AFile(p)
           \/ DFind(p) \/ DLeaf(p) \/ DUnlink(p) \/ DRoot(p)
Next == \E p \in Procs : Step(p)
Spec == Init /\ [][Next]_vars
View == <<disk, gens, ngen, root, dmap, lock, pc, op, loc, nops, pre>>

\* ------------------------------------------------------------------------------------------------
\* C17: at quiescence what the server lists and queries = what is on disk = what a fresh start lists
\* ------------------------------------------------------------------------------------------------
Quiet == \A p \in Procs : pc[p] = "idle"
Attached == {root[s] : s \in Syms} \ {0}
ListTbk == UNION {gens[g].leaves : g \in Attached}
MemFiles == UNION {gens[g].files : g \in Attached}
QueryFiles(b) == IF dmap[b] = 0 THEN {} ELSE FilesOf(gens[dmap[b]].files, b)
ListEqDisk == Quiet => ListTbk = DiskBuckets
MemEqDisk == Quiet => MemFiles = disk
QueryEqDisk == Quiet => \A b \in Buckets : QueryFiles(b) = FilesOf(disk, b)
C17 == ListEqDisk /\ MemEqDisk /\ QueryEqDisk
\* a write / create that reported success leaves its file on disk unless a LATER-finishing destroy of that bucket removed it
\* (kept as an observation, not part of C17)

Obs == [list |-> ListTbk, mem |-> MemFiles, disk |-> disk, query |-> [b \in Buckets |-> QueryFiles(b)]]
Done == Quiet /\ \A p \in Procs : nops[p] = MaxOps
Emit == Done => PrintT(<<"BEH", ToJson([pre |-> pre, steps |-> hist, outcome |-> outcome, obs |-> Obs, ok |-> C17])>>)
EmitBad == (Done /\ ~C17) => PrintT(<<"BAD", ToJson([pre |-> pre, steps |-> hist, outcome |-> outcome, obs |-> Obs, ok |-> FALSE])>>)
=============================================================================
