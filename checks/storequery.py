"""C11 / C12 / C13: time ranges, row limits, multi-symbol and column-projected queries.
StoreQuery.tla cases (stored content x query) replayed into the real DataService."""
PROPS = ["C11", "C12", "C13"]
READY = True
CLAIMS = {
 "C11": dict(technique="TLA+ refinement (read plan: per-file offsets from the range, whole-interval scan, trimResultsToRange vs the range predicate of the statement) checked by TLC; TLC-enumerated cases (stored content x start/end bound classes) replayed into the real DataService",
             text="TLC checks for every stored content of a fixed and of a variable bucket (interval ids in two year files, offset classes inside an interval) and every pair of range bounds on an ordered axis of bound classes (on an interval start, inside an interval before / between / after the records, exactly on a record's time, before the first / between the / after the last year, start > end) that the implementation-shaped read plan (NewIOPlan offsets per year file, slot scan, trimResultsToRange) returns exactly the rows the statement puts in range; the same TLC run emits the cases (expected rows, rows predicted for the listed deviations, guards that fired); they are concretised to nanosecond bounds (the exact stored time of every record is first read back from the real server) and replayed through DataService.Query for several timeframes; the real answer must be the statement's answer computed from the real unrestricted result.",
             note="Trusted: TLC, the Python concretisation (positions -> nanosecond bounds), UTC. Bounded: <= 5 interval ids over 2 year files, 2 offset classes (exhaustive check: 3-4 interval ids; <= 2 records per class in a separate run); quick replays a cost-bounded seeded sample of the emitted cases for 1Sec, 1Min, 1H, 1D, thorough for all 11 timeframes. 1D rows on Jan 1 and timestamps in the 'one second late' window are storage defects of C08/C09 and are avoided."),
 "C12": dict(technique="TLA+ refinement (plan-level limit in bytes, forward / backward file scan, bufferMeta bookkeeping, trimResultsToLimit after trimResultsToRange vs first/last N of the unlimited answer) checked by TLC; TLC-enumerated cases replayed into the real DataService",
             text="As C11 with a row limit: TLC enumerates stored contents x range bounds x N in 1..rows+1 x {first, last} and checks that the intended read plan returns the first / last N rows of the unlimited answer; the emitted cases are replayed through DataService.Query and every limited answer must be the prefix / suffix of the real answer of the same query without a limit.",
             note="Trusted: TLC, the Python concretisation. The read-buffer chunk in which each interval of the first year file lies (it decides the BackwardMetaOverrun deviation) is computed from the concrete interval positions and handed to TLC with the stored content. Bounds: exhaustive check over 3-4 interval ids, 2 offset classes, all N; replayed cases over 5 interval ids; quick replays one offset class with up to two records of the same time and N <= 3, thorough two offset classes and N <= 6 (the exhaustive TLC check covers all N in 1..rows+1)."),
 "C13": dict(technique="TLA+ refinement (symbol list / '*' expansion, per-bucket IOPlan, FilterColumns/Project, NumpyMultiDataset.Append vs per-symbol single queries and the projected column set) checked by TLC; TLC-enumerated cases replayed into the real DataService",
             text="TLC enumerates all non-empty subsets of three existing and one missing symbol and '*', all column lists up to length 3 over two data columns and an unknown name (with repetitions), stored contents of the three buckets and five query shapes, and checks that the implementation-shaped multi query equals the per-symbol single queries and keeps exactly the time columns and the requested existing columns; the emitted cases are replayed through DataService.Query: the multi-symbol answer must equal, symbol by symbol, the real answer of the single query, and the projected answer must carry the same rows and values as the unprojected one, restricted to the time columns and the requested columns.",
             note="Trusted: TLC, the Python concretisation. Every case group lives in its own attribute group so that '*' sees exactly the three buckets. Symbols share one schema (different schemas per symbol are outside the statement)."),
}
import calendar, copy, json, os, random, shutil, struct, sys
import vlib
from vlib import Result, Undecided
import store
from store import TIMEFRAMES, SCHEMAS, year_start, year_len, emulate_ticks

DEVS = '{"RangeTrimKeepsTail", "LimitBeforeRangeTrim", "BackwardMetaOverrun"}'
FINDING_OF_DEV = {"RangeTrimKeepsTail": "KF-C11-1", "LimitBeforeRangeTrim": "KF-C12-1", "BackwardMetaOverrun": "KF-C12-2"}
QUICK_TFS = ["1Sec", "1Min", "1H", "1D"]
TFSEC = dict(TIMEFRAMES)
RECORDS_PER_READ = 8192      # executor/scanner.go recordsPerRead
NS = 10 ** 9


# ------------------------------------------------------------------------------------------------
# stored contents <-> TLC codes
# ------------------------------------------------------------------------------------------------
class Dims:
    def __init__(self, ni0, ni1, no, dup):
        self.ni0, self.ni1, self.no, self.dup = ni0, ni1, no, dup
        self.ni = ni0 + ni1
        self.W = 2 * no + 2
        self.gap = 1 + ni0 * self.W
        self.last = 2 + self.ni * self.W

    def iv_base(self, i):
        return 1 + (i - 1) * self.W if i <= self.ni0 else 2 + (i - 1) * self.W

    def pos_iv(self, p):
        if p in (0, self.gap, self.last):
            return 0
        return (p - 1) // self.W + 1 if p < self.gap else (p - 2) // self.W + 1

    def is_first(self, i):
        return i == 1 or i == self.ni0 + 1


def content_code(d, content, z, kind, tfc, chunk=0):
    """content: list (per interval) of lists (per offset class) of counts"""
    acc, j = 0, 0
    for i in range(d.ni):
        for o in range(d.no):
            acc += content[i][o] * (d.dup + 1) ** j
            j += 1
    code = (1 if z else 0) + (2 if kind == "fixed" else 0) + (4 if tfc == "daily" else 0) + 8 * acc
    if code >= 2 ** 20 or chunk >= 2000:
        raise Undecided("content code out of range")
    return code + 2 ** 20 * chunk


def random_content(rng, d, kind, tfc, fill):
    c = []
    for i in range(1, d.ni + 1):
        row = []
        for o in range(d.no):
            n = 0
            if not (tfc == "daily" and d.is_first(i)) and not (kind == "fixed" and o > 0) and rng.random() < fill:
                n = 1 if kind == "fixed" or d.dup == 1 or rng.random() < 0.7 else rng.randint(1, d.dup)
            row.append(n)
        c.append(row)
    return c


def content_rows(content):
    """model rows [i, o, d] in time order (= AbsRead)"""
    return [[i + 1, o, dd + 1] for i, row in enumerate(content) for o, n in enumerate(row) for dd in range(n)]


# ------------------------------------------------------------------------------------------------
# concretisation: interval ids / offset classes / positions -> epochs and nanoseconds
# ------------------------------------------------------------------------------------------------
def make_conc(rng, tfname, d, schema, kind, z, want_gap=None):
    """store.Concretisation with the offset classes arranged for z (class 0 exactly on / strictly after the
    interval start).  Timestamps in the known 'one second late' window are avoided (KF-C09-1)."""
    tfsec = TFSEC[tfname]
    for _ in range(60):
        c = store.Concretisation(rng, tfname, tfsec, d.ni0, d.ni1, d.no if kind == "variable" else 1, schema, kind)
        if want_gap is None or (c.y1 - c.y0 >= 2) == want_gap:
            break
    if kind == "variable":
        res = c.res_ns
        lo = int(2 * res) + 3
        if z:
            c.offs[0] = 0
        elif c.offs[0] < lo:
            nxt = c.offs[1] if d.no > 1 else tfsec * NS
            cands = [nxt // 2, nxt // 3, lo + 1, lo + 7, (nxt // 2) + 13]
            ok = [x for x in cands if x >= lo and nxt - x > 2 * res + 2 and not emulate_ticks(x, tfsec)[2]]
            if not ok:
                raise Undecided("no offset class strictly after the interval start for %s" % tfname)
            c.offs[0] = ok[0]
    return c


def chunk_code(c, d):
    """read-buffer chunk (counted back from the end of the year file) of every year-0 interval id, as ranks"""
    tfsec = c.tfsec
    total = year_len(c.y0) // tfsec
    raw = []
    for i in range(1, d.ni0 + 1):
        idx = (c.iv_epoch(i) - store.year_start(c.y0)) // tfsec + (0 if tfsec == 86400 else 1)
        raw.append((total - idx) // RECORDS_PER_READ)
    ranks = {v: k for k, v in enumerate(sorted(set(raw)))}
    code = 0
    for v in raw:
        code = code * 10 + ranks[v]
    return code


class Bucket:
    """one stored content, concretised: rows to write, identity of the rows that come back"""

    def __init__(self, c, d, kind, tfc, content, z, key, times, rng):
        self.c, self.d, self.kind, self.tfc, self.content, self.z, self.key, self.T = c, d, kind, tfc, content, z, key, times
        self.rows = content_rows(content)
        self.ident = {}
        self.wrows = []
        for (i, o, dd) in self.rows:
            v = (i + o + dd) % 3 + 1
            self.wrows.append({"i": i, "o": o, "v": v})
            self.ident[(self.T[(i, o)], canon(c.vals(v), c.schema))] = (i, o, dd)
        # write order: shuffled, rows of the same time keep their order (their order is the stored order)
        order = list(range(len(self.wrows)))
        if rng.random() < 0.5:
            rng.shuffle(order)
            where = {}
            for pos, k in enumerate(order):
                where.setdefault((self.rows[k][0], self.rows[k][1]), []).append(pos)
            fixed = order[:]
            for poss in where.values():
                for pos, k in zip(poss, sorted(order[x] for x in poss)):
                    fixed[pos] = k
            order = fixed
        self.order = order

    def setup_ops(self, explicit_create):
        ops = []
        if explicit_create or not self.wrows:
            ops.append({"op": "create", "key": self.key + ":Symbol/Timeframe/AttributeGroup", "names": [n for n, _ in self.c.schema],
                        "types": [t for _, t in self.c.schema], "var": self.kind == "variable"})
        if self.wrows:
            ops.append({"op": "write", "var": self.kind == "variable",
                        "buckets": [{"key": self.key, "cols": self.c.cols([self.wrows[k] for k in self.order])}]})
        return ops

    def triples(self, real):
        """real rows -> model rows [i,o,d]; a row that was never stored becomes ['?', epoch, nanos]"""
        if isinstance(real, str):
            return real
        out = []
        for ep, ns, vals in real:
            t = self.ident.get((ep * NS + ns, canon(vals, self.c.schema)))
            out.append(list(t) if t else ["?", ep, ns])
        return out


def canon(vals, schema):
    out = []
    for x, (_, t) in zip(vals, schema):
        if t == "f4":
            out.append(struct.pack("<f", x))
        elif t == "f8":
            out.append(struct.pack("<d", x))
        else:
            out.append(int(x))
    return tuple(out)


def iv_bounds(c, i):
    s = c.iv_epoch(i) * NS
    return s, s + c.tfsec * NS


def written_time(c, i, o, kind):
    return c.iv_epoch(i) * NS + (c.offs[o] if kind == "variable" else 0)


def pos_time(b, p, role, rng):
    """position on the model axis -> concrete time in ns, None (bound omitted) or 'skip' (not concretisable here)"""
    c, d = b.c, b.d
    if p == 0:
        ch = rng.randrange(3)
        if role == "s" and ch == 0:
            return None
        return year_start(c.y0) * NS - 1 if ch == 1 else calendar.timegm((c.y0 - 1, 7, 1, 12, 0, 1)) * NS + 999
    if p == d.gap:
        if c.y1 - c.y0 < 2:
            return "skip"
        return year_start(c.y0 + 1) * NS + rng.choice([0, 1, 86400 * 200 * NS + 5])
    if p == d.last:
        ch = rng.randrange(3)
        if role == "e" and ch == 0:
            return None
        return year_start(c.y1 + 1) * NS if ch == 1 else (calendar.timegm((2100, 1, 1, 0, 0, 0)) * NS if role == "e" else year_start(c.y1 + 1) * NS + 12345 * NS + 7)
    i = d.pos_iv(p)
    k = p - d.iv_base(i)
    s, e = iv_bounds(c, i)
    if k == 0:
        return s
    if b.kind == "fixed":
        return rng.choice([s + 1, e - 1, (s + e) // 2])
    if k % 2 == 0:
        return b.T[(i, (k - 2) // 2)]
    lo = s if k == 1 else b.T[(i, (k - 3) // 2)]
    o_next = (k - 1) // 2
    hi = b.T[(i, o_next)] if o_next < d.no else e
    if hi - lo < 2:
        return "skip"
    return rng.choice([lo + 1, hi - 1, (lo + hi) // 2])


def in_range_concrete(b, t_row, start, end):
    """the statement's range predicate on concrete nanoseconds (cross-check of the model's answer)"""
    s = start if start is not None else 0
    e = end if end is not None else 2 ** 63 * NS
    if b.kind == "variable":
        return s <= t_row <= e
    tf = b.c.tfsec * NS
    return (s // tf) * tf <= t_row <= e


def query_op(dest, start=None, end=None, n=0, dirn="first", cols=None):
    o = {"op": "query", "dest": dest}
    if start is not None:
        o["start"] = [start // NS, start % NS]
    if end is not None:
        o["end"] = [end // NS, end % NS]
    if n:
        o["limit"] = n
        o["fromstart"] = dirn == "first"
    if cols:
        o["cols"] = cols
    return o


def query_cost(c, start, end):
    """slots the scan has to walk through (the dominating cost of a query on a sparse year file)"""
    import time as _t
    s = start if start is not None else 0
    e = end if end is not None else calendar.timegm((2200, 1, 1, 0, 0, 0)) * NS
    cost = 0
    for y in (c.y0, c.y1):
        ys, ye = year_start(y) * NS, (year_start(y) + year_len(y)) * NS
        ylo, yhi = _t.gmtime(s // NS).tm_year, _t.gmtime(min(e // NS, 7258118400)).tm_year
        if not (ylo <= y <= yhi):
            continue
        lo = max(s, ys) if ylo == y else ys
        hi = min(e, ye) if yhi == y else ye
        if hi > lo:
            cost += (hi - lo) // (c.tfsec * NS) + 1
    return cost


# ------------------------------------------------------------------------------------------------
# observations -> rows
# ------------------------------------------------------------------------------------------------
def parse_obs(obs):
    """query observation -> {symbol: (names, rows)} or an error string.  rows = list of tuples in column order."""
    if isinstance(obs, dict) and obs.get("panic"):
        return "panic: " + str(obs["panic"])
    if obs.get("driver_error"):
        raise Undecided("driver error: %s" % obs)
    if obs.get("err"):
        return "error: " + str(obs["err"])
    out = {}
    for k, cols in (obs.get("result") or {}).items():
        sym = k.split(":")[0].split("/")[0]
        names = [c["name"] for c in (cols or [])]
        n = len(cols[0]["vals"]) if cols else 0
        out[sym] = (names, [tuple(c["vals"][r] for c in cols) for r in range(n)])
    return out


def full_rows(parsed, sym, schema, kind):
    """rows of a full-width answer as (epoch, nanos, [values]) or an error string; no file / no rows -> []"""
    if isinstance(parsed, str):
        if "no files returned" in parsed.lower():
            return []
        return parsed
    if sym not in parsed:
        return "error: symbol %s not in the answer %s" % (sym, sorted(parsed))
    names, rows = parsed[sym]
    if not rows:
        return []
    want = ["Epoch"] + [n for n, _ in schema] + (["Nanoseconds"] if kind == "variable" else [])
    if names != want:
        return "error: columns %s, expected %s" % (names, want)
    return [(r[0], r[-1] if kind == "variable" else 0, list(r[1:1 + len(schema)])) for r in rows]


# ------------------------------------------------------------------------------------------------
# TLC
# ------------------------------------------------------------------------------------------------
def tlc_consts(d, mode, kinds, classes, chunks=(0,), sample=None, colmax=2, nmax=99):
    q = lambda xs: "{" + ", ".join('"%s"' % x for x in xs) + "}"
    return dict(NI0=d.ni0, NI1=d.ni1, NO=d.no, Dup=d.dup, Kinds=q(kinds), Classes=q(classes), Mode='"%s"' % mode,
                ChunkCodes="{" + ", ".join(str(x) for x in chunks) + "}", NMax=nmax, ColMax=colmax, UseSample="TRUE" if sample is not None else "FALSE",
                Sample="{" + ", ".join(str(x) for x in sorted(sample or [])) + "}", Deviations=DEVS)


def tlc(res, name, consts, invariants, timeout):
    vlib.log("[tlc] %s ..." % name)
    r = vlib.run_tlc("StoreQuery", name, timeout=timeout, cfg_text=vlib.cfg_text(consts, invariants=invariants))
    vlib.tlc_ok(r, name)
    if r["violated"]:
        raise Undecided("MODEL-DRIFT: %s violates %s in the model\n%s" % (name, r["violated"], r["out"][-3000:]))
    if r["records"].get("BAD"):
        raise Undecided("unparsable TLC output in %s: %s" % (name, r["records"]["BAD"][:2]))
    res.tlc(r, name)
    vlib.log("[tlc] %s: %s distinct states in %.1fs" % (name, r.get("distinct"), r["wall_s"]))
    return r


# ------------------------------------------------------------------------------------------------
# shared replay set-up: concretisations, probe of the stored times, buckets
# ------------------------------------------------------------------------------------------------
class Plan:
    """what is replayed: for every timeframe a list of (kind, concretisation z-variants, contents)"""

    def __init__(self, prop, tier, rng, d, tfs, nconc, ncontent, kinds=("variable", "fixed"), shared_contents=False):
        self.prop, self.rng, self.d = prop, rng, d
        self.items = []          # dict(tf, kind, tfc, z, c, content, code, chunk)
        sch = 0
        shared = {}
        for tfi, tfname in enumerate(tfs):
            tfc = "daily" if tfname == "1D" else "intraday"
            for kind in kinds:
                for k in range(nconc):
                    sch += 1
                    schema = [s for s in SCHEMAS if len(s) >= 2][(sch + 2) % 5] if prop == "C13" else SCHEMAS[sch % len(SCHEMAS)]
                    if prop == "C13" and kind == "fixed" and tfname in ("1Min", "5Min", "10Sec", "30Sec") and not getattr(self, "_odd", False):
                        # at least one fixed-length intraday bucket whose record length (24) is not a power of two: next to its
                        # wider sibling (32) its year file does not split into read chunks at record boundaries by accident
                        schema = SCHEMAS[-1]
                        self._odd = True
                    want_gap = None if nconc == 1 else (k % 2 == 1)
                    conc = {}
                    for z in ((True, False) if kind == "variable" else (True,)):
                        st = rng.getstate()
                        conc[z] = make_conc(rng, tfname, d, schema, kind, z, want_gap)
                        if z and kind == "variable":
                            rng.setstate(st)        # both z variants share years and interval positions
                    for j in range(ncontent):
                        z = True if kind == "fixed" else (j + k + tfi) % 2 == 0
                        fill = [0.55, 0.8, 0.35, 1.0][j % 4]
                        if prop == "C13" and schema is SCHEMAS[-1] and j == 0:
                            fill = 1.0       # the odd-width bucket holds rows in every position of the year (far beyond one read chunk)
                        content = random_content(rng, d, kind, tfc, fill)
                        if shared_contents:
                            content = shared.setdefault((kind, tfc, j), content)
                        ch = chunk_code(conc[z], d) if prop == "C12" and kind == "variable" else 0
                        self.items.append(dict(tf=tfname, kind=kind, tfc=tfc, z=z, c=conc[z], content=content, chunk=ch,
                                               code=content_code(d, content, z, kind, tfc, ch)))

    def probe(self, binary, root):
        """read back from the real server the exact time every (interval, offset class) is stored with"""
        cases = [{"id": "start", "ops": [{"op": "start", "root": root}]}]
        concs = []
        for it in self.items:
            c = it["c"]
            if it["kind"] == "variable" and not any(c is x for x in concs):
                concs.append(c)
        for n, c in enumerate(concs):
            rows = [{"i": i, "o": o, "v": 1} for i in range(1, self.d.ni + 1) for o in range(self.d.no)
                    if not (c.tf == "1D" and self.d.is_first(i))]
            key = "P%d/%s/G" % (n, c.tf)
            cases.append({"id": "p%d" % n, "ops": [{"op": "write", "var": True, "buckets": [{"key": key, "cols": c.cols(rows)}]},
                                                  {"op": "query", "dest": key}]})
        obs = vlib.run_cases(binary, cases, timeout=600, tag="probe") if concs else {}
        for n, c in enumerate(concs):
            o = obs.get(json.dumps("p%d" % n))
            if o is None or (isinstance(o, dict) and "died" in o):
                raise Undecided("probe of stored times failed: %s" % str(o)[:300])
            if o[0].get("err") or o[0].get("panic"):
                raise Undecided("probe write failed: %s" % o[0])
            real = full_rows(parse_obs(o[1]), "P%d" % n, c.schema, "variable")
            if isinstance(real, str):
                raise Undecided("probe query failed: %s" % real)
            T = {}
            for i in range(1, self.d.ni + 1):
                s, e = iv_bounds(c, i)
                for oc in range(self.d.no):
                    wt = s + c.offs[oc]
                    got = [ep * NS + ns for ep, ns, _ in real if wt - c.res_int - 1 < ep * NS + ns <= wt and s <= ep * NS + ns < e]
                    if c.tf == "1D" and self.d.is_first(i):
                        T[(i, oc)] = wt          # never stored; only the order of the positions matters
                        continue
                    if len(got) != 1:
                        raise Undecided("probe: record (%d,%d) of %s came back %d times (storage-level problem, see C09)" % (i, oc, c.tf, len(got)))
                    T[(i, oc)] = got[0]
                ts = [T[(i, oc)] for oc in range(self.d.no)]
                if any(ts[k + 1] - ts[k] < 2 for k in range(len(ts) - 1)) or e - ts[-1] < 2 or (c.offs[0] == 0) != (ts[0] == s) or (c.offs[0] > 0 and ts[0] - s < 2):
                    raise Undecided("probe: stored times %s of interval %d (%s) do not keep the order of the offset classes" % (ts, i, c.tf))
            c.T = T
        for it in self.items:
            if it["kind"] == "fixed":
                c = it["c"]
                c.T = {(i, 0): c.iv_epoch(i) * NS for i in range(1, self.d.ni + 1)}


def group_cases(recs, keyf):
    out = {}
    for r in recs:
        out.setdefault(keyf(r), []).append(r)
    return out


def st_key(r):
    return (r["kind"], r["tfc"], json.dumps(r["st"]), bool(r["z"]), r.get("chk", 0))


BUDGET_SLOTS_PER_MS = 400000.0     # measured: a scan walks through roughly 0.7 M empty slots per ms


def pick(rng, cands, cost_of, budget_ms, base_ms=0.4, always=0):
    """seeded sample of the candidate queries within a time budget"""
    order = list(range(len(cands)))
    rng.shuffle(order)
    out, spent = [], 0.0
    for n, k in enumerate(order):
        cst = base_ms + cost_of(cands[k]) / BUDGET_SLOTS_PER_MS
        if n >= always and spent + cst > budget_ms:
            continue
        spent += cst
        out.append(cands[k])
    return out


def check_unrestricted(b, obs_q, what):
    real = full_rows(parse_obs(obs_q), b.key.split("/")[0], b.c.schema, b.kind)
    tri = b.triples(real)
    if tri != b.rows:
        raise Undecided("%s: the unrestricted query does not return the stored rows (C08/C09 territory): got %s, stored %s" % (what, str(tri)[:300], b.rows))
    return real


def is_overrun_outcome(real, tri, expect, b):
    """BackwardMetaOverrun: index records of the last year file are looked up in the first year file: the query
    fails (EOF, corrupt input) or rows decoded from the wrong place are stamped with intervals of the last year"""
    if isinstance(real, str):
        return any(x in real for x in ("EOF", "snappy", "corrupt"))
    left = [tuple(x) for x in expect]
    extra = []
    for x in tri:            # multiset difference: a row decoded from the wrong place may look like a stored row
        if tuple(x) in left:
            left.remove(tuple(x))
        else:
            extra.append(x)
    y1s = year_start(b.c.y1)
    return bool(extra) and all((x[0] == "?" and x[1] >= y1s) or (x[0] != "?" and x[0] > b.d.ni0) for x in extra)


# ------------------------------------------------------------------------------------------------
# C11 / C12
# ------------------------------------------------------------------------------------------------
def run_single(prop, tier):
    res = Result(prop, tier)
    quick = tier == "quick"
    mode = "range" if prop == "C11" else "limit"
    rng = random.Random(vlib.seed() * 7919 + (11 if prop == "C11" else 12))
    binary = vlib.build_harness()
    known = {k["deviation"]: k for k in vlib.known_findings(prop)}
    inv = ["ImplRefinesAbs", "DeviationsExplainAll"]

    # ---------------- E1: exhaustive check of the refinement over all contents x queries ----------------
    kc = (["variable", "fixed"], ["intraday", "daily"])
    if mode == "range":
        if quick:
            tlc(res, "StoreQuery_range_mc.cfg", tlc_consts(Dims(2, 1, 2, 1), mode, *kc), inv, 3000)
        else:
            tlc(res, "StoreQuery_range_mc31.cfg", tlc_consts(Dims(3, 1, 2, 1), mode, kc[0], ["intraday"]), inv, 6000)
            tlc(res, "StoreQuery_range_mc22.cfg", tlc_consts(Dims(2, 2, 2, 1), mode, *kc), inv, 6000)
            tlc(res, "StoreQuery_range_dup_mc.cfg", tlc_consts(Dims(2, 1, 1, 2), mode, ["variable"], ["intraday"]), inv, 6000)
    else:
        if quick:
            tlc(res, "StoreQuery_limit_mc.cfg", tlc_consts(Dims(2, 1, 2, 1), mode, *kc, nmax=4), inv, 3000)
        else:
            tlc(res, "StoreQuery_limit_mc21.cfg", tlc_consts(Dims(2, 1, 2, 1), mode, *kc, chunks=[0, 10]), inv, 6000)
            tlc(res, "StoreQuery_limit_mc22.cfg", tlc_consts(Dims(2, 2, 1, 1), mode, *kc, chunks=[0, 10]), inv, 6000)
            tlc(res, "StoreQuery_limit_dup_mc.cfg", tlc_consts(Dims(2, 1, 1, 2), mode, ["variable"], ["intraday"]), inv, 6000)

    # ---------------- cases: sampled contents x all queries, emitted by TLC ----------------
    # limit, quick: one offset class with up to two records of the same time and N <= 3 keep the emitted space
    # small; three interval ids in the first year file are needed for the chunk structure of the backward scan
    d = Dims(3, 2, 2, 1) if mode == "range" or not quick else Dims(3, 2, 1, 2)
    nmax = 3 if quick and mode == "limit" else 99
    tfs = QUICK_TFS if quick else [t for t, _ in TIMEFRAMES]
    if quick:
        plan = Plan(prop, tier, rng, d, tfs, nconc=1, ncontent=2)
    elif mode == "range":
        plan = Plan(prop, tier, rng, d, tfs, nconc=2, ncontent=4)
    else:
        plan = Plan(prop, tier, rng, d, tfs, nconc=2, ncontent=2)
        nmax = 6
    root = os.path.join(vlib.scratch(), "root_%s" % prop)
    plan.probe(binary, os.path.join(vlib.scratch(), "probe_%s" % prop))
    shutil.rmtree(os.path.join(vlib.scratch(), "probe_%s" % prop), ignore_errors=True)
    codes = sorted(set(it["code"] for it in plan.items))
    r = tlc(res, "StoreQuery_%s_emit.cfg" % mode, tlc_consts(d, mode, ["variable", "fixed"], ["intraday", "daily"], sample=codes, nmax=nmax), inv + ["Emit"], 6000)
    emitted = group_cases(r["records"].get("CASE", []), st_key)
    res.cov["cases_emitted_by_tlc"] = sum(len(v) for v in emitted.values())

    # ---------------- replay ----------------
    budget_ms = {"quick": 9000.0, "thorough": 60000.0}[tier] / max(1, len([it for it in plan.items if it["tf"] == plan.items[0]["tf"]]))
    cases = [{"id": "start", "ops": [{"op": "start", "root": root}]}]
    meta = {}
    for n, it in enumerate(plan.items):
        c, kind = it["c"], it["kind"]
        key = "Q%d/%s/G" % (n, it["tf"])
        b = Bucket(c, d, kind, it["tfc"], it["content"], it["z"], key, c.T, rng)
        recs = emitted.get((kind, it["tfc"], json.dumps(it["content"]), it["z"], it["chunk"]))
        if not recs:
            raise Undecided("TLC emitted no case for content %s" % it["content"])
        ops = b.setup_ops(n % 2 == 0) + [query_op(key)]
        base = len(ops)
        qs = []
        if mode == "range":
            cand = []
            for r in recs:
                s, e = pos_time(b, r["s"], "s", rng), pos_time(b, r["e"], "e", rng)
                if s == "skip" or e == "skip":
                    continue
                cand.append((r, s, e))
            interesting = [x for x in cand if x[0]["hit"]]
            chosen = pick(rng, cand, lambda x: query_cost(c, x[1], x[2]), budget_ms)
            if interesting and not any(x[0]["hit"] for x in chosen):
                chosen.append(rng.choice(interesting))
            for r, s, e in chosen:
                qs.append(dict(r=r, s=s, e=e, at=len(ops)))
                ops.append(query_op(key, s, e))
        else:
            groups = group_cases(recs, lambda r: (r["s"], r["e"]))
            cand = []
            for (ps, pe), rs in sorted(groups.items()):
                s, e = pos_time(b, ps, "s", rng), pos_time(b, pe, "e", rng)
                if s == "skip" or e == "skip":
                    continue
                cand.append((rs, s, e))
            chosen = pick(rng, cand, lambda x: query_cost(c, x[1], x[2]) * (1 + min(len(x[0]), 5)), budget_ms, base_ms=1.5)
            hitg = [x for x in cand if any("BackwardMetaOverrun" in r["hit"] for r in x[0])]
            if hitg and not any(x in chosen for x in hitg):
                chosen.append(rng.choice(hitg))
            for rs, s, e in chosen:
                at_unl = len(ops)
                ops.append(query_op(key, s, e))
                sub = rs if len(rs) <= 5 else rng.sample(rs, 5)
                for r in sub:
                    qs.append(dict(r=r, s=s, e=e, at=len(ops), at_unl=at_unl))
                    ops.append(query_op(key, s, e, r["n"], r["dir"]))
        cid = "c%d" % n
        cases.append({"id": cid, "ops": ops})
        meta[cid] = (b, base, qs, ops)
    import time as _time
    t0 = _time.time()
    obs = vlib.run_cases(binary, cases, timeout=3000 if quick else 7000)
    vlib.log("[replay] %d operations in %.1fs" % (sum(len(x["ops"]) for x in cases), _time.time() - t0))
    res.cov["replay_wall_s"] = round(_time.time() - t0, 1)
    shutil.rmtree(root, ignore_errors=True)

    hits = {}
    nq = 0
    for cid, (b, base, qs, ops) in meta.items():
        o = obs.get(json.dumps(cid))
        what = "%s (%s, %s)" % (b.key, b.kind, b.c.tf)
        replay0 = {"check": "storequery", "prop": prop, "key": b.key, "kind": b.kind, "concretisation": b.c.describe(),
                   "content": b.content, "z0": b.z, "seed": vlib.seed()}
        if o is None:
            raise Undecided("no observation for case %s" % cid)
        if isinstance(o, dict) and "died" in o:
            res.violation("server process died (%s) during the queries on %s: %s" % (o["died"], what, o["stderr"][-500:]), dict(replay0, ops=ops))
            continue
        for k in range(base - 1):
            if o[k].get("driver_error") or o[k].get("err") or o[k].get("panic"):
                raise Undecided("set-up of %s failed: %s" % (what, o[k]))
        ureal = check_unrestricted(b, o[base - 1], what)
        res.cov["traces_validated_against_impl"] += 1
        sym = b.key.split("/")[0]
        for qd in qs:
            r = qd["r"]
            nq += 1
            real = full_rows(parse_obs(o[qd["at"]]), sym, b.c.schema, b.kind)
            tri = b.triples(real)
            qdesc = "start=%s end=%s%s" % (fmt_t(qd["s"]), fmt_t(qd["e"]), (" limit=%d from the %s" % (r["n"], "start" if r["dir"] == "first" else "end")) if r["n"] else "")
            replay = dict(replay0, ops=b.setup_ops(True) + [ops[qd["at"]]] + ([ops[qd["at_unl"]]] if "at_unl" in qd else []),
                          model_case=r, expected_rows=r["expect"])
            for h in r["hit"]:
                hits[h] = hits.get(h, 0) + 1
            if mode == "range":
                # cross-check: the model's answer is the statement's predicate on the concrete times
                conc = [x for x, (ep, ns, _) in zip(b.rows, ureal) if in_range_concrete(b, ep * NS + ns, qd["s"], qd["e"])]
                if conc != r["expect"]:
                    raise Undecided("concretisation drift on %s %s: model expects %s, concrete predicate %s" % (what, qdesc, r["expect"], conc))
                if tri == r["expect"]:
                    continue
                if "RangeTrimKeepsTail" in r["hit"] and r["kerr"] == "" and tri == r["known"] and "RangeTrimKeepsTail" in known:
                    res.known_finding(known["RangeTrimKeepsTail"], {"tf": b.c.tf, "stored": show_rows(b, b.rows), "query": qdesc, "returned": show_rows(b, tri)})
                    continue
                res.violation("range query %s on %s returned %s; the rows of the unrestricted answer in range are %s (unrestricted answer: %s)" % (
                    qdesc, what, show_rows(b, tri), show_rows(b, r["expect"]), show_rows(b, b.rows)), replay)
            else:
                unl = b.triples(full_rows(parse_obs(o[qd["at_unl"]]), sym, b.c.schema, b.kind))
                if isinstance(unl, str):
                    # the unlimited query itself failed: nothing to compare with (a C11 matter)
                    res.cov["unlimited_query_failed"] = res.cov.get("unlimited_query_failed", 0) + 1
                    continue
                want = unl if len(unl) <= r["n"] else (unl[:r["n"]] if r["dir"] == "first" else unl[len(unl) - r["n"]:])
                if tri == want:
                    continue
                if "BackwardMetaOverrun" in r["hit"] and "BackwardMetaOverrun" in known and is_overrun_outcome(real, tri, want, b):
                    res.known_finding(known["BackwardMetaOverrun"], {"tf": b.c.tf, "years": [b.c.y0, b.c.y1], "stored": show_rows(b, b.rows), "query": qdesc,
                                                                    "returned": real if isinstance(real, str) else show_rows(b, tri)})
                    continue
                if "LimitBeforeRangeTrim" in r["hit"] and r["kerr"] == "" and tri == r["known"] and "LimitBeforeRangeTrim" in known:
                    res.known_finding(known["LimitBeforeRangeTrim"], {"tf": b.c.tf, "stored": show_rows(b, b.rows), "query": qdesc, "returned": show_rows(b, tri),
                                                                     "unlimited": show_rows(b, unl)})
                    continue
                res.violation("limited query %s on %s returned %s; the same query without a limit returns %s, so the %s %d rows are %s" % (
                    qdesc, what, show_rows(b, tri), show_rows(b, unl), r["dir"], r["n"], show_rows(b, want)), replay)
        res.sample({"key": b.key, "kind": b.kind, "concretisation": b.c.describe(), "content": b.content, "z0": b.z,
                    "queries": [[fmt_t(x["s"]), fmt_t(x["e"]), x["r"]["n"], x["r"]["dir"]] for x in qs[:6]]}, limit=3)
    res.cov["queries_replayed"] = nq
    res.cov["deviation_guards_fired_in_replayed_cases"] = hits
    res.cov["timeframes"] = tfs
    res.assumptions += ["time zone UTC", "the exact stored time of every (interval, offset class) is read back from the real server before the bounds are concretised",
                        "1D buckets never hold Jan 1 rows; offsets in the 'one second late' window are avoided (storage defects KF-C08-1, KF-C09-1)"]
    return res.finish()


def fmt_t(t):
    return "none" if t is None else "%d.%09d" % (t // NS, t % NS)


def show_rows(b, tri):
    if isinstance(tri, str):
        return tri
    out = []
    for x in tri:
        if x[0] == "?":
            out.append("unknown row at %d.%09d" % (x[1], x[2]))
        else:
            t = b.T[(x[0], x[1])]
            out.append("%d.%09d%s" % (t // NS, t % NS, "#%d" % x[2] if b.d.dup > 1 else ""))
    return "[" + ", ".join(out) + "]"


# ------------------------------------------------------------------------------------------------
# C13
# ------------------------------------------------------------------------------------------------
def norm_names(names, allowed):
    """the client-side decoding renames a repeated column x to x0, x1, ...: map them back"""
    out = []
    for n in names:
        base = n.rstrip("0123456789")
        out.append(base if n not in allowed and base in allowed else n)
    return out


def run_multi(prop, tier):
    res = Result(prop, tier)
    quick = tier == "quick"
    rng = random.Random(vlib.seed() * 7919 + 13)
    binary = vlib.build_harness()
    inv = ["ImplRefinesAbs", "DeviationsExplainAll", "MultiRefinesAbs"]
    # E1
    tlc(res, "StoreQuery_multi_mc.cfg", tlc_consts(Dims(1, 1, 1, 1), "multi", ["variable", "fixed"], ["intraday"], colmax=1 if quick else 3), inv, 3000)
    if not quick:
        tlc(res, "StoreQuery_multi_daily_mc.cfg", tlc_consts(Dims(2, 1, 1, 1), "multi", ["variable", "fixed"], ["daily"], colmax=2), inv, 3000)
    # cases
    d = Dims(2, 1, 2, 1)
    tfs = QUICK_TFS if quick else [t for t, _ in TIMEFRAMES]
    # the contents are shared by the timeframes of a class: B's content is drawn from the contents of A's kind/class
    plan = Plan(prop, tier, rng, d, tfs, nconc=1, ncontent=1 if quick else 2, shared_contents=True)
    plan.probe(binary, os.path.join(vlib.scratch(), "probe_%s" % prop))
    shutil.rmtree(os.path.join(vlib.scratch(), "probe_%s" % prop), ignore_errors=True)
    codes = sorted(set(it["code"] for it in plan.items))
    r = tlc(res, "StoreQuery_multi_emit.cfg", tlc_consts(d, "multi", ["variable", "fixed"], ["intraday", "daily"], sample=codes, colmax=2 if quick else 3),
            inv + ["Emit"], 3000)
    recs = r["records"].get("CASE", [])
    res.cov["cases_emitted_by_tlc"] = len(recs)
    by_a = group_cases(recs, st_key)
    per_bucket = 90 if quick else 220
    ngroups = len([it for it in plan.items if it["tf"] == plan.items[0]["tf"]]) * (2 if quick else 4)
    budget_ms = {"quick": 9000.0, "thorough": 60000.0}[tier] / ngroups
    root = os.path.join(vlib.scratch(), "root_%s" % prop)
    cases = [{"id": "start", "ops": [{"op": "start", "root": root}]}]
    meta = {}
    for n, it in enumerate(plan.items):
        c, kind = it["c"], it["kind"]
        mine = by_a.get((kind, it["tfc"], json.dumps(it["content"]), it["z"], 0))
        if not mine:
            raise Undecided("TLC emitted no multi case for content %s" % it["content"])
        byb = group_cases(mine, lambda x: json.dumps([x["stB"], x["het"]]))
        for bn, (bkey, rs) in enumerate(sorted(byb.items())):
            ag = "G%dx%d" % (n, bn)
            tf = it["tf"]
            names = {"A": "SA%d" % n, "B": "SB%d" % n, "C": "SC%d" % n, "M": "SM%d" % n}
            bks = {}
            ops = []
            het = rs[0]["het"]
            for s, content in (("A", it["content"]), ("B", rs[0]["stB"]), ("C", rs[0]["stC"])):
                cs = c
                if s == "C" and het:        # the bucket of C has one more data column
                    cs = copy.copy(c)
                    # ... chosen so that the record lengths of the narrow and the wide buckets are not in a simple ratio
                    # (a reader that sizes its read chunks by the widest record of the request must still cut the narrow
                    # bucket's file at record boundaries): prefer a width w with (8192 * w) % narrow != 0
                    SZ = {"i1": 1, "u1": 1, "i2": 2, "u2": 2, "i4": 4, "u4": 4, "f4": 4, "i8": 8, "u8": 8, "f8": 8}
                    def reclen(sch):
                        n = sum(SZ[t] for _, t in sch)
                        return 8 + (n + 7) // 8 * 8
                    narrow = reclen(c.schema)
                    xt = "i4"
                    for cand in ("i4", "i8"):
                        if (8192 * reclen(list(c.schema) + [("xtra", cand)])) % narrow != 0:
                            xt = cand
                            break
                    cs.schema = list(c.schema) + [("xtra", xt)]
                bks[s] = Bucket(cs, d, kind, it["tfc"], content, it["z"], "%s/%s/%s" % (names[s], tf, ag), c.T, rng)
                ops += bks[s].setup_ops(True)
            base = len(ops)
            colmap = {"c1": c.schema[0][0], "c2": c.schema[1][0], "zz": "zz"}
            if len(c.schema) > 2 and rng.random() < 0.5:
                colmap["c2"] = c.schema[-1][0]
            qs = []
            cand = []
            for rr in (rs if len(rs) <= per_bucket else rng.sample(rs, per_bucket)):
                s, e = pos_time(bks["A"], rr["s"], "s", rng), pos_time(bks["A"], rr["e"], "e", rng)
                if s == "skip" or e == "skip":
                    continue
                cand.append((rr, s, e))
            chosen = pick(rng, cand, lambda x: query_cost(c, x[1], x[2]) * max(1, len(x[0]["esyms"])) * (3 if x[0]["cols"] else 2), budget_ms,
                          base_ms=2.0, always=6)
            # always: the widest projected multi-symbol queries over buckets of different record widths
            if het:
                def width(x):
                    return (x[2] if x[2] is not None else 2 ** 62) - (x[1] if x[1] is not None else 0)
                musts = sorted([x for x in cand if x[0]["cols"] and not x[0]["n"] and
                                (x[0]["star"] or ("C" in x[0]["syms"] and ("A" in x[0]["syms"] or "B" in x[0]["syms"])))], key=lambda x: -width(x))[:4]
                chosen = list(chosen) + [x for x in musts if not any(x is y for y in chosen)]
            for rr, s, e in chosen:
                asked = sorted(rr["syms"])
                rng.shuffle(asked)
                dest = "%s/%s/%s" % ("*" if rr["star"] else ",".join(names[x] for x in asked), tf, ag)
                cols = [colmap[x] for x in rr["cols"]]
                qd = dict(r=rr, s=s, e=e, cols=cols, at=len(ops), single={}, plain={})
                ops.append(query_op(dest, s, e, rr["n"], rr["dir"], cols))
                for x in rr["esyms"]:
                    one = "%s/%s/%s" % (names[x], tf, ag)
                    qd["single"][x] = len(ops)
                    ops.append(query_op(one, s, e, rr["n"], rr["dir"], cols))
                    if cols:
                        qd["plain"][x] = len(ops)
                        ops.append(query_op(one, s, e, rr["n"], rr["dir"]))
                qs.append(qd)
            cid = "m%dx%d" % (n, bn)
            cases.append({"id": cid, "ops": ops})
            meta[cid] = (bks, names, base, qs, ops, colmap)
    import time as _time
    t0 = _time.time()
    obs = vlib.run_cases(binary, cases, timeout=3000 if quick else 7000)
    vlib.log("[replay] %d operations in %.1fs" % (sum(len(x["ops"]) for x in cases), _time.time() - t0))
    res.cov["replay_wall_s"] = round(_time.time() - t0, 1)
    shutil.rmtree(root, ignore_errors=True)
    nq = 0
    shapes = set()
    for cid, (bks, names, base, qs, ops, colmap) in meta.items():
        o = obs.get(json.dumps(cid))
        b = bks["A"]
        what = "%s (%s, %s)" % (b.key, b.kind, b.c.tf)
        replay0 = {"check": "storequery", "prop": prop, "kind": b.kind, "concretisation": b.c.describe(),
                   "contents": {s: bks[s].content for s in bks}, "symbols": names, "seed": vlib.seed()}
        if o is None:
            raise Undecided("no observation for case %s" % cid)
        if isinstance(o, dict) and "died" in o:
            res.violation("server process died (%s) during the queries on %s: %s" % (o["died"], what, o["stderr"][-500:]), dict(replay0, ops=ops))
            continue
        for k in range(base):
            if o[k].get("driver_error") or o[k].get("err") or o[k].get("panic"):
                raise Undecided("set-up of %s failed: %s" % (what, o[k]))
        res.cov["traces_validated_against_impl"] += 1
        time_cols = ["Epoch"] + (["Nanoseconds"] if b.kind == "variable" else [])
        for qd in qs:
            rr = qd["r"]
            nq += 1
            shapes.add((rr["star"], len(rr["syms"]), tuple(rr["cols"]), rr["n"], rr["dir"], rr["s"]))
            multi = parse_obs(o[qd["at"]])
            setup = []
            for s in bks:
                setup += bks[s].setup_ops(True)
            replay = dict(replay0, ops=setup + [ops[qd["at"]]] + [ops[k] for k in qd["single"].values()] + [ops[k] for k in qd["plain"].values()], model_case=rr)
            qdesc = "%s" % {k: v for k, v in ops[qd["at"]].items() if k != "op"}
            if not rr["esyms"]:
                # only missing symbols: no rows (an error saying so is fine)
                if isinstance(multi, str):
                    if "no files returned" not in multi.lower():
                        res.violation("query for missing symbols only %s failed with %s" % (qdesc, multi), replay)
                elif any(rows for _, rows in multi.values()):
                    res.violation("query for missing symbols only %s returned rows: %s" % (qdesc, multi), replay)
                continue
            known_case = bool(rr["hit"])      # a deviation of C11/C12 is in play for some symbol: still compare multi with single
            for x in rr["esyms"]:
                sym = names[x]
                single = parse_obs(o[qd["single"][x]])
                if isinstance(single, str):
                    if "no files returned" in single.lower():
                        single = {sym: ([], [])}
                    else:
                        raise Undecided("single query on %s failed (not a C13 matter): %s" % (sym, single))
                s_names, s_rows = single.get(sym, ([], []))
                data_cols = [n for n, _ in bks[x].c.schema]
                if isinstance(multi, str):
                    if rr["kerr"] == "shape":
                        break       # buckets of different shapes without a common column list: a refusal is tolerated
                    res.violation("multi-symbol query %s failed with %s although the single query on %s works" % (qdesc, multi, sym), replay)
                    break
                m_names, m_rows = multi.get(sym, ([], []))
                if m_rows != s_rows or (m_rows and m_names != s_names):
                    res.violation("multi-symbol query %s returned for %s columns %s rows %s; the single query on %s returns columns %s rows %s" % (
                        qdesc, sym, m_names, str(m_rows)[:300], sym, s_names, str(s_rows)[:300]), replay)
                    break
                # projection against the unprojected single query
                if qd["cols"]:
                    plain = parse_obs(o[qd["plain"][x]])
                    if isinstance(plain, str):
                        if "no files returned" in plain.lower():
                            plain = {sym: ([], [])}
                        else:
                            raise Undecided("single query on %s failed (not a C13 matter): %s" % (sym, plain))
                    p_names, p_rows = plain.get(sym, ([], []))
                    if len(p_rows) != len(s_rows):
                        res.violation("query %s with columns %s returned %d rows for %s, without a column list %d rows" % (qdesc, qd["cols"], len(s_rows), sym, len(p_rows)), replay)
                        break
                    if not s_rows:
                        continue
                    want = set(time_cols) | (set(qd["cols"]) & set(data_cols))
                    got = norm_names(s_names, set(time_cols) | set(data_cols))
                    if set(got) != want:
                        res.violation("query %s with columns %s returned columns %s for %s; the time columns and the requested columns are %s" % (
                            qdesc, qd["cols"], s_names, sym, sorted(want)), replay)
                        break
                    bad = None
                    for ci, nm in enumerate(got):
                        pi = p_names.index(nm)
                        if [row[ci] for row in s_rows] != [row[pi] for row in p_rows]:
                            bad = nm
                    if bad:
                        res.violation("query %s with columns %s returned other values in column %s for %s than the query without a column list" % (qdesc, qd["cols"], bad, sym), replay)
                        break
                    # model agreement on the column order (information only, never a violation)
                    exp_cols = [colmap.get(x2, x2) for x2 in (rr["kcols"][x] if isinstance(rr["kcols"], dict) else [])]
                    if got != exp_cols:
                        res.cov["column_order_differs_from_model"] = res.cov.get("column_order_differs_from_model", 0) + 1
                # rows against the model (only where no C11/C12 deviation is in play)
                if not known_case and not qd["cols"]:
                    tri = bks[x].triples(full_rows(single, sym, bks[x].c.schema, b.kind))
                    if tri != rr["erows"][x]:
                        raise Undecided("single query on %s returns %s, the model expects %s (a C11/C12 matter)" % (sym, tri, rr["erows"][x]))
            if not isinstance(multi, str):
                extra = set(multi) - set(names[x] for x in rr["esyms"])
                if any(multi[k][1] for k in extra):
                    res.violation("multi-symbol query %s returned rows for symbols that were not asked for: %s" % (qdesc, sorted(extra)), replay)
        res.sample({"symbols": names, "kind": b.kind, "concretisation": b.c.describe(), "contents": {s: bks[s].content for s in bks},
                    "queries": [{k: v for k, v in ops[x["at"]].items() if k != "op"} for x in qs[:4]]}, limit=3)
    res.cov["queries_replayed"] = nq
    res.cov["distinct_request_shapes_replayed"] = len(shapes)
    res.cov["timeframes"] = tfs
    res.assumptions += ["time zone UTC", "all buckets of one request share one schema", "every case group has its own attribute group, so '*' expands to exactly its three buckets"]
    return res.finish()


def run(prop, tier):
    # every second case goes through the gRPC front end (frontend.GRPCService, requests and responses passed through the
    # protobuf wire format), the others through the msgpack-RPC DataService: the property does not depend on the transport
    os.environ.setdefault("VERIF_FRONT", "mix")
    if prop in ("C11", "C12"):
        return run_single(prop, tier)
    return run_multi(prop, tier)


def replay(rp):
    """re-run the operations of a stored violation against the current tree and show what comes back"""
    binary = vlib.build_harness()
    root = os.path.join(vlib.scratch(), "root_replay")
    ops = rp["replay"]["ops"]
    obs = vlib.run_cases(binary, [{"id": "start", "ops": [{"op": "start", "root": root}]}, {"id": "r", "ops": ops}])
    shutil.rmtree(root, ignore_errors=True)
    o = obs.get(json.dumps("r"))
    print(rp["description"])
    if isinstance(o, dict):
        print("process died:", o)
        return 1
    for op, ob in zip(ops, o):
        if op["op"] == "query":
            print("query", {k: v for k, v in op.items() if k != "op"}, "=>", parse_obs(ob))
    if "expected_rows" in rp["replay"]:
        print("expected rows (model ids [interval, offset class, copy]):", rp["replay"]["expected_rows"])
    return 0
