"""C05 / C35: the background WAL writer loop (SyncWAL): timer flushes, requested flushes, checkpoints, rotation,
graceful shutdown, crashes.  Same machinery as walcrash (Wal.tla, Wal_Trace.tla, strace recording, crash images),
with the real SyncWAL goroutine running at millisecond periods."""
PROPS = ["C05", "C35"]
READY = True
CLAIMS = {
 "C05": dict(technique="TLC model checking of Wal.tla in loop mode (timer/requested flush of any queue prefix, checkpoint, rotation, kill and power-loss crashes, start-up replay) + TLC trace validation of strace/hook-recorded executions of the real SyncWAL loop + crash images",
             text="Wal.tla in LoopMode is model-checked exhaustively (AckedSurvive, NoPhantomNoDup, StartupOk, CleanWhenCheckpointed, action properties TgMonotone and TruncateSafe; kill and, in the thorough tier, power loss); the real SyncWAL goroutine is run with millisecond periods and rotation under strace with hook markers in the same log, every recorded execution must be a behaviour of the specification (Wal_Trace.tla: every WAL fragment, fsync, primary write, checkpoint step, truncate and status rewrite is the next action with the logged arguments), order monitors (FsyncBeforeAck, CkptCompleteAfterSync, TruncateOnlyAfterCkpt) are evaluated on the traces, and sampled system-call prefixes are restarted as crash images and checked for the acknowledged transactions.",
             note="One client; thread interleavings are those the scheduler produced during the runs (counts of loop events observed are in the evidence), not forced; TLC bounds: 2 requests x 2 commands, 1 checkpoint, 1 rotation, 1 crash."),
 "C35": dict(technique="TLC invariant CleanWhenCheckpointed on Wal.tla (inline and loop mode) + real graceful shutdown (SyncWAL shutdown branch / flush+checkpoint) and restart in a new process, query equality",
             text="TLC checks that in every state where everything queued is flushed and checkpointed the WAL holds nothing a restart would replay; on the real code TLC-generated request scripts run against the real background loop (millisecond periods) or the inline writer, all buckets are queried, Shutdown() is called after a seeded delay so that it lands relative to timer flushes, checkpoints and rotations, the server is restarted in a fresh process and every query must return exactly the same rows; exactly one WAL file may remain.",
             note="Shutdown is requested by the same sequential client after its last acknowledgement; concurrent writers at shutdown are not exercised."),
}

import json, os, random, shutil
import vlib, walrec, walabs
import walcrash as W
from vlib import Result, Undecided

LOOP_ENV = {"VERIF_HOOK_MARKS": "1", "VERIF_HOOK_SKIP": "SyncWAL.tickCheck,Queue.before,Queue.after,Dispatcher.append,Dispatcher.dispatch,Dispatcher.recv,WriteCSM.beforeFlush,WriteCSM.afterFlush,RequestFlush.enter"}


def loop_cases(script, conc, root, rng, shutdown=False, rare_ckpt=False):
    cases, meta = W.script_cases(script, conc, root)
    ops = cases[0]["ops"]
    # rare_ckpt: the loop flushes but does not checkpoint during the script, so that several transaction groups wait
    # un-checkpointed in the WAL (what start-up replay has to apply, in commit order)
    ops[0].update({"loop_wal_ms": rng.choice([1, 2, 3]), "loop_prim_ms": (600000 if rare_ckpt else rng.choice([3, 5, 8])), "rotate": rng.choice([1, 2, 3])})
    for k, o in enumerate(ops):
        if o["op"] == "checkpoint":   # the loop checkpoints by itself: give it time instead
            ms = rng.choice([0, 4, 9, 15])
            o.clear()
            o.update({"op": "sleep", "sleep_ms": ms})
            meta[k] = ("sleep", None)
    return cases, meta


def record_loop(binary, script, conc, rng, tag, tail=None, rare_ckpt=False):
    root = os.path.join(vlib.scratch(), "lrec_%s" % tag)
    if os.path.exists(root):
        shutil.rmtree(root)
    cases, meta = loop_cases(script, conc, root, rng, rare_ckpt=rare_ckpt)
    for o in (tail or [{"op": "sleep", "sleep_ms": rng.choice([0, 3, 12, 25])}]):
        cases[0]["ops"].append(o)
        meta.append((o["op"], None))
    events, obs, rc = walrec.record(binary, cases, root, tag=tag, extra_env=LOOP_ENV)
    if rc != 0 or json.dumps("w") not in obs:
        raise Undecided("loop recording failed rc=%s" % rc)
    for o in obs[json.dumps("w")]:
        if o.get("panic") or o.get("driver_error"):
            raise Undecided("loop recording: op failed: %s" % str(o)[:300])
    shutil.rmtree(root, ignore_errors=True)
    return events, meta, cases


def hook_counts(events):
    c = {}
    for e in events:
        if e["k"] == "mark" and " hook " in e["text"]:
            p = e["text"].split()[3]
            c[p] = c.get(p, 0) + 1
    return c


LOOP_BASE = dict(FixedFiles='{"F"}', VarFiles='{"V"}', Slots='{1,2}', MaxReq=2, MaxCmds=2, MaxCrash=1, MaxCkpt=1, PowerLoss="FALSE",
                 LoopMode="TRUE", MaxRot=1, Deviations="{}")


def model_check_loop(res, tier, invs, power):
    consts = dict(LOOP_BASE)
    r = vlib.run_tlc("Wal", "loop_kill.cfg", cfg_text=vlib.cfg_text(consts, invariants=invs, view="View", properties=["TgMonotone", "TruncateSafe"]),
                     timeout=4800, heap="16g", coverage=(tier != "quick"))
    vlib.tlc_ok(r, "loop_kill")
    res.tlc(r, "Wal/loop_kill")
    if r["violated"]:
        raise Undecided("MODEL-DRIFT: Wal.tla (loop mode) violates %s" % r["violated"])
    if power and tier != "quick":
        consts["PowerLoss"] = "TRUE"
        r = vlib.run_tlc("Wal", "loop_power.cfg", cfg_text=vlib.cfg_text(consts, invariants=invs, view="View", properties=["TruncateSafe"]),
                         timeout=3000, heap="16g")
        vlib.tlc_ok(r, "loop_power")
        res.tlc(r, "Wal/loop_power")
        if r["violated"]:
            raise Undecided("MODEL-DRIFT: Wal.tla (loop mode, power loss) violates %s" % r["violated"])


def refinement(res, tier):
    """Wal.tla (system-call grain) refines WalCore.tla (message grain): TLC checks WC!Spec and the abstract inductive invariant
    through the refinement mapping of WalRefine.tla.  Design level: a failure is model drift, never a violation."""
    base = dict(FixedFiles='{"F"}', VarFiles='{"V"}', Slots='{1,2}', MaxReq=2, MaxCmds=1, MaxCrash=1, MaxCkpt=1, PowerLoss="FALSE",
                LoopMode="FALSE", MaxRot=0, Deviations="{}")
    cfgs = [("inline_kill", base)]
    if tier != "quick":
        cfgs.append(("loop_power", dict(base, PowerLoss="TRUE", LoopMode="TRUE", MaxRot=1)))
        cfgs.append(("loop_power_2crashes_2ckpts", dict(base, PowerLoss="TRUE", LoopMode="TRUE", MaxRot=1, MaxCrash=2, MaxCkpt=2)))
    for name, consts in cfgs:
        r = vlib.run_tlc("WalRefine", "refine_%s.cfg" % name, cfg_text=vlib.cfg_text(consts, invariants=["AbstractInv"], view="RView", spec="RSpec", properties=["Refines"]),
                         timeout=3000, heap="12g")
        vlib.tlc_ok(r, "WalRefine/" + name)
        res.tlc(r, "WalRefine/%s (Wal refines WalCore)" % name)
        if r["violated"]:
            raise Undecided("MODEL-DRIFT: Wal.tla does not refine WalCore.tla (%s): %s" % (name, r["violated"]))


def apalache_inductive(res):
    """Unbounded part (design level): Apalache discharges the inductive invariant of WalCore.tla - Init => IndInv and
    IndInv /\ Next => IndInv' for every bound of 1..12 transaction groups and any number of checkpoints, truncations,
    power failures and recoveries - and finds the counterexample for each named deviation.  Never decides a violation."""
    import subprocess, tempfile
    out = {}
    d = os.path.join(vlib.scratch(), "apalache")
    os.makedirs(d, exist_ok=True)
    shutil.copy(os.path.join(vlib.SPEC, "WalCore.tla"), d)
    def run(cinit, init, length):
        try:
            p = subprocess.run(["apalache-mc", "check", "--cinit=" + cinit, "--init=" + init, "--inv=IndInv", "--length=%d" % length, "WalCore.tla"],
                               cwd=d, stdout=subprocess.PIPE, stderr=subprocess.STDOUT, text=True, timeout=900)
        except (subprocess.TimeoutExpired, FileNotFoundError) as ex:
            return "not-run: %s" % type(ex).__name__
        if "The outcome is: NoError" in p.stdout:
            return "NoError"
        if "The outcome is: Error" in p.stdout:
            return "Error"
        return "not-run: " + p.stdout[-200:]
    out["Init => IndInv (length 0)"] = run("ConstInit", "Init", 0)
    out["IndInv /\\ Next => IndInv' (length 1)"] = run("ConstInit", "IndInit", 1)
    for dev in ("CkptWithoutSync", "PrepCountsAsDone", "TruncateEarly", "DeleteBeforeDone"):
        out["deviation %s breaks the step (expected Error)" % dev] = run("ConstInit" + dev, "IndInit", 1)
    shutil.rmtree(d, ignore_errors=True)
    res.cov["apalache_inductive_invariant_WalCore"] = out
    if out["Init => IndInv (length 0)"] == "Error" or out["IndInv /\\ Next => IndInv' (length 1)"] == "Error":
        raise Undecided("MODEL-DRIFT: WalCore.tla's inductive invariant is not inductive")


def run_c05(tier):
    res = Result("C05", tier)
    rng = random.Random(vlib.seed() * 7368787 + 5)
    binary = vlib.build_harness()
    quick = tier == "quick"
    model_check_loop(res, tier, ["AckedSurvive", "NoPhantomNoDup", "StartupOk", "Readable", "CleanWhenCheckpointed"], power=True)
    # the known split of a request by a timer flush must be reachable in the model (non-vacuity of the deviation)
    r = vlib.run_tlc("Wal", "loop_split.cfg", cfg_text=vlib.cfg_text(dict(LOOP_BASE, Deviations='{"LoopSplitsRequest"}'), invariants=["InFlightAtomic"], view="View"),
                     timeout=1500, heap="16g")
    res.tlc(r, "Wal/loop_split/InFlightAtomic(expected to fail)")
    scripts, r = W.gen_scripts(rng, 60 if quick else 300)
    res.tlc(r, "WalClient(simulate)")
    scripts, covered = W.pick_scripts(rng, scripts, 4 if quick else 30)
    res.cov["script_features_covered"] = sorted(covered)
    runs = []
    hooks = {}
    for si, script in enumerate(scripts):
        conc = W.Conc(rng)
        events, meta, cases = record_loop(binary, script, conc, rng, "c05_%d" % si, rare_ckpt=(si % 2 == 0))
        ab = walabs.Abstractor(conc, meta).run(events)
        runs.append(dict(script=script, conc=conc, events=events, meta=meta, ab=ab))
        for k, v in hook_counts(events).items():
            hooks[k] = hooks.get(k, 0) + v
    preds, info = W.validate_traces(res, [x["ab"] for x in runs])
    res.cov["trace_validation"] = info
    res.cov["traces_validated_against_impl"] += len(runs) if info["accepted"] else 0
    res.cov["loop_events_observed"] = hooks
    splits = 0
    for si, x in enumerate(runs):
        for viol in W.order_monitors(x):
            res.violation("recorded execution of script %d (background loop): %s" % (si, viol),
                          {"check": "walloop.monitor", "script": x["script"], "conc": x["conc"].describe()})
        nfl = len([a for a in x["ab"] if a["e"] == "flush"])
        nreq = len([a for a in x["ab"] if a["e"] == "issue"])
        if nfl > nreq:
            splits += 1
    res.cov["runs_where_a_timer_flush_split_a_request"] = splits
    # crash images of the loop-mode executions: acknowledged transactions survive, start-up works
    nimg = 0
    known = {k["deviation"]: k for k in vlib.known_findings("C05")}
    for si, x in enumerate(runs):
        pts = W.kill_points(x["events"])
        if len(pts) > (40 if quick else 400):
            # always: the point right after every acknowledgement and the last point; the rest sampled
            must = {pts[-1]}
            for i, e in enumerate(x["events"]):
                if e["k"] == "mark" and " done " in e["text"]:
                    must.add(min([p for p in pts if p > i], default=pts[-1]))
            rest = [p for p in pts if p not in must]
            keep = must | set(rng.sample(rest, max(0, min(len(rest), (40 if quick else 400) - len(must)))))
            pts = [p for p in pts if p in keep]
        obs = W.run_images(binary, x["events"], pts, x["conc"], "c05_%d" % si)
        for j in pts:
            nimg += 1
            issued, acked = W.marker_state(x["events"], j, x["meta"])
            pt = dict(si=si, j=j, issued=issued, acked=acked, obs=obs[j], pred=None, run=x)
            jd = W.judge_point(pt)
            where = "script %d (background loop), kill after event %d (issued %s acked %s)" % (si, j, sorted(issued), sorted(acked))
            replay = {"check": "walloop", "script": x["script"], "conc": x["conc"].describe(), "crash_after_event": j, "seed": vlib.seed()}
            if jd["died"] or jd["start_fail"]:
                f = str(jd["died"] or jd["start_fail"])
                if W.empty_bins_of(x["events"], j) or "corrupt input" in f:
                    continue     # C03's known findings (empty year file / in-place continuation), judged there
                res.violation("%s: restart failed: %s" % (where, f[:300]), replay)
                continue
            if jd["bad"]["C01"]:
                res.violation("%s: acknowledged transactions not all visible after recovery: %s" % (where, "; ".join(jd["bad"]["C01"][:4])), replay)
    res.cov["crash_images"] = nimg
    refinement(res, tier)
    if not quick:
        apalache_inductive(res)
    for x in runs[:2]:
        res.sample({"script": x["script"], "concretisation": x["conc"].describe(), "syscall_events": len(x["events"]), "abstract_events": len(x["ab"])})
    res.assumptions += ["one client; the real SyncWAL goroutine runs with walRefresh 1-3 ms, primaryRefresh 3-8 ms, rotate interval 1-3",
                        "concurrent system calls of different threads are taken in strace's completion order"]
    return res.finish()


def run_c35(tier):
    res = Result("C35", tier)
    rng = random.Random(vlib.seed() * 2750159 + 35)
    binary = vlib.build_harness()
    quick = tier == "quick"
    model_check_loop(res, tier, ["CleanWhenCheckpointed", "NoPhantomNoDup", "AckedSurvive"], power=False)
    # the inline writer too
    r = vlib.run_tlc("Wal", "inline_clean.cfg", cfg_text=vlib.cfg_text(dict(LOOP_BASE, LoopMode="FALSE", MaxRot=0), invariants=["CleanWhenCheckpointed"], view="View"),
                     timeout=1500, heap="16g")
    vlib.tlc_ok(r, "inline_clean")
    res.tlc(r, "Wal/inline_clean")
    if r["violated"]:
        raise Undecided("MODEL-DRIFT: CleanWhenCheckpointed fails in the inline model")
    scripts, r = W.gen_scripts(rng, 60 if quick else 300)
    res.tlc(r, "WalClient(simulate)")
    scripts, covered = W.pick_scripts(rng, scripts, 6 if quick else 40)
    res.cov["script_features_covered"] = sorted(covered)
    hooks = {}
    n = 0
    for si, script in enumerate(scripts):
        conc = W.Conc(rng)
        keys = sorted(conc.buckets())
        root = os.path.join(vlib.scratch(), "c35_%d" % si)
        if os.path.exists(root):
            shutil.rmtree(root)
        loop = si % 3 != 2          # two thirds with the background loop, one third inline writer + explicit shutdown path
        if loop:
            cases, meta = loop_cases(script, conc, root, rng)
        else:
            cases, meta = W.script_cases(script, conc, root)
        ops = cases[0]["ops"]
        ops.append({"op": "sleep", "sleep_ms": rng.choice([0, 0, 1, 2, 4, 7, 11])})
        qstart = len(ops)
        for k in keys:
            ops.append({"op": "query", "dest": k})
        if loop:
            ops.append({"op": "shutdown"})
        else:
            # graceful stop of an instance without background sync = what SyncWAL's shutdown branch does
            ops.append({"op": "flush"})
            ops.append({"op": "checkpoint"})
        env = dict(vlib.GOENV)
        env.update({"VERIF_MARK_FILE": os.path.join(vlib.scratch(), "c35.mark"), "VERIF_HOOK_MARKS": "1",
                    "VERIF_HOOK_SKIP": "SyncWAL.tickCheck"})
        open(env["VERIF_MARK_FILE"], "w").close()
        obs = vlib.run_cases(binary, cases, timeout=300, env=env, tag="c35run")
        o = obs.get(json.dumps("w"))
        for line in open(env["VERIF_MARK_FILE"]):
            if " hook " in line:
                p = line.split()[3]
                hooks[p] = hooks.get(p, 0) + 1
        if o is None or (isinstance(o, dict) and "died" in o):
            res.violation("server died while running script %d followed by a graceful shutdown: %s" % (si, str(o)[:300]),
                          {"check": "walloop.c35", "script": script, "conc": conc.describe()})
            continue
        for x in o:
            if x.get("panic"):
                res.violation("panic during script %d / graceful shutdown: %s" % (si, str(x["panic"])[:300]), {"script": script, "conc": conc.describe()})
        before = list(zip(keys, o[qstart:qstart + len(keys)]))
        # restart in a fresh process on the directory the graceful shutdown left behind
        robs = vlib.run_cases(binary, [W.restart_case("r", root, conc)], timeout=300, tag="c35restart")
        ro = robs.get(json.dumps("r"))
        replay = {"check": "walloop.c35", "script": script, "conc": conc.describe(), "loop": loop, "seed": vlib.seed()}
        n += 1
        if ro is None or (isinstance(ro, dict) and "died" in ro):
            res.violation("restart after graceful shutdown (script %d) died: %s" % (si, str(ro)[:300]), replay)
            continue
        s1, q1, d1, s2, q2, d2 = W.split_restart_obs(ro, conc)
        if s1.get("panic") or s1.get("err"):
            res.violation("restart after graceful shutdown (script %d) failed: %s" % (si, str(s1)[:300]), replay)
            continue
        for (k, b), (k2, a) in zip(before, q1):
            rb, ra = W.rows_of(b, k), W.rows_of(a, k)
            if rb != ra:
                res.violation("query on %s differs across a graceful shutdown + restart (script %d, %s): before %s, after %s" % (
                    k, si, "background loop" if loop else "inline", str(rb)[:400], str(ra)[:400]), replay)
        wals = [p for p in d1["files"] if p.endswith(".walfile")]
        if len(wals) != 1:
            res.violation("after a graceful shutdown and restart %d WAL files remain: %s" % (len(wals), wals), replay)
        res.cov["traces_validated_against_impl"] += 1
        res.sample({"script": script, "concretisation": conc.describe(), "background_loop": loop}, limit=3)
        shutil.rmtree(root, ignore_errors=True)
    # ---- forced: shutdown while a request has queued its commands but not yet asked for the flush ----
    npend = 0
    for ci, var in enumerate([True, False, True]):
        root = os.path.join(vlib.scratch(), "c35_pend%d" % ci)
        if os.path.exists(root):
            shutil.rmtree(root)
        key = "PD%d/1Min/%s" % (ci, "TICK" if var else "OHLC")
        base = 1577836800 + 86400 * 50
        def wr(vals, eps):
            cols = [{"name": "Epoch", "type": "i8", "vals": eps}, {"name": "V", "type": "i4", "vals": vals}]
            if var:
                cols.append({"name": "Nanoseconds", "type": "i4", "vals": [1000 + 977 * v for v in vals]})
            return {"op": "write", "var": var, "via": "csm", "buckets": [{"key": key, "cols": cols}]}
        first = wr([1, 2], [base, base + (0 if var else 60)])
        pend = wr([3, 4, 5], [base + (0 if var else 120 + 60 * k) for k in range(3)] if not var else [base + 60] * 3)
        actors = {"A": [pend], "S": [{"op": "shutdown"}]}
        sched = [{"actor": "A", "until": "WriteCSM.beforeFlush", "label": "A queued its commands, flush not requested yet"},
                 {"actor": "S", "until": "done", "label": "graceful shutdown"}]
        ops = [{"op": "start", "root": root, "loop_wal_ms": rng.choice([600000, 3]), "loop_prim_ms": 600000}, first,
               {"op": "play", "x": {"actors": actors, "gated": ["WriteCSM.beforeFlush"], "schedule": sched, "timeout_ms": 3000, "finish": False}},
               {"op": "query", "dest": key}]
        obs = vlib.run_cases(binary, [{"id": "w", "ops": ops}], timeout=300, tag="c35pend")
        o = obs.get(json.dumps("w"))
        replay = {"check": "walloop.c35.pending", "variable": var, "schedule": sched, "seed": vlib.seed()}
        if o is None or (isinstance(o, dict) and "died" in o):
            res.violation("server died during a graceful shutdown with a queued, not yet flushed request: %s" % str(o)[-300:], replay)
            continue
        if o[2].get("drift") or o[1].get("err"):
            res.cov.setdefault("pending_scenario_drift", []).append(str(o[2].get("drift") or o[1].get("err"))[:200])
            shutil.rmtree(root, ignore_errors=True)
            continue
        before = o[3]
        robs = vlib.run_cases(binary, [{"id": "r", "ops": [{"op": "start", "root": root}, {"op": "query", "dest": key}]}], timeout=300, tag="c35pendr")
        ro = robs.get(json.dumps("r"))
        shutil.rmtree(root, ignore_errors=True)
        if ro is None or (isinstance(ro, dict) and "died" in ro) or ro[0].get("panic") or ro[0].get("err"):
            res.violation("restart after a graceful shutdown that found a queued request failed: %s" % str(ro)[-300:], replay)
            continue
        rb, ra = W.rows_of(before, key), W.rows_of(ro[1], key)
        npend += 1
        if rb != ra:
            res.violation("query on %s differs across a graceful shutdown (with a queued, not yet flushed request) + restart: right after the shutdown %s, after the restart %s" % (
                key, str(rb)[:300], str(ra)[:300]), replay)
        res.cov["traces_validated_against_impl"] += 1
    res.cov["shutdown_with_pending_request_scenarios"] = npend
    res.cov["shutdown_restart_histories"] = n
    res.cov["loop_events_observed"] = hooks
    res.assumptions += ["shutdown is requested after the last acknowledgement with a seeded delay of 0-11 ms while the real SyncWAL goroutine runs with "
                        "millisecond periods, so that it lands in timer flushes, checkpoints and rotations (counts of the loop events seen are in the evidence)"]
    return res.finish()


def run(prop, tier):
    return run_c05(tier) if prop == "C05" else run_c35(tier)
