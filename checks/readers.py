"""C18: concurrent writes and queries are safe and read-committed.

Readers.tla (query racing with the two-step variable-length write) is model-checked; its behaviours are forced on the
real writer goroutine with a gate between the data write and the index write while the controller runs real queries;
a free-running stress of writers, readers and the background loop is executed with a -race build."""
PROPS = ["C18"]
READY = True
CLAIMS = {
 "C18": dict(technique="TLC model checking of Readers.tla (query vs two-step variable-length write) + TLC behaviours forced on real writer/reader goroutines with a gate between data and index write + free-running writers/readers/background loop under the Go race detector",
             text="Readers.tla is model-checked (pure: every query is error-free and read-committed; with the listed in-place continuation the corrupt read is produced); its behaviours are executed by real goroutines: each write request is its own goroutine parked by the gate player between the data write and the index write of WriteBufferToFileIndirect while queries run through the real query path; every query must be error-free and return only rows of completed writes. In addition a free-running execution (several writers on fixed and variable buckets, readers, SyncWAL at millisecond periods, rotation, shutdown) is run with a -race build; every race report, panic or query error is judged (listed races by their pair of functions).",
             note="Forced schedules cover the data/index window of the variable-length write and the window between queueing a write command and asking for its flush (another request's flush takes the command: whatever is flushed must be the complete command); other interleavings come from two race-detector executions per run (writers of 1..1500-row requests, readers and the loop at 1 ms with a completeness check of every acknowledged request; a writer that opens a new year file with every request while four readers query that bucket). The whole stderr of those runs is parsed for race reports; three races of the unchanged tree are listed as known findings by exact signature."),
}

import calendar, json, os, random, re, shutil
import vlib
from vlib import Result, Undecided

EPOCH = 1577836800 + 86400 * 33 + 3600 * 5


def write_op(key, k, var=True):
    cols = [{"name": "Epoch", "type": "i8", "vals": [EPOCH]}, {"name": "V", "type": "i8", "vals": [1000 + k]}]
    if var:
        cols.append({"name": "Nanoseconds", "type": "i4", "vals": [1000 * k + 7]})
    return {"op": "write", "var": var, "via": "csm", "buckets": [{"key": key, "cols": cols}]}


def write_op_multi(key, base, var, nrows):
    """one request with several rows: variable -> all in ONE interval (one multi-row write command), fixed -> consecutive intervals"""
    # incompressible values: a known reader defect (C09) is triggered by highly compressible intervals, not wanted here
    h = random.Random(base * 7919 + nrows)
    vals = [(1000 + base) * 10 ** 9 + h.randrange(10 ** 6) * 1000 + r % 1000 for r in range(nrows)]
    if var:
        cols = [{"name": "Epoch", "type": "i8", "vals": [EPOCH] * nrows}, {"name": "V", "type": "i8", "vals": vals},
                {"name": "Nanoseconds", "type": "i4", "vals": sorted(h.randrange(1000, 999000000) for r in range(nrows))}]
    else:
        cols = [{"name": "Epoch", "type": "i8", "vals": [EPOCH + 60 * (base * 64 + r) for r in range(nrows)]}, {"name": "V", "type": "i8", "vals": vals}]
    return {"op": "write", "var": var, "via": "csm", "buckets": [{"key": key, "cols": cols}]}, vals


def query_vals(q):
    if q.get("panic"):
        return "panic: " + str(q["panic"])[:200]
    if q.get("err"):
        if "no files returned" in str(q["err"]).lower() or "not in catalog" in str(q["err"]):
            return []
        return "error: " + str(q["err"])[:200]
    out = []
    for k, cols in (q.get("result") or {}).items():
        for col in cols:
            if col["name"] == "V":
                out += col["vals"]
    return out


def run(prop, tier):
    res = Result(prop, tier)
    rng = random.Random(vlib.seed() * 57885161 + 18)
    binary = vlib.build_harness()
    quick = tier == "quick"
    known = {k["deviation"]: k for k in vlib.known_findings(prop)}
    nw = 3
    r = vlib.run_tlc("Readers", "rd_pure.cfg", cfg_text=vlib.cfg_text(dict(NW=nw, Deviations="{}"), invariants=["ReadCommitted"], view="View"), timeout=600)
    vlib.tlc_ok(r, "Readers pure")
    res.tlc(r, "Readers/pure")
    if r["violated"]:
        raise Undecided("MODEL-DRIFT: Readers.tla (pure) violates ReadCommitted")
    r = vlib.run_tlc("Readers", "rd_dev.cfg", cfg_text=vlib.cfg_text(dict(NW=nw, Deviations='{"InPlace"}'), invariants=["ReadCommitted"], view="View"), timeout=600)
    res.tlc(r, "Readers/InPlace(expected to fail)")
    if not r["violated"]:
        raise Undecided("MODEL-DRIFT: InPlace no longer breaks ReadCommitted in the model")
    r = vlib.run_tlc("Readers", "rd_sim.cfg", cfg_text=vlib.cfg_text(dict(NW=nw, Deviations='{"InPlace"}'), invariants=["Emit"], view="View"),
                     simulate=(60 if quick else 600), depth=40, seed_=rng.randrange(1, 2 ** 31), workers=1, timeout=600)
    vlib.tlc_ok(r, "Readers simulate")
    res.tlc(r, "Readers/simulate")
    behs = list({json.dumps(b): b for b in r["records"].get("BEH", [])}.values())
    behs = [b for b in behs if any(s["act"] == "Query" for s in b)]
    rng.shuffle(behs)
    behs = behs[:(16 if quick else 120)]
    if not behs:
        raise Undecided("no behaviours from TLC")
    cases, meta = [], {}
    for bi, beh in enumerate(behs):
        root = os.path.join(vlib.scratch(), "c18_%d" % bi)
        tf = rng.choice(["1Min", "1H", "5Min", "1D"])
        key = "RW/%s/TICK" % tf
        actors = {"w%d" % k: [write_op(key, k)] for k in range(1, nw + 1)}
        sched = []
        k = 0
        for st in beh:
            if st["act"] == "Start":
                k += 1
            elif st["act"] == "Data":
                sched.append({"actor": "w%d" % k, "until": "Indirect.afterData", "label": "Data"})
            elif st["act"] == "Index":
                sched.append({"actor": "w%d" % k, "until": "done", "label": "Index"})
            elif st["act"] == "Query":
                sched.append({"actor": "reader", "until": "done", "label": "Query:" + st["until"]})
        # queries are run by an actor of their own so that they really are another goroutine
        nq = len([s for s in sched if s["actor"] == "reader"])
        # one reader actor per query
        qi = 0
        for s in sched:
            if s["actor"] == "reader":
                qi += 1
                s["actor"] = "r%d" % qi
                actors["r%d" % qi] = [{"op": "query", "dest": key}]
        ops = [{"op": "start", "root": root},
               {"op": "play", "x": {"actors": actors, "gated": ["Indirect.afterData"], "schedule": sched, "timeout_ms": 500, "finish": True}}]
        cases.append({"id": bi, "ops": ops})
        meta[json.dumps(bi)] = (beh, sched, root, key)
    obs = vlib.run_cases(binary, cases, timeout=1800, tag="c18")
    played = drifts = 0
    for cid, (beh, sched, root, key) in meta.items():
        shutil.rmtree(root, ignore_errors=True)
        o = obs.get(cid)
        replay = {"check": "readers", "schedule": sched, "key": key, "seed": vlib.seed()}
        if o is None:
            raise Undecided("no observation")
        if isinstance(o, dict) and "died" in o:
            res.violation("the server died during a write/query schedule: %s" % (o.get("stderr") or o.get("stdout") or "")[-400:], replay)
            continue
        play = o[1]
        if play.get("driver_error") or play.get("panic"):
            raise Undecided("player failed: %s" % str(play)[:300])
        if play["drift"]:
            drifts += 1
            continue
        played += 1
        res.cov["traces_validated_against_impl"] += 1
        completed = set()
        for st in play["steps"]:
            lab = st.get("label", "")
            if lab == "Index":
                w = (st.get("obs") or [{}])[0]
                if w.get("panic") or w.get("err"):
                    res.violation("write failed in schedule: %s" % str(w)[:300], replay)
                completed.add(1000 + int(st["actor"][1:]))
            if lab.startswith("Query:"):
                q = (st.get("obs") or [{}])[0]
                vals = query_vals(q)
                expect = lab.split(":")[1]
                if isinstance(vals, str):
                    if expect == "corrupt" and "InPlace" in known and "corrupt input" in vals:
                        res.known_finding(known["InPlace"], {"schedule": [(s["actor"], s["until"]) for s in sched], "query_result": vals})
                    else:
                        res.violation("a query running between the data write and the index write of another request returned %s" % vals, replay)
                elif not set(vals) <= completed:
                    res.violation("a query returned rows %s of which %s come from a write that had not completed" % (vals, sorted(set(vals) - completed)), replay)
        res.sample({"schedule": [(s["actor"], s["label"]) for s in sched], "key": key}, limit=2)
    res.cov["schedules_played"] = played
    res.cov["schedules_infeasible_on_real_code"] = drifts
    if played < max(2, len(meta) // 3):
        raise Undecided("only %d of %d schedules could be forced" % (played, len(meta)))
    # ---- forced: a request is parked right after it queued a write command while another request's flush takes that
    #      command; whatever is flushed then must be the complete command (a completed write is never partial) ----
    cases, meta = [], {}
    for ci, (var, nrows) in enumerate([(True, 60), (True, 2), (False, 5)]):
        root = os.path.join(vlib.scratch(), "c18_q%d" % ci)
        keyA, keyB = "QA/1Min/%s" % ("TICK" if var else "OHLC"), "QB/1Min/OHLC"
        opA, valsA = write_op_multi(keyA, 7000 + ci, var, nrows)
        opB, valsB = write_op_multi(keyB, 7100 + ci, False, 1)
        actors = {"A": [opA, {"op": "query", "dest": keyA}], "B": [opB]}
        sched = [{"actor": "A", "until": "Queue.after", "label": "A queued a command"},
                 {"actor": "B", "until": "Queue.after", "label": "B queued"},
                 {"actor": "B", "until": "done", "label": "B flushes everything queued"}]
        ops = [{"op": "start", "root": root, "loop_wal_ms": 600000, "loop_prim_ms": 600000},
               {"op": "play", "x": {"actors": actors, "gated": ["Queue.after"], "schedule": sched, "timeout_ms": 800, "finish": True}},
               {"op": "shutdown"}]
        cases.append({"id": "q%d" % ci, "ops": ops})
        meta["q%d" % ci] = (valsA, keyA, sched, root, nrows)
    qobs = vlib.run_cases(binary, cases, timeout=600, tag="c18q")
    nq = 0
    for cid, (valsA, keyA, sched, root, nrows) in meta.items():
        shutil.rmtree(root, ignore_errors=True)
        o = qobs.get(json.dumps(cid))
        replay = {"check": "readers.queue", "schedule": sched, "key": keyA, "rows": nrows, "seed": vlib.seed()}
        if o is None or (isinstance(o, dict) and "died" in o):
            res.violation("the server died while a parked request's command was flushed by another request: %s" % str(o)[-300:], replay)
            continue
        play = o[1]
        fin = (play.get("finished") or {}).get("A") or []
        if play.get("drift") and len(fin) < 2:
            res.cov.setdefault("queue_scenario_drift", []).append(play["drift"])
            continue
        if len(fin) < 2 or fin[0].get("err") or fin[0].get("panic"):
            continue
        got = query_vals(fin[1])
        nq += 1
        if isinstance(got, str):
            res.violation("query after a successful multi-row write failed: %s" % got, replay)
        else:
            missing = [v for v in valsA if v not in got]
            if missing:
                res.violation("a write request of %d rows to %s returned success while another request's flush had taken its command early: %d rows are missing afterwards (e.g. %s)" % (
                    nrows, keyA, len(missing), missing[:4]), replay)
    res.cov["queue_scenarios_played"] = nq
    res.cov["traces_validated_against_impl"] += nq
    # ---- free-running stress with the race detector ----
    rbin = vlib.build_harness(race=True)
    root = os.path.join(vlib.scratch(), "c18_race")
    actors = {}
    nwr = 4 if quick else 8
    written = {}       # actor -> [(key, vals)] per request
    allkeys = set()
    for w in range(nwr):
        key = "S%d/1Min/%s" % (w % 3, "TICK" if w % 2 else "OHLC")
        allkeys.add(key)
        actors["w%d" % w] = []
        written["w%d" % w] = []
        for k in range(6 if quick else 25):
            op, vals = write_op_multi(key, 100 * w + k, bool(w % 2), rng.choice([1, 3, 40, 1500] if w % 2 else [1, 3, 40]))
            actors["w%d" % w].append(op)
            written["w%d" % w].append((key, vals))
    # a writer whose every request opens a NEW YEAR of a bucket that readers are querying (catalog AddFile vs planner)
    ykey = "S0/1Min/OHLC"
    actors["wy"] = []
    written["wy"] = []
    for k, year in enumerate(list(range(2001, 2017)) if quick else list(range(1975, 2018))):
        ep = calendar.timegm((year, 6, 1, 12, 0, 0))
        v = 990000000000 + year
        actors["wy"].append({"op": "write", "var": False, "via": "csm", "buckets": [{"key": ykey, "cols": [
            {"name": "Epoch", "type": "i8", "vals": [ep]}, {"name": "V", "type": "i8", "vals": [v]}]}]})
        written["wy"].append((ykey, [v]))
    for rd in range(3):
        key = "S%d/1Min/%s" % (rd, "TICK" if rd % 2 else "OHLC")
        actors["r%d" % rd] = [{"op": "query", "dest": key} for _ in range((80 if rd == 0 else 10) if quick else (300 if rd == 0 else 40))]
    actors["ry"] = [{"op": "query", "dest": ykey} for _ in range(80 if quick else 300)]
    ops = [{"op": "start", "root": root, "loop_wal_ms": 1, "loop_prim_ms": 7, "rotate": 2},
           {"op": "par", "x": {"actors": actors}}, {"op": "sleep", "sleep_ms": 30}] + [{"op": "query", "dest": k} for k in sorted(allkeys)] + [{"op": "shutdown"}]
    env = dict(vlib.GOENV, GORACE="halt_on_error=0 exitcode=0")
    robs = vlib.run_cases(rbin, [{"id": "race", "ops": ops}], timeout=900, env=env, tag="c18race", stderr_tail=4000000)
    shutil.rmtree(root, ignore_errors=True)
    stderr = robs.get("_stderr", "")
    o = robs.get(json.dumps("race"))
    if isinstance(o, dict) and "died" in o:
        res.violation("the server died under concurrent writers/readers: %s" % (o.get("stderr") or "")[-600:], {"check": "readers.stress"})
    else:
        par = o[1]
        for name, aobs in (par.get("actors") or {}).items():
            for x in aobs:
                if x.get("panic"):
                    res.violation("panic under concurrent load in %s: %s" % (name, str(x["panic"])[:300]), {"check": "readers.stress"})
                elif name.startswith("r") and x.get("err") and "no files" not in str(x["err"]).lower() and "not in catalog" not in str(x["err"]):
                    if "corrupt input" in str(x["err"]) and "InPlace" in known:
                        res.known_finding(known["InPlace"], {"stress": True, "query_error": str(x["err"])[:160]})
                    else:
                        res.violation("query error under concurrent load: %s" % str(x["err"])[:300], {"check": "readers.stress"})
    if not (isinstance(o, dict) and "died" in o):
        # every row of every write request that returned success is there afterwards (a completed write is never partial)
        final = {}
        corrupt = False
        for k, qo in zip(sorted(allkeys), o[3:3 + len(allkeys)]):
            v = query_vals(qo)
            if isinstance(v, str):
                corrupt = corrupt or "corrupt input" in v
                final[k] = None
            else:
                final[k] = v
        nreq = 0
        for name, reqs in written.items():
            aobs = (o[1].get("actors") or {}).get(name) or []
            for (key, vals), wo in zip(reqs, aobs):
                if wo.get("err") or wo.get("panic") or final.get(key) is None:
                    continue
                nreq += 1
                missing = [v for v in vals if v not in final[key]]
                if missing:
                    res.violation("free-running writers with the background loop: write request of %s to %s returned success with %d rows, afterwards %d of them are missing (e.g. %s)" % (
                        name, key, len(vals), len(missing), missing[:5]), {"check": "readers.stress", "seed": vlib.seed()})
                    break
        res.cov["stress_requests_checked_for_completeness"] = nreq
        res.cov["traces_validated_against_impl"] += 1
    # ---- a second free-running execution under the race detector: one writer opens a new year file with every request
    #      (catalog: AddFile registers it in the bucket's file map) while readers keep querying that bucket ----
    root2 = os.path.join(vlib.scratch(), "c18_years")
    ykey2 = "ROLL/1D/VAL"
    years = list(range(1972, 2032)) if quick else list(range(1972, 2132))     # (a plain query starts at 1970)
    wyops, want = [], []
    for year in years:
        ep = calendar.timegm((year, 1, 2, 0, 0, 0))
        wyops.append({"op": "write", "var": False, "via": "csm", "buckets": [{"key": ykey2, "cols": [
            {"name": "Epoch", "type": "i8", "vals": [ep]}, {"name": "V", "type": "i8", "vals": [ep * 3 + 7]}]}]})
        want.append(ep * 3 + 7)
    actors2 = {"wy": wyops}
    for rd in range(4):
        actors2["q%d" % rd] = [{"op": "query", "dest": ykey2} for _ in range(150 if quick else 600)]
    first = {"op": "write", "var": False, "via": "csm", "buckets": [{"key": ykey2, "cols": [
        {"name": "Epoch", "type": "i8", "vals": [calendar.timegm((1971, 1, 2, 0, 0, 0))]}, {"name": "V", "type": "i8", "vals": [1]}]}]}
    ops2 = [{"op": "start", "root": root2}, first, {"op": "query", "dest": ykey2}, {"op": "par", "x": {"actors": actors2}}, {"op": "query", "dest": ykey2}]
    robs2 = vlib.run_cases(rbin, [{"id": "years", "ops": ops2}], timeout=900, env=env, tag="c18years", stderr_tail=4000000)
    shutil.rmtree(root2, ignore_errors=True)
    stderr += robs2.get("_stderr", "")
    o2 = robs2.get(json.dumps("years"))
    if isinstance(o2, dict) and "died" in o2:
        res.violation("the server died while a writer opened new year files and readers queried the bucket: %s" % ((o2.get("stderr") or "") + (o2.get("stdout") or ""))[-600:],
                      {"check": "readers.newyears", "seed": vlib.seed()})
    else:
        completed_before = {1}
        for name, aobs in (o2[3].get("actors") or {}).items():
            for x in aobs:
                if x.get("panic"):
                    res.violation("panic while new year files are opened under queries (%s): %s" % (name, str(x["panic"])[:300]), {"check": "readers.newyears"})
                elif name.startswith("q"):
                    v = query_vals(x)
                    if isinstance(v, str):
                        res.violation("query error while new year files are opened: %s" % v, {"check": "readers.newyears", "seed": vlib.seed()})
                    elif not set(v) <= set(want) | {1}:
                        res.violation("a query returned rows nobody wrote: %s" % sorted(set(v) - set(want) - {1})[:5], {"check": "readers.newyears"})
        fin = query_vals(o2[4])
        if not isinstance(fin, str) and sorted(fin) != sorted(want + [1]):
            res.violation("after %d acknowledged new-year writes a query returns %d of %d rows" % (len(want), len(fin), len(want) + 1), {"check": "readers.newyears", "seed": vlib.seed()})
        res.cov["new_year_files_opened_under_queries"] = len(years)
        res.cov["traces_validated_against_impl"] += 1
    races = parse_races(stderr)
    res.cov["race_reports"] = len(races)
    for sig, text in races.items():
        kf = None
        for k in known.values():
            if k.get("race_signature") and all(f in sig for f in k["race_signature"]):
                kf = k
            if k.get("race_sig_exact") and k["race_sig_exact"] == sig:
                kf = k
        if kf:
            res.known_finding(kf, {"race": sig})
        else:
            res.violation("data race reported by the race detector: %s\n%s" % (sig, text[:1500]), {"check": "readers.race", "signature": sig})
    res.assumptions += ["forced schedules: one writer goroutine per request (inline flush) and one goroutine per query, gate between data and index write",
                        "race detector run: %d writers, 3 readers, background loop at 2 ms / 7 ms, one execution" % nwr]
    return res.finish()


def parse_races(stderr):
    """-> {signature: text}; signature = sorted top frames (function names) of the two conflicting accesses"""
    out = {}
    for blk in stderr.split("WARNING: DATA RACE")[1:]:
        blk = blk.split("==================")[0]
        tops = []
        for m in re.finditer(r"(?:Read|Write|Previous read|Previous write) at .*?\n\s+(\S+)\(", blk):
            tops.append(m.group(1).split("/")[-1])
        sig = " <-> ".join(sorted(set(tops)))
        out.setdefault(sig, blk)
    return out
