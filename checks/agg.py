"""C21 / C22 / C23: candle aggregation and scalar aggregates.  Agg.tla cases replayed into the real
tickcandler / candlecandler / count / min / max / avg / gap through sqlparser.AggRunner.Run and Accum."""
PROPS = ["C21", "C22", "C23"]
READY = True
CLAIMS = {
 "C21": dict(technique="TLA+ refinement (AddCandle/GetCandle/Output accumulator with Truncate/Ceil/IsWithin vs declarative Candles(rows, w)) checked by TLC; TLC-enumerated row sequences replayed into the real tickcandler / candlecandler",
             text="TLC checks exhaustively (all row sequences up to the bound: windows x in-window times x price levels, duplicate timestamps and every permutation, tick and candle inputs, duration-based and calendar-day windows) that the implementation-shaped candle accumulator (three-branch AddCandle with OpenTime/CloseTime comparisons, high/low updates, sums, Count; GetCandle with Truncate/IsWithin; sorted Output) refines the declarative definition (one candle per non-empty window in time order, open/close = price of an earliest/a latest row, high/low extremes, sums and averages over the window's rows), and that for distinct timestamps every permutation yields the same OHLC. All sequences up to a short length and a seeded sample of the longer ones are replayed into the real aggregates (AggRunner.Run and multi-batch Accum) for every timeframe from 1Sec to 1D with boundary offsets (window start, last nanosecond), price columns of every supported type with negative and extreme float32 values, and the real output is compared with the declarative candles.",
             note="Trusted: TLC, the Python concretisation (model times -> epochs/nanoseconds, levels -> exactly float32-representable values, sums through an exact affine map), UTC. Bounded: quick = ticks <= 4 rows over 2 windows x 3 times x 3 prices and <= 3 rows over 3 x 3 x 4 (duration and calendar-day windows), candle rows <= 3 over 1 x 3 x 3 and 2 x 2 x 2; thorough = ticks <= 4 rows over 3 windows x 3 times x 5 prices, candle rows <= 3 over 2 x 3 x 3. Weeks/months/years and multi-day timeframes (e.g. '2D', which the code treats as '1D') are outside the statement's 'seconds to days'."),
 "C22": dict(technique="TLA+ invariant (fine candles re-aggregated by the candle accumulator = direct coarse aggregation) checked by TLC; TLC-enumerated row sequences replayed through the real call chain tickcandler|candlecandler(fine) -> candlecandler(coarse) for every divisor pair of timeframes",
             text="TLC checks, for every enumerated row sequence (ticks and candles, ties included), that feeding the output of the fine accumulator into the coarse candle accumulator gives exactly the OHLC of the direct coarse accumulation and satisfies the declarative coarse candles (coarse = Ratio x fine, duration and calendar-day coarse windows). The same sequences (all short ones, a seeded sample of the longer ones) are executed on the real code as the call chain fine -> candlecandler(coarse) and as the direct coarse aggregate, for all 55 divisor pairs of utils.Timeframes, with the model's fine windows placed at the first/last/seeded fine windows of the coarse window; the two real outputs must be equal (on tied timestamps either admissible open/close is accepted).",
             note="Trusted: TLC, the Python concretisation, UTC. Bounded: quick = ticks <= 4 rows over 2 coarse windows x 2 fine windows x 2 times x 3 prices, candle rows <= 3 over 1 x 2 x 2 x 2; thorough = 3 fine windows per coarse window, 4 prices, candle rows over 3 prices. The property is relative (composed = direct), so a defect that corrupts both sides alike is C21's, not C22's."),
 "C23": dict(technique="TLA+ refinement (Accum of count/min/max/avg over batches, gap threshold scan vs declarative count/min/max/mean/gap pairs) checked by TLC; every enumerated history replayed into the real aggregates for every numeric column type",
             text="TLC checks exhaustively (value sequences of length 0..4 split into up to 3 Accum batches; time-ordered timestamp sequences x thresholds on and between the gaps, whole seconds and half seconds) that the implementation-shaped accumulators (Count.Sum += Len, Min/Max initialise from the first element then fold, Avg sum/count, Gap epochs[1:]-epochs[:-1] > threshold) refine count / min / max / mean / the set of consecutive pairs whose time difference exceeds the threshold. Every enumerated history is replayed into the real aggregates through AggRunner.Run (single batch) or Accum (several batches) for all ten numeric column types with boundary values of each type (min/max/count) and an exact affine value map (avg); for empty input only count = 0 and absence of a panic are demanded.",
             note="Trusted: TLC, the Python concretisation (levels -> per-type boundary values exactly representable in float32). Known findings are modelled as named deviations (NarrowTypesDropped, GapIgnoresNanos). gap without an explicit threshold (z-score mode) is outside the statement."),
}
import time, calendar, json, os, random, struct, sys
import vlib
from vlib import Result, Undecided


def f32(x):
    return struct.unpack("<f", struct.pack("<f", x))[0]


F32MAX = f32(3.4028234663852886e38)
F32TINY = 1.401298464324817e-45

# utils.Timeframes (all eleven) plus further candle timeframes accepted by CandleDurationFromString whose
# windows are unambiguous (they divide a day)
STD_TFS = [("1Sec", 1), ("10Sec", 10), ("30Sec", 30), ("1Min", 60), ("5Min", 300), ("15Min", 900), ("30Min", 1800),
           ("1H", 3600), ("2H", 7200), ("4H", 14400), ("1D", 86400)]
EXTRA_TFS = [("5Sec", 5), ("2Min", 120), ("20Min", 1200), ("3H", 10800), ("12H", 43200)]
DUR_TFS = [t for t in STD_TFS + EXTRA_TFS if t[0] != "1D"]
DAY_TF = ("1D", 86400)
PAIRS = [(f, c) for f in STD_TFS for c in STD_TFS if f[1] < c[1] and c[1] % f[1] == 0]

DAYS = [(1970, 1, 1), (1999, 12, 31), (2000, 2, 28), (2016, 12, 31), (2020, 2, 29), (2021, 3, 14), (2024, 12, 30), (2038, 1, 19)]

# values exactly representable in float32 (what the aggregates compute in), ascending, per input column type
_FPOOL = [-F32MAX, -16777216.0, -1024.5, -2.5, -F32TINY, 0.0, F32TINY, f32(0.1), 1.5, 3.0, 1048576.25, 16777216.0, F32MAX]
POOL = {
    "f4": _FPOOL, "f8": _FPOOL,
    "i4": [-2 ** 31, -65537, -3, -1, 0, 1, 7, 16777216, 2 ** 31 - 128],
    "i8": [-2 ** 63, -2 ** 40, -5, 0, 2, 16777215, 2 ** 40, 2 ** 63 - 2 ** 39],
    "i2": [-32768, -255, -1, 0, 1, 256, 32767],
    "i1": [-128, -1, 0, 1, 127],
    "u1": [0, 1, 2, 128, 255],
    "u2": [0, 1, 255, 32768, 65535],
    "u4": [0, 1, 65536, 2 ** 31, 2 ** 32 - 256],
    "u8": [0, 1, 2 ** 32, 2 ** 63, 2 ** 64 - 2 ** 40],
}
WIDE = ["f4", "f8", "i4", "i8"]          # converted by uda.ColumnToFloat32
NARROW = ["i1", "i2", "u1", "u2", "u4", "u8"]
# exact affine maps level -> value (a + b * level) for sums and means
AFFINE = {
    "f4": [(0.25, 0.5), (-2.75, 1.25), (1024.0, 0.125)], "f8": [(0.25, 0.5), (-2.75, 1.25), (1024.0, 0.125)],
    "i4": [(1, 2), (-7, 3)], "i8": [(1, 2), (-7, 3), (2 ** 33, 2 ** 12)], "i2": [(1, 2), (-7, 3)], "i1": [(-5, 2), (1, 20)],
    "u1": [(1, 2), (0, 50)], "u2": [(1, 2), (0, 13000)], "u4": [(1, 2), (7, 3)], "u8": [(1, 2), (2 ** 33, 2 ** 12)],
}


def pick_levels(rng, typ, n):
    pool = POOL[typ]
    if n > len(pool):
        raise Undecided("not enough boundary values for %d levels of %s" % (n, typ))
    if n >= 2 and rng.random() < 0.5:
        idx = [0] + sorted(rng.sample(range(1, len(pool) - 1), n - 2)) + [len(pool) - 1]
    else:
        idx = sorted(rng.sample(range(len(pool)), n))
    return [pool[i] for i in idx]


def num_eq(real, want):
    # JSON renders a float64 such as 2^63 in its shortest form (9223372036854776000): compare as doubles
    return isinstance(real, (int, float)) and not isinstance(real, bool) and float(real) == float(want)


def close_to(real, want, rel=1e-9):
    return isinstance(real, (int, float)) and not isinstance(real, bool) and abs(float(real) - float(want)) <= rel * abs(float(want)) + 1e-12


# ----------------------------------------------------------------------------------------------
# candle concretisation
# ----------------------------------------------------------------------------------------------
def make_conc(rng, fine, coarse, nt, nw, ratio, np_, kind):
    """model time t = ((coarse window * ratio) + fine window) * nt + slot  ->  epoch / nanoseconds"""
    (fname, fsec), (cname, csec) = fine, coarse
    R = csec // fsec
    if R * fsec != csec or R < ratio:
        raise Undecided("timeframe pair %s|%s cannot host ratio %d" % (fname, cname, ratio))
    y, m, d = rng.choice(DAYS)
    day0 = calendar.timegm((y, m, d, 0, 0, 0))
    per_day = 86400 // csec
    idx0 = rng.choice([0, per_day - 1, rng.randrange(per_day)]) if per_day > 1 else 0
    if csec == 86400:
        steps = [1, 2, 29, 30, 365, 366, rng.randrange(3, 400)]
    else:
        steps = [1, 2, 3, per_day, per_day + 1, rng.randrange(2, 3 * per_day + 2)]
    js = [0]
    adjacent = rng.random() < 0.4
    while len(js) < nw:
        js.append(js[-1] + (1 if adjacent else rng.choice(steps)))
    if ratio == 1:
        F = [0]
    elif R == ratio:
        F = list(range(R))
    else:
        mode = rng.randrange(4)
        if mode == 0:
            F = [0] + sorted(rng.sample(range(1, R - 1), ratio - 2)) + [R - 1]
        elif mode == 1:
            F = list(range(ratio))
        elif mode == 2:
            F = list(range(R - ratio, R))
        else:
            F = sorted(rng.sample(range(R), ratio))
    nanos = fsec < nt or rng.random() < 0.5
    total = fsec * 10 ** 9 if nanos else fsec
    if nt == 1:
        offs = [0]
    else:
        mids = set()
        while len(mids) < nt - 2:
            mids.add(rng.choice([1, total - 2, rng.randrange(1, total - 1)]) if total > 3 else 1)
        offs = [0] + sorted(mids) + [total - 1]
        if len(set(offs)) != nt:
            raise Undecided("cannot place %d slots in %s" % (nt, fname))
    offs = [o if nanos else o * 10 ** 9 for o in offs]
    ptype = rng.choice(WIDE)
    vtype = rng.choice(WIDE)
    c = dict(fine=fname, fsec=fsec, coarse=cname, csec=csec, day=[y, m, d], day0=day0, idx0=idx0, js=js, F=F, nt=nt, ratio=ratio,
             nanos=nanos, offs=offs, kind=kind, ptype=ptype, pmap=pick_levels(rng, ptype, np_),
             vtype=vtype, vaff=list(rng.choice(AFFINE[vtype])), sums=rng.choice(["", "s", "a", "sa", "sa"]),
             pname=rng.choice(["Px", "Price", "Bid", "Last"]), vname=rng.choice(["Vol", "Size", "Qty"]),
             cnames=rng.choice([["Open", "High", "Low", "Close"], ["o", "h", "l", "c"], ["First", "Top", "Bottom", "Final"]]),
             named=rng.random() < 0.3)
    return c


def _add_months(y, m, k):
    m0 = y * 12 + (m - 1) + k
    return m0 // 12, m0 % 12 + 1


def make_conc_cal(rng, unit, nt, nw, np_, kind):
    """calendar windows (UTC): model window k -> a real week / month / year, chosen so that consecutive model windows are
    adjacent or far apart and cross year ends (a series with a hole over New Year)"""
    wins = []
    if unit == "1M":
        y, m = rng.choice([(2019, 10), (1999, 12), (2020, 1), (2020, 2), (2023, 11), (2016, 12)])
        steps = [1, 2, 3, 11, 12, 13]
        for k in range(nw):
            if k:
                y, m = _add_months(y, m, 1 if rng.random() < 0.35 else rng.choice(steps))
            y2, m2 = _add_months(y, m, 1)
            a, b = calendar.timegm((y, m, 1, 0, 0, 0)), calendar.timegm((y2, m2, 1, 0, 0, 0))
            wins.append((a, b - a))
    elif unit == "1W":
        mon = calendar.timegm(rng.choice([(2018, 12, 31), (2019, 12, 30), (2020, 12, 28), (2024, 12, 30), (2021, 3, 15), (1999, 12, 27)]) + (0, 0, 0))
        for k in range(nw):
            if k:
                mon += 7 * 86400 * (1 if rng.random() < 0.35 else rng.choice([1, 2, 51, 52, 53]))
            wins.append((mon, 7 * 86400))
    else:
        y = rng.choice([1999, 2000, 2019, 2023])
        for k in range(nw):
            if k:
                y += 1 if rng.random() < 0.5 else 2
            a, b = calendar.timegm((y, 1, 1, 0, 0, 0)), calendar.timegm((y + 1, 1, 1, 0, 0, 0))
            wins.append((a, b - a))
    nanos = rng.random() < 0.5
    minlen = min(l for _, l in wins)
    mids = set()
    while len(mids) < max(0, nt - 2):
        mids.add(rng.choice([1, 86400, 86400 * 2 + 3600, minlen - 2, rng.randrange(1, minlen - 1)]))
    offs = ([0] + sorted(mids) + [None])[:nt] if nt > 1 else [0]
    if nt > 1:
        offs[-1] = None      # the last slot is the last instant of its own window
    ptype, vtype = rng.choice(WIDE), rng.choice(WIDE)
    return dict(fine=unit, fsec=None, coarse=unit, csec=None, cal=wins, nt=nt, ratio=1, F=[0], nanos=nanos, offs=offs, kind=kind,
                ptype=ptype, pmap=pick_levels(rng, ptype, np_), vtype=vtype, vaff=list(rng.choice(AFFINE[vtype])),
                sums=rng.choice(["", "s", "a", "sa"]), pname=rng.choice(["Px", "Price", "Bid", "Last"]), vname=rng.choice(["Vol", "Size", "Qty"]),
                cnames=["Open", "High", "Low", "Close"], named=rng.random() < 0.3,
                windows_utc=[time.strftime("%Y-%m-%d", time.gmtime(a)) for a, _ in wins])


def coarse_start(c, w):
    """epoch of the coarse window whose model start time is w"""
    if "cal" in c:
        return c["cal"][w // (c["ratio"] * c["nt"])][0]
    return c["day0"] + (c["idx0"] + c["js"][w // (c["ratio"] * c["nt"])]) * c["csec"]


def fine_start(c, w):
    return coarse_start(c, w) + c["F"][(w // c["nt"]) % c["ratio"]] * c["fsec"]


def t_ns(c, t):
    if "cal" in c:
        start, length = c["cal"][t // c["nt"]]
        off = c["offs"][t % c["nt"]]
        if off is None:
            return (start + length) * 10 ** 9 - (1 if c["nanos"] else 10 ** 9)
        return (start + off) * 10 ** 9 + (7 if c["nanos"] and off else 0)
    return fine_start(c, t) * 10 ** 9 + c["offs"][t % c["nt"]]


def vol_of(c, level):
    a, b = c["vaff"]
    return a + b * level


def candle_cols(c, rows):
    """rows = [[t, o, h, l, c], ...] (levels) -> driver columns"""
    ns = [t_ns(c, r[0]) for r in rows]
    cols = [{"name": "Epoch", "type": "i8", "vals": [n // 10 ** 9 for n in ns]}]
    pm = c["pmap"]
    if c["kind"] == "tick":
        cols.append({"name": c["pname"], "type": c["ptype"], "vals": [pm[r[1] - 1] for r in rows]})
    else:
        for k, name in enumerate(c["cnames"]):
            cols.append({"name": name, "type": c["ptype"], "vals": [pm[r[1 + k] - 1] for r in rows]})
    cols.append({"name": c["vname"], "type": c["vtype"], "vals": [vol_of(c, r[4]) for r in rows]})
    if c["nanos"]:
        cols.append({"name": "Nanoseconds", "type": "i4", "vals": [n % 10 ** 9 for n in ns]})
    return cols


def candle_call(c, tf, kind=None, sums=None):
    kind = kind or c["kind"]
    sums = c["sums"] if sums is None else sums
    opt = ""
    if "s" in sums:
        opt += ", Sum::" + c["vname"]
    if "a" in sums:
        opt += ", Avg::" + c["vname"]
    if kind == "tick":
        arg = ("CandlePrice::" if c["named"] else "") + c["pname"]
        return "tickcandler('%s', %s%s)" % (tf, arg, opt)
    req = ["Open", "High", "Low", "Close"]
    args = [("%s::%s" % (req[k], n) if c["named"] else n) for k, n in enumerate(c["cnames"])]
    return "candlecandler('%s', %s%s)" % (tf, ", ".join(args), opt)


def out_cols(o):
    """observation -> ({name: vals}, None) or (None, reason)"""
    if not isinstance(o, dict):
        return None, "no observation"
    if o.get("panic"):
        return None, "panic: " + str(o["panic"])
    if o.get("err"):
        return None, "error: " + str(o["err"])
    if "out" not in o or o["out"] is None:
        return None, "no output"
    return {x["name"]: x["vals"] for x in o["out"]}, None


def check_candles(by, exp, c, coarse=True, sums=""):
    """real output columns vs the declarative candles; None = the property holds on this output"""
    need = ["Epoch", "Open", "High", "Low", "Close"]
    if "s" in sums:
        need.append(c["vname"] + "_SUM")
    if "a" in sums:
        need.append(c["vname"] + "_AVG")
    for n in need:
        if n not in by:
            return "output column %s missing (have %s)" % (n, sorted(by))
    n = len(by["Epoch"])
    if any(len(by[x]) != n for x in need):
        return "ragged output columns"
    if n != len(exp):
        return "%d candles returned, %d windows contain rows" % (n, len(exp))
    pm = c["pmap"]
    for k, e in enumerate(exp):
        ep = coarse_start(c, e["w"]) if coarse else fine_start(c, e["w"])
        if by["Epoch"][k] != ep:
            return "candle %d starts at %s, the window starts at %d" % (k, by["Epoch"][k], ep)
        if not any(num_eq(by["Open"][k], pm[l - 1]) for l in e["openSet"]):
            return "candle %d (epoch %d): open %s, the earliest row(s) have price %s" % (k, ep, by["Open"][k], [pm[l - 1] for l in e["openSet"]])
        if not any(num_eq(by["Close"][k], pm[l - 1]) for l in e["closeSet"]):
            return "candle %d (epoch %d): close %s, the latest row(s) have price %s" % (k, ep, by["Close"][k], [pm[l - 1] for l in e["closeSet"]])
        if not num_eq(by["High"][k], pm[e["high"] - 1]):
            return "candle %d (epoch %d): high %s, the highest price is %s" % (k, ep, by["High"][k], pm[e["high"] - 1])
        if not num_eq(by["Low"][k], pm[e["low"] - 1]):
            return "candle %d (epoch %d): low %s, the lowest price is %s" % (k, ep, by["Low"][k], pm[e["low"] - 1])
        a, b = c["vaff"]
        total = e["cnt"] * a + b * e["sum"]
        if "s" in sums and not close_to(by[c["vname"] + "_SUM"][k], total):
            return "candle %d (epoch %d): sum %s, the window's rows sum to %s" % (k, ep, by[c["vname"] + "_SUM"][k], total)
        if "a" in sums and not close_to(by[c["vname"] + "_AVG"][k], total / e["cnt"]):
            return "candle %d (epoch %d): average %s, the window's rows average %s" % (k, ep, by[c["vname"] + "_AVG"][k], total / e["cnt"])
    return None


def ohlc_of(by):
    return [by.get(k) for k in ("Epoch", "Open", "High", "Low", "Close")]


def agg_op(mode, batches, chain=None, call=None):
    x = {"mode": mode, "batches": batches}
    if chain is not None:
        x["chain"] = chain
    if call is not None:
        x["call"] = call
    return {"op": "agg", "x": x}


def split_rows(rng, rows):
    n = len(rows)
    parts = 2 if n < 3 or rng.random() < 0.6 else 3
    cuts = sorted(rng.sample(range(1, n), parts - 1))
    out, prev = [], 0
    for k in cuts + [n]:
        out.append(rows[prev:k])
        prev = k
    return out


def last_out(o):
    """accum-mode observation -> the observation of the last Accum call"""
    if isinstance(o, dict) and "outs" in o and o["outs"]:
        for x in o["outs"][:-1]:
            if x.get("err"):
                return {"err": "an earlier Accum call failed: %s" % x["err"]}
        return o["outs"][-1]
    return o


# ----------------------------------------------------------------------------------------------
# C21
# ----------------------------------------------------------------------------------------------
def eval_c21(case, c, ops, obs):
    """-> list of violation descriptions for one replayed case"""
    rows, exp = case["rows"], case["exp"]
    bad = []
    for k, op in enumerate(ops):
        o = obs[k] if k < len(obs) else None
        if isinstance(o, dict) and o.get("driver_error"):
            raise Undecided("driver error: %s" % o)
        o = last_out(o)
        what = "%s of %s rows %s" % (op["x"].get("chain") or op["x"].get("call"), c["kind"], describe_rows(c, rows))
        if not rows:
            if isinstance(o, dict) and o.get("panic"):
                bad.append("%s panicked on empty input: %s" % (what, o["panic"]))
            continue
        by, why = out_cols(o)
        if by is None:
            bad.append("%s produced no candles (%s); the property demands %d" % (what, why, len(exp)))
            continue
        why = check_candles(by, exp, c, coarse=True, sums=c["sums"])
        if why:
            bad.append("%s: %s; real output %s" % (what, why, json.dumps(by)[:500]))
    return bad


def describe_rows(c, rows):
    out = []
    for r in rows:
        ns = t_ns(c, r[0])
        pr = [c["pmap"][r[1] - 1]] if c["kind"] == "tick" else [c["pmap"][x - 1] for x in r[1:5]]
        out.append(("%d.%09d" % (ns // 10 ** 9, ns % 10 ** 9), pr, vol_of(c, r[4])))
    return str(out)


def candle_consts(kind, fcls, ccls, nw, nt, ratio, np_, maxlen, permlen, fulllen, mod, salt):
    return dict(Input='"%s"' % kind, NT=nt, NW=nw, Ratio=ratio, FineCls='"%s"' % fcls, CoarseCls='"%s"' % ccls, NP=np_, MaxLen=maxlen,
                PermLen=permlen, FullLen=fulllen, SampleMod=mod, SampleSalt=salt, NL=2, TypeClass='"wide"', MaxBatches=1, SubDiv=1,
                TMax=1, Thresholds="{0}", Deviations="{}")


def tlc_candle(res, name, consts, timeout, invariants):
    r = vlib.run_tlc("Agg", name, timeout=timeout,
                     cfg_text=vlib.cfg_text(consts, invariants=invariants + ["EmitCandle"], spec="SpecCandle"))
    vlib.tlc_ok(r, name)
    if r["violated"]:
        raise Undecided("MODEL-DRIFT: %s violates %s in the model\n%s" % (name, r["violated"], r["out"][-3000:]))
    nbad = len(r["records"].get("BAD", []))
    if nbad > 0.001 * len(r["records"].get("CASE", [])):
        raise Undecided("unparsable TLC records in %s: %s" % (name, r["records"]["BAD"][:2]))
    res.cov["torn_tlc_output_lines_ignored"] = res.cov.get("torn_tlc_output_lines_ignored", 0) + nbad
    res.tlc(r, name)
    vlib.log("[tlc] %s: %s distinct states, %.1fs, %d cases" % (name, r.get("distinct"), r["wall_s"], len(r["records"].get("CASE", []))))
    # TLC workers print in a nondeterministic order: sort, so that a seed always yields the same concretisation
    return sorted(r["records"].get("CASE", []), key=lambda c: json.dumps(c["rows"]))


def run_c21(tier):
    prop = "C21"
    res = Result(prop, tier)
    rng = random.Random(vlib.seed() * 7919 + 21)
    srng = random.Random(vlib.seed() * 104729 + 21)       # sampling salts, independent of the concretisation stream
    binary = vlib.build_harness(cmd="mv_agg")
    quick = tier == "quick"
    # (kind, window class, NW, NT, NP, MaxLen, PermLen, FullLen, SampleMod)
    if quick:
        plan = [("tick", "duration", 2, 3, 3, 4, 3, 2, 16), ("tick", "duration", 3, 3, 4, 3, 3, 2, 12), ("tick", "daily", 3, 3, 4, 3, 3, 2, 12),
                ("candle", "duration", 1, 3, 3, 3, 3, 1, 48), ("candle", "daily", 2, 2, 2, 3, 3, 2, 4)]
    else:
        plan = [("tick", "duration", 3, 3, 5, 4, 3, 2, 64), ("tick", "daily", 3, 3, 4, 4, 3, 2, 96),
                ("candle", "duration", 2, 3, 3, 3, 3, 1, 48), ("candle", "duration", 2, 2, 3, 3, 3, 1, 32), ("candle", "daily", 2, 2, 3, 3, 3, 1, 32)]
    cases, meta = [], {}
    n = 0
    per_tf = {}
    for kind, cls, nw, nt, np_, maxlen, permlen, fulllen, mod in plan:
        name = "Agg_c21_%s_%s_%dx%dx%d_len%d.cfg" % (kind, cls, nw, nt, np_, maxlen)
        consts = candle_consts(kind, cls, cls, nw, nt, 1, np_, maxlen, permlen, fulllen, mod, srng.randrange(mod))
        tcases = tlc_candle(res, name, consts, 1500 if quick else 7200, ["RefinesCandles", "OrderIndependent"])
        if len(tcases) < 10:
            raise Undecided("TLC emitted only %d cases for %s" % (len(tcases), name))
        res.cov.setdefault("cases_emitted", {})[name] = len(tcases)
        for case in tcases:
            n += 1
            tf = DAY_TF if cls == "daily" else DUR_TFS[n % len(DUR_TFS)]
            c = make_conc(rng, tf, tf, nt, nw, 1, np_, kind)
            rows = case["rows"]
            ops = [agg_op("run", [candle_cols(c, rows)], chain=[candle_call(c, tf[0])])]
            if len(rows) >= 2 and rng.random() < 0.3:
                ops.append(agg_op("accum", [candle_cols(c, part) for part in split_rows(rng, rows)], call=candle_call(c, tf[0])))
            cid = "c%d" % n
            cases.append({"id": cid, "ops": ops})
            meta[json.dumps(cid)] = (case, c, ops)
            per_tf[tf[0]] = per_tf.get(tf[0], 0) + 1
            # calendar windows (weeks, months, years; UTC): the window model is the same, the windows have unequal lengths and the
            # series may skip over a year end
            if cls == "daily" and kind == "tick" and len(rows) >= 2 and (n % (3 if quick else 1) == 0):
                unit = ["1M", "1W"][(n // 3) % 2]       # ('1Y' is a 365-day duration for Truncate/Ceil, not a calendar year: covered as a duration)
                c2 = make_conc_cal(rng, unit, nt, nw, np_, kind)
                ops2 = [agg_op("run", [candle_cols(c2, rows)], chain=[candle_call(c2, unit)])]
                cid = "cal%d" % n
                cases.append({"id": cid, "ops": ops2})
                meta[json.dumps(cid)] = (case, c2, ops2)
                per_tf[unit] = per_tf.get(unit, 0) + 1
    vlib.log("[C21] %d cases concretised, replaying" % len(cases))
    obs = vlib.run_cases(binary, cases, timeout=1200 if quick else 3000)
    vlib.log("[C21] replay done, comparing")
    nontrivial = set()
    for cid, (case, c, ops) in meta.items():
        o = obs.get(cid)
        replay = {"check": "agg", "prop": prop, "case": case, "conc": c, "ops": ops, "seed": vlib.seed()}
        if o is None:
            raise Undecided("no observation for case %s" % cid)
        if isinstance(o, dict) and "died" in o:
            res.violation("process died (%s) aggregating %s: %s" % (o["died"], describe_rows(c, case["rows"]), o["stderr"][-500:]), replay)
            continue
        res.cov["traces_validated_against_impl"] += 1
        for d in eval_c21(case, c, ops, o):
            res.violation(d, replay)
        # model fidelity (coverage only, never a verdict): does the real output equal the implementation-shaped model's?
        by, _ = out_cols(last_out(o[0])) if o else (None, None)
        if by is not None and case["rows"]:
            want = [[coarse_start(c, x[0])] + [c["pmap"][l - 1] for l in x[1:]] for x in case["impl"]]
            got = [list(x) for x in zip(*[by.get(k, []) for k in ("Epoch", "Open", "High", "Low", "Close")])]
            same = len(got) == len(want) and all(all(num_eq(a, b) for a, b in zip(g, w)) for g, w in zip(got, want))
            res.cov["real_equals_implementation_shaped_model"] = res.cov.get("real_equals_implementation_shaped_model", 0) + (1 if same else 0)
        if any(e["cnt"] > 1 for e in case["exp"]):
            nontrivial.add(json.dumps(case["rows"]) + c["kind"])
        res.sample({"timeframe": c["coarse"], "input": c["kind"], "call": ops[0]["x"]["chain"], "rows": describe_rows(c, case["rows"]),
                    "model_rows": case["rows"], "expected": case["exp"]}, limit=4)
    res.cov["distinct_sequences_with_shared_window"] = len(nontrivial)
    res.cov["cases_per_timeframe"] = per_tf
    res.cov["exhaustive_in_model"] = True
    res.assumptions += ["time zone UTC", "price levels are mapped to increasing exactly-float32-representable values of the column type",
                        "sums/averages are checked through an exact affine map of the levels",
                        "replayed: all sequences up to FullLen rows and a seeded hash sample of the longer ones (TLC checks all of them in the model)"]
    return res.finish()


# ----------------------------------------------------------------------------------------------
# C22
# ----------------------------------------------------------------------------------------------
def eval_c22(case, c, ops, obs):
    """ops[0] = direct coarse aggregation, ops[1] = chain fine -> candlecandler(coarse)"""
    rows = case["rows"]
    for o in obs:
        if isinstance(o, dict) and o.get("driver_error"):
            raise Undecided("driver error: %s" % o)
    what = "%s vs %s on %s rows %s" % (ops[1]["x"]["chain"], ops[0]["x"]["chain"], c["kind"], describe_rows(c, rows))
    if not rows:
        return [("%s panicked on empty input" % what)] if any(isinstance(o, dict) and o.get("panic") for o in obs) else [], False
    d, dwhy = out_cols(obs[0])
    m, mwhy = out_cols(obs[1])
    if d is None and m is None:
        return [], True          # nothing to compare: direct aggregation itself fails (C21's business)
    if d is None or m is None:
        return ["%s: direct aggregation %s, composed aggregation %s" % (what, dwhy or "succeeded", mwhy or "succeeded")], False
    if ohlc_of(d) == ohlc_of(m) and None not in ohlc_of(d):
        return [], False
    if not case["distinct"] and check_candles(d, case["exp"], c) is None and check_candles(m, case["exp"], c) is None:
        return [], False         # tied timestamps: both picked an admissible earliest / latest row
    return ["%s: composed OHLC %s differs from direct OHLC %s" % (what, json.dumps(ohlc_of(m))[:400], json.dumps(ohlc_of(d))[:400])], False


def run_c22(tier):
    prop = "C22"
    res = Result(prop, tier)
    rng = random.Random(vlib.seed() * 7919 + 22)
    srng = random.Random(vlib.seed() * 104729 + 22)
    binary = vlib.build_harness(cmd="mv_agg")
    quick = tier == "quick"
    # (kind, coarse class, NW, NT, Ratio, NP, MaxLen, PermLen, FullLen, SampleMod)
    if quick:
        plan = [("tick", "duration", 2, 2, 2, 3, 4, 2, 2, 40), ("tick", "daily", 2, 2, 2, 3, 3, 2, 2, 4),
                ("candle", "duration", 1, 2, 2, 2, 3, 2, 2, 4)]
    else:
        plan = [("tick", "duration", 2, 2, 3, 3, 4, 2, 2, 64), ("tick", "daily", 2, 2, 2, 4, 4, 2, 2, 96),
                ("candle", "duration", 1, 2, 3, 3, 3, 2, 1, 64), ("candle", "daily", 2, 2, 2, 2, 3, 2, 2, 8),
                ("candle", "duration", 1, 2, 2, 3, 3, 2, 1, 48)]
    cases, meta = [], {}
    n = 0
    per_pair = {}
    for kind, ccls, nw, nt, ratio, np_, maxlen, permlen, fulllen, mod in plan:
        name = "Agg_c22_%s_%s_%dx%dx%dx%d_len%d.cfg" % (kind, ccls, nw, ratio, nt, np_, maxlen)
        consts = candle_consts(kind, "duration", ccls, nw, nt, ratio, np_, maxlen, permlen, fulllen, mod, srng.randrange(mod))
        tcases = tlc_candle(res, name, consts, 1500 if quick else 7200, ["RefinesCandles", "Composes"])
        if len(tcases) < 10:
            raise Undecided("TLC emitted only %d cases for %s" % (len(tcases), name))
        res.cov.setdefault("cases_emitted", {})[name] = len(tcases)
        pairs = [p for p in PAIRS if (p[1][0] == "1D") == (ccls == "daily") and p[1][1] // p[0][1] >= ratio]
        for case in tcases:
            n += 1
            fine, coarse = pairs[n % len(pairs)]
            c = make_conc(rng, fine, coarse, nt, nw, ratio, np_, kind)
            cols = candle_cols(c, case["rows"])
            ops = [agg_op("run", [cols], chain=[candle_call(c, coarse[0], sums="")]),
                   agg_op("run", [cols], chain=[candle_call(c, fine[0], sums=""), "candlecandler('%s', Open, High, Low, Close)" % coarse[0]])]
            cid = "m%d" % n
            cases.append({"id": cid, "ops": ops})
            meta[json.dumps(cid)] = (case, c, ops)
            per_pair["%s|%s" % (fine[0], coarse[0])] = per_pair.get("%s|%s" % (fine[0], coarse[0]), 0) + 1
    vlib.log("[C22] %d cases concretised, replaying" % len(cases))
    obs = vlib.run_cases(binary, cases, timeout=1200 if quick else 3000)
    vlib.log("[C22] replay done, comparing")
    undecidable, compared, multi = 0, 0, set()
    for cid, (case, c, ops) in meta.items():
        o = obs.get(cid)
        replay = {"check": "agg", "prop": prop, "case": case, "conc": c, "ops": ops, "seed": vlib.seed()}
        if o is None:
            raise Undecided("no observation for case %s" % cid)
        if isinstance(o, dict) and "died" in o:
            res.violation("process died (%s) aggregating %s: %s" % (o["died"], describe_rows(c, case["rows"]), o["stderr"][-500:]), replay)
            continue
        res.cov["traces_validated_against_impl"] += 1
        bad, und = eval_c22(case, c, ops, o)
        undecidable += 1 if und else 0
        compared += 0 if und or not case["rows"] else 1
        for d in bad:
            res.violation(d, replay)
        if any(len([f for f in case["expf"] if coarse_start(c, f["w"]) == coarse_start(c, e["w"])]) > 1 for e in case["exp"]):
            multi.add(json.dumps(case["rows"]) + c["kind"])
        res.sample({"fine": c["fine"], "coarse": c["coarse"], "input": c["kind"], "chain": ops[1]["x"]["chain"],
                    "rows": describe_rows(c, case["rows"]), "model_rows": case["rows"]}, limit=4)
    if compared == 0 or undecidable > compared:
        raise Undecided("direct aggregation failed on %d of %d cases; composition cannot be judged" % (undecidable, undecidable + compared))
    res.cov["compared_direct_vs_composed"] = compared
    res.cov["direct_aggregation_failed"] = undecidable
    res.cov["distinct_sequences_spanning_several_fine_windows"] = len(multi)
    res.cov["cases_per_pair"] = per_pair
    res.cov["timeframe_pairs"] = len(per_pair)
    res.cov["exhaustive_in_model"] = True
    res.assumptions += ["time zone UTC", "the model's fine windows of a coarse window are placed at the first / last / seeded fine windows of the real coarse window",
                        "on tied timestamps any admissible earliest / latest row is accepted on either side"]
    return res.finish()


# ----------------------------------------------------------------------------------------------
# C23
# ----------------------------------------------------------------------------------------------
SCALAR_AGGS = [("count", "Count"), ("min", "Min"), ("max", "Max"), ("avg", "Avg")]


def scalar_ops(case, typ, lv, aff, name):
    """one op per aggregate; min/max/count on the boundary-value map, avg on the exact affine map"""
    batches = case["batches"]
    ops = []
    for fn, _ in SCALAR_AGGS:
        val = (lambda l: aff[0] + aff[1] * l) if fn == "avg" else (lambda l: lv[l - 1])
        bcols, ep = [], 1600000000
        for b in batches:
            bcols.append([{"name": "Epoch", "type": "i8", "vals": [ep + k for k in range(len(b))]},
                          {"name": name, "type": typ, "vals": [val(l) for l in b]}])
            ep += len(b)
        call = "%s(%s)" % (fn, name)
        if len(batches) == 1 and (case["count"] + len(ops)) % 3 != 0:
            ops.append(agg_op("run", bcols, chain=[call]))
        else:
            ops.append(agg_op("accum", bcols, call=call))
    return ops


def eval_scalar(case, typ, lv, aff, ops, obs, known):
    """-> (violations, known finding deviations demonstrated)"""
    bad, kf = [], set()
    if not case["batches"]:
        return bad, kf
    for k, (fn, col) in enumerate(SCALAR_AGGS):
        o = obs[k] if k < len(obs) else None
        if isinstance(o, dict) and o.get("driver_error"):
            raise Undecided("driver error: %s" % o)
        o = last_out(o)
        vals = [[(aff[0] + aff[1] * l) if fn == "avg" else lv[l - 1] for l in b] for b in case["batches"]]
        what = "%s over a %s column fed as batches %s" % (fn, typ, vals)
        panicked = isinstance(o, dict) and o.get("panic")
        by, why = out_cols(o)
        real = by[col][0] if by is not None and col in by and len(by[col]) == 1 else None
        n = case["count"]
        if fn == "count":
            if not num_eq(real, n):
                bad.append("%s returned %s (%s), the input has %d rows" % (what, real, why, n))
            continue
        if n == 0:
            if panicked:
                bad.append("%s panicked on empty input: %s" % (what, o["panic"]))
            continue
        if fn == "min":
            want, ok = f32(lv[case["min"] - 1]), None
            ok = num_eq(real, want)
        elif fn == "max":
            want = f32(lv[case["max"] - 1])
            ok = num_eq(real, want)
        else:
            want = aff[0] + aff[1] * case["sum"] / n
            ok = close_to(real, want, rel=1e-6)
        if ok:
            continue
        # not the property's answer: is it exactly the listed deviation?
        kn = case["known"]
        if "NarrowTypesDropped" in case["hit"] and "NarrowTypesDropped" in known:
            if fn in ("min", "max") and kn[fn] == -1 and panicked and "index out of range" in str(o["panic"]):
                kf.add("NarrowTypesDropped")
                continue
            if fn == "avg" and kn["n"] == 0 and real == "NaN":
                kf.add("NarrowTypesDropped")
                continue
        bad.append("%s returned %s (%s), the property demands %s" % (what, real if real is not None else "nothing", why or "ok", want))
    return bad, kf


def gap_ops(case, g):
    ts = case["ts"]
    sub = g["sub"]
    ep = [g["base"] + (t // sub) * g["scale"] for t in ts]
    cols = [{"name": "Epoch", "type": "i8", "vals": ep}, {"name": g["vname"], "type": g["vtype"], "vals": [1 + (k % 3) for k in range(len(ts))]}]
    if sub == 2:
        cols.append({"name": "Nanoseconds", "type": "i4", "vals": [(t % 2) * 500000000 for t in ts]})
    elif g["const_ns"] is not None:
        cols.append({"name": "Nanoseconds", "type": "i4", "vals": [g["const_ns"]] * len(ts)})
    th = case["th"]
    call = "gap('%s')" % g["fmt"](th)
    ops = [agg_op("run" if g["run"] else "accum", [cols], chain=[call] if g["run"] else None, call=None if g["run"] else call)]
    if g["run"]:
        # a pipeline: count over the gap table - count's input rows are the reported pairs (possibly none)
        ops.append(agg_op("run", [cols], chain=[call, "count(*)"]))
    return ops, ep


GAP_SCALES = [(1, lambda th: "%dSec" % th), (60, lambda th: "%dMin" % th), (60, lambda th: "%dSec" % (60 * th)), (3600, lambda th: "%dH" % th),
              (86400, lambda th: "%dD" % th), (7, lambda th: "%dSec" % (7 * th)), (900, lambda th: "%dMin" % (15 * th))]


def eval_gap(case, ops, ep, obs, known):
    bad, kf = [], set()
    o = obs[0] if obs else None
    if isinstance(o, dict) and o.get("driver_error"):
        raise Undecided("driver error: %s" % o)
    o = last_out(o)
    cols = ops[0]["x"]["batches"][0]
    ns = next((x["vals"] for x in cols if x["name"] == "Nanoseconds"), [0] * len(ep))
    what = "%s over rows at %s" % (ops[0]["x"].get("chain") or ops[0]["x"].get("call"), ["%d.%09d" % (e, n) for e, n in zip(ep, ns)])
    if isinstance(o, dict) and o.get("panic"):
        return ["%s panicked: %s" % (what, o["panic"])], kf
    if not ep:
        return bad, kf            # empty input: only absence of a panic is demanded
    by, why = out_cols(o)
    if by is None or "Epoch" not in by or "End" not in by:
        return ["%s returned no gap table (%s)" % (what, why)], kf
    real = list(zip(by["Epoch"], by["End"]))
    want = [(ep[k - 1], ep[k]) for k in case["pairs"]]
    kn = [(ep[k - 1], ep[k]) for k in case["known"]]
    if len(obs) > 1 and (real == want or real == kn):
        o2 = last_out(obs[1])
        if isinstance(o2, dict) and o2.get("panic"):
            bad.append("%s | count(*) panicked: %s" % (what, o2["panic"]))
        else:
            by2, why2 = out_cols(o2)
            cnt = by2["Count"][0] if by2 is not None and "Count" in by2 and len(by2["Count"]) == 1 else None
            if not num_eq(cnt, len(real)):
                bad.append("the pipeline %s | count(*) returned %s (%s): count's input is the gap table of %d row(s) %s" % (what, cnt, why2 or "ok", len(real), real))
    if real == want:
        return bad, kf
    if "GapIgnoresNanos" in case["hit"] and "GapIgnoresNanos" in known and real == kn:
        kf.add("GapIgnoresNanos")
        return bad, kf
    return bad + ["%s reported the pairs %s; the pairs whose time difference exceeds the threshold are %s" % (what, real, want)], kf


def run_c23(tier):
    prop = "C23"
    res = Result(prop, tier)
    rng = random.Random(vlib.seed() * 7919 + 23)
    binary = vlib.build_harness(cmd="mv_agg")
    quick = tier == "quick"
    known = {k["deviation"]: k for k in vlib.known_findings(prop)}
    devs = '{"NarrowTypesDropped", "GapIgnoresNanos"}'
    nl = 4 if quick else 5
    base = dict(Input='"tick"', NT=1, NW=1, Ratio=1, FineCls='"duration"', CoarseCls='"duration"', NP=1, MaxLen=4, PermLen=0, FullLen=0,
                SampleMod=1, SampleSalt=0, NL=nl, TypeClass='"wide"', MaxBatches=3, SubDiv=1, TMax=5, Thresholds="{0, 1, 2, 4}", Deviations=devs)

    def tlc(name, spec, invs, **kw):
        consts = dict(base)
        consts.update(kw)
        r = vlib.run_tlc("Agg", name, timeout=1500, cfg_text=vlib.cfg_text(consts, invariants=invs, spec=spec))
        vlib.tlc_ok(r, name)
        if r["violated"]:
            raise Undecided("MODEL-DRIFT: %s violates %s in the model\n%s" % (name, r["violated"], r["out"][-3000:]))
        if r["records"].get("BAD"):
            raise Undecided("unparsable TLC records in %s" % name)
        res.tlc(r, name)
        return sorted(r["records"].get("CASE", []), key=lambda c: json.dumps(c, sort_keys=True))

    sinv = ["ScalarRefines", "ScalarDeviationsExplainAll", "EmitScalar"]
    ginv = ["GapRefines", "GapDeviationsExplainAll", "EmitGap"]
    wide = tlc("Agg_c23_wide.cfg", "SpecScalar", sinv)
    narrow = tlc("Agg_c23_narrow.cfg", "SpecScalar", sinv, TypeClass='"narrow"', MaxBatches=1)
    gap1 = tlc("Agg_c23_gap_sec.cfg", "SpecGap", ginv, TMax=5 if quick else 6)
    gap2 = tlc("Agg_c23_gap_half.cfg", "SpecGap", ginv, SubDiv=2, TMax=7 if quick else 9, Thresholds="{0, 1, 2, 3}")
    if len(wide) < 100 or len(narrow) < 50 or len(gap1) < 50 or len(gap2) < 50:
        raise Undecided("TLC emitted too few cases (%d, %d, %d, %d)" % (len(wide), len(narrow), len(gap1), len(gap2)))
    cases, meta = [], {}
    n = 0
    per_type = {}
    for tcases, types in ((wide, WIDE), (narrow, NARROW)):
        for case in tcases:
            # every type for short histories, a rotating type for the rest (thorough: every type always)
            tl = types if (not quick or case["count"] <= 2 or types is NARROW) else [types[(n + k) % len(types)] for k in range(2)]
            for typ in tl:
                n += 1
                lv = pick_levels(rng, typ, nl)
                aff = list(rng.choice(AFFINE[typ]))
                name = rng.choice(["Px", "Volume", "x", "Bid"])
                ops = scalar_ops(case, typ, lv, aff, name)
                cid = "s%d" % n
                cases.append({"id": cid, "ops": ops})
                meta[json.dumps(cid)] = ("scalar", case, dict(typ=typ, lv=lv, aff=aff, name=name), ops)
                per_type[typ] = per_type.get(typ, 0) + 1
    for tcases, sub in ((gap1, 1), (gap2, 2)):
        for case in tcases:
            n += 1
            scale, fmt = GAP_SCALES[n % len(GAP_SCALES)] if sub == 1 else GAP_SCALES[0]
            y, m, d = rng.choice(DAYS)
            g = dict(sub=sub, scale=scale, fmt=fmt, base=calendar.timegm((y, m, d, 23, 59, 58)), vname=rng.choice(["Px", "Bid"]),
                     vtype=rng.choice(WIDE), const_ns=rng.choice([None, 0, 123456789]), run=n % 4 != 0)
            ops, ep = gap_ops(case, g)
            cid = "g%d" % n
            cases.append({"id": cid, "ops": ops})
            meta[json.dumps(cid)] = ("gap", case, dict(ep=ep, sub=sub, scale=scale), ops)
    vlib.log("[C23] %d cases concretised, replaying" % len(cases))
    obs = vlib.run_cases(binary, cases, timeout=1200 if quick else 3000)
    vlib.log("[C23] replay done, comparing")
    counts = {"scalar": 0, "gap": 0, "gap_with_pairs": 0, "multi_batch": 0}
    for cid, (kind, case, c, ops) in meta.items():
        o = obs.get(cid)
        replay = {"check": "agg", "prop": prop, "kind": kind, "case": case, "conc": c, "ops": ops, "seed": vlib.seed()}
        if o is None:
            raise Undecided("no observation for case %s" % cid)
        if isinstance(o, dict) and "died" in o:
            res.violation("process died (%s) on %s: %s" % (o["died"], json.dumps(ops)[:400], o["stderr"][-500:]), replay)
            continue
        res.cov["traces_validated_against_impl"] += 1
        if kind == "scalar":
            bad, kf = eval_scalar(case, c["typ"], c["lv"], c["aff"], ops, o, known)
            counts["scalar"] += 1
            counts["multi_batch"] += 1 if len(case["batches"]) > 1 else 0
            example = {"column_type": c["typ"], "values": [[c["lv"][l - 1] for l in b] for b in case["batches"]]}
        else:
            bad, kf = eval_gap(case, ops, c["ep"], o, known)
            counts["gap"] += 1
            counts["gap_with_pairs"] += 1 if case["pairs"] else 0
            cols = ops[0]["x"]["batches"][0]
            example = {"call": ops[0]["x"].get("chain") or ops[0]["x"].get("call"), "epochs": c["ep"],
                       "nanoseconds": next((x["vals"] for x in cols if x["name"] == "Nanoseconds"), None)}
        for d in bad:
            res.violation(d, replay)
        for dev in kf:
            res.known_finding(known[dev], example)
        if kind == "scalar" and len(case["batches"]) > 1 or kind == "gap" and case["pairs"]:
            res.sample({"kind": kind, "case": case, "concrete": example}, limit=5)
    res.cov["cases"] = counts
    res.cov["scalar_cases_per_column_type"] = per_type
    res.cov["exhaustive"] = True
    res.assumptions += ["value levels are mapped to per-type boundary values exactly representable in float32 (min/max) and through an exact affine map (avg)",
                        "gap input rows are time ordered (as query results are)", "empty input: only count = 0 and absence of a panic are demanded"]
    return res.finish()


# ----------------------------------------------------------------------------------------------
def run(prop, tier):
    if prop == "C21":
        return run_c21(tier)
    if prop == "C22":
        return run_c22(tier)
    if prop == "C23":
        return run_c23(tier)
    raise Undecided("unknown property %s" % prop)


def replay(rp):
    """python3 tools/check.py --replay replays/<file>.json : re-executes one recorded case on the current tree"""
    r = rp["replay"]
    prop = r["prop"]
    binary = vlib.build_harness(cmd="mv_agg")
    obs = vlib.run_cases(binary, [{"id": "r", "ops": r["ops"]}])['"r"']
    if isinstance(obs, dict) and "died" in obs:
        print("VIOLATION property=%s replay: process died: %s" % (prop, obs["stderr"][-500:]))
        return 1
    known = {k["deviation"]: k for k in vlib.known_findings(prop)}
    if prop == "C21":
        bad = eval_c21(r["case"], r["conc"], r["ops"], obs)
    elif prop == "C22":
        bad, _ = eval_c22(r["case"], r["conc"], r["ops"], obs)
    elif r.get("kind") == "gap":
        bad, _ = eval_gap(r["case"], r["ops"], r["conc"]["ep"], obs, known)
    else:
        c = r["conc"]
        bad, _ = eval_scalar(r["case"], c["typ"], c["lv"], c["aff"], r["ops"], obs, known)
    for o in obs:
        print("observed:", json.dumps(o)[:600])
    if bad:
        print("VIOLATION property=%s (replayed)" % prop)
        for d in bad:
            print("  " + d[:1000])
        return 1
    print("OK property=%s: the recorded case no longer violates the property" % prop)
    return 0
