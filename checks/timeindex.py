"""C30 / C31: interval indexing and candle-window arithmetic.  TimeIndex.tla cases replayed into the real functions."""
PROPS = ["C30", "C31"]
READY = True
CLAIMS = {
 "C30": dict(technique="TLA+ model of io.TimeToIndex/IndexToTime/IndexToOffset/FileSize over integer civil-calendar arithmetic with a zone-offset table, invariants checked by TLC on the interval grid; TLC-emitted cases replayed into the real functions under each configured zone",
             text="TimeIndex.tla transcribes the index functions (1D special case, elapsed-time division for the other timeframes, IndexToTime, IndexToOffset, FileSize with time.Local) over seconds relative to 2018-01-01 with the zone table of Go's tz data as an input (UTC, America/New_York, Asia/Tokyo, Australia/Lord_Howe, 2019-2021). TLC enumerates interval ordinals per (zone, timeframe, year) - every interval for the coarse timeframes, windows around year edges, leap day and every offset change plus a seeded stride for the fine ones - and checks for the first and last second of each interval: one slot in the own year's file, slot<->start round trip, explicit inverse of the slot map (bijection), Headersize <= offset and offset+recordLen <= FileSize. The emitted cases (boundaries and a seeded sample) are evaluated by the real functions with utils.InstanceConfig.Timezone set to the zone (and time.Local set to a seeded zone); the real results are judged against the property and compared with the model; the real functions are also evaluated for wide records (600 and 8200 bytes, beyond TLC's 32-bit integers) and judged with Python integers.",
             note="Trusted: TLC, Go's time package and tz data (the zone table is an input), the Python concretisation (seconds relative to base -> epochs, nanoseconds added). Bounded: 4 zones, years 2019-2021, utils.Timeframes (all whole seconds), record lengths 12/24/56. Known finding KF-C30-1 (1D, January 1) is modelled as deviation DailyIndexFromZero."),
 "C31": dict(technique="TLA+ model of CandleDuration.Truncate/Ceil/IsWithin per suffix, TimeframeFromString/FromDuration, CandleDurationFromString and QueryableTimeframe, invariants checked by TLC on a timestamp grid x candle durations x zones; TLC-emitted cases replayed into the real functions",
             text="TimeIndex.tla transcribes time.Truncate (epoch aligned, computed unit-wise in 32 bits), the D/M special cases of Truncate and Ceil, the per-suffix IsWithin (ISO week, month and year arithmetic on the local wall clock) and the parse/print functions at token level. TLC enumerates (zone, suffix, multiplier) x a grid of timestamps (year/month/week boundaries, leap day, every offset change, each surrounded by second/half-hour/hour/day/25-hour distances, plus a seeded stride) and checks start <= ts < end, ts inside its own window, start and end delimiting one window, parse-print-parse stability and that the queryable timeframe divides the duration - for the intended behaviour, and for the known behaviour up to the listed deviations. Emitted cases are evaluated by the real functions with timestamps in the configured zone (as ColumnSeries.GetTime delivers them), with and without nanoseconds.",
             note="Reading of the statement: 'window start/end' are taken to delimit one window (the last nanosecond before Ceil(ts) truncates to Truncate(ts) and is inside it; Ceil(ts) starts a window); 'parse and print is stable' is taken semantically (the duration survives print+parse and printing again gives the same text; 1Min printing as 1T is not counted). Multiplier 0 is not a candle duration. Bounded: multipliers 1..60, 90, 120, 1440 (Y: 1..60), 4 zones, 2019-2021. Known findings KF-C31-1..5 are modelled as deviations."),
}
import json, os, random
import vlib
from vlib import Result, Undecided

BASE = 1514764800                      # 2018-01-01T00:00:00Z, a Monday: origin of the spec's integer time
ZONES = ["UTC", "America/New_York", "Asia/Tokyo", "Australia/Lord_Howe"]
YEARS = [2019, 2020, 2021]
RECLENS = [12, 24, 56]                 # record lengths of the model (TLC integers are 32-bit: slots x length must fit)
# record lengths given to the real functions: also wide records (600 bytes: an int64 product of the year in nanoseconds and the record
# length overflows from 293 bytes on; 8200 = Epoch + 1024 columns of 8 bytes), judged by Python integers
REAL_RECLENS = RECLENS + [600, 8200]
HEADERSIZE = 37024
DAY = 86400
ALL_DEVS = ["DailyIndexFromZero", "DayCeilAdds24h", "WeekIsoWindow", "PrintDropsRemainder", "PrintNilAboveYear"]
SUFFIXES = ["Sec", "Min", "H", "D", "W", "M", "Y"]
NS_EDGE = 999999999


def devs_tla(names):
    return "{" + ", ".join('"%s"' % n for n in names) + "}"


def one_obs(obs, cid):
    o = obs.get(json.dumps(cid))
    if o is None:
        raise Undecided("no observation for case %s" % cid)
    if isinstance(o, dict) and "died" in o:
        raise Undecided("driver died in case %s: %s" % (cid, o.get("stderr", "")[-800:]))
    return o


def real_inputs(binary):
    """zone table (from Go's tz data) and utils.Timeframes, both read from the real code: inputs of the spec"""
    obs = vlib.run_cases(binary, [
        {"id": "zones", "ops": [{"op": "ti_zones", "x": {"zones": ZONES, "from": YEARS[0], "to": YEARS[-1]}}]},
        {"id": "tfs", "ops": [{"op": "ti_parse", "x": {"strings": [], "durations": []}}]}], tag="ti_in")
    z = one_obs(obs, "zones")[0]
    t = one_obs(obs, "tfs")[0]
    if z.get("err") or z.get("panic") or t.get("err") or t.get("panic"):
        raise Undecided("cannot read zone table / timeframes: %s %s" % (z, t))
    zones = []
    for name in ZONES:
        tab = [[a - BASE, o] for a, o in z["zones"][name]]
        if any(tab[i][0] >= tab[i + 1][0] for i in range(len(tab) - 1)) or tab[0][0] > 365 * DAY - 2 * DAY:
            raise Undecided("zone table of %s is not ascending / starts too late" % name)
        zones.append({"name": name, "tab": tab})
    tfs = []
    for tf in t["timeframes"]:
        if tf["dur"] % 10 ** 9 or tf["dur"] <= 0 or DAY % (tf["dur"] // 10 ** 9):
            raise Undecided("timeframe %s is not a whole-second divisor of a day: not modelled" % tf)
        tfs.append({"name": tf["str"], "sec": tf["dur"] // 10 ** 9})
    if not tfs:
        raise Undecided("utils.Timeframes is empty")
    return zones, tfs


def write_input(inp):
    f = os.path.join(vlib.scratch(), "ti_input.%d.json" % random.getrandbits(32))
    with open(f, "w") as fh:
        json.dump(inp, fh)
    return f


def tlc(mode, inp, cfgname, timeout, devs=ALL_DEVS, invariants=None):
    f = write_input(inp)
    invs = invariants or {"index": ["IndexInv", "FileSizeZoneIndependent"], "candle": ["WindowInv", "ParseInv"]}[mode]
    cfg = vlib.cfg_text(dict(InputFile='"%s"' % f, Mode='"%s"' % mode, Deviations=devs_tla(devs)), invariants=invs)
    r = vlib.run_tlc("TimeIndex", cfgname, cfg_text=cfg, timeout=timeout, heap="12g")
    os.unlink(f)
    vlib.tlc_ok(r, cfgname)
    if r["violated"]:
        raise Undecided("MODEL-DRIFT: %s violates %s in the model\n%s" % (cfgname, r["violated"], r["out"][-3000:]))
    if r["records"].get("BAD"):
        raise Undecided("unparsable TLC record: %s" % r["records"]["BAD"][0][:300])
    return r


def base_input(zones, tfs, rng):
    return {"zones": zones, "timeframes": tfs, "years": YEARS, "reclens": RECLENS, "filezone": 1, "block": 256,
            "cds": [], "strs": [], "wdists": [0], "wstride_s0": 0, "wstride_step": 1, "wstride_n": 0, "wlo": 0, "whi": 0,
            "wemit_a": 1, "wemit_m": 1, "wemit_k": 1, "wemit_h": 1}


# ------------------------------------------------------------------------------------------------------------
# C30
# ------------------------------------------------------------------------------------------------------------
def index_params(tfs, tier, rng):
    """per timeframe: which (zone, year) files are enumerated completely, the half window (seconds) around the anchors
    (year edges, leap day, offset changes), the seeded stride over the rest of the year and the emission sample"""
    quick = tier == "quick"
    nz = len(ZONES)
    allzy = [[z + 1, y] for z in range(nz) for y in YEARS]
    out = []
    for tf in tfs:
        s = tf["sec"]
        n = 366 * DAY // s
        if quick:
            full = allzy if s >= 86400 else ([[z + 1, rng.choice(YEARS)] for z in range(nz)] if s >= 14400 else [])
            hw = 7200 if s >= 300 else (3600 if s >= 60 else (1800 if s >= 30 else (600 if s >= 10 else 120)))
            stride_m = max(1, n // 150)
            emit_target = 250
        else:
            if s >= 300:
                full = allzy
            elif s >= 60:       # one seeded year for the UTC zone and for each zone with daylight saving
                full = [[1, rng.choice(YEARS)], [2, rng.choice(YEARS)], [4, rng.choice(YEARS)]]
            else:
                full = []
            hw = 7200 if s >= 10 else 1800
            stride_m = max(1, n // 2000)
            emit_target = 1500
        emit_m = max(1, n // emit_target)
        out.append(dict(tf, full=full, hw=hw, stride_m=stride_m, stride_r=rng.randrange(stride_m),
                        emit_m=emit_m, emit_r=rng.randrange(emit_m)))
    return out


def index_rows(case, tfsec, rng):
    """concrete timestamps of one TLC case: first second, last second (+ last nanosecond), a seeded instant inside,
    and the first second of the next interval"""
    p = case["p"]
    rl = REAL_RECLENS[(case["k"] + case["y"]) % len(REAL_RECLENS)]
    tfns = tfsec * 10 ** 9
    length = p["e1"] - p["s0"] + 1
    rows = [("s0", [tfns, BASE + p["s0"], 0, rl]), ("e1", [tfns, BASE + p["e1"], NS_EDGE, rl])]
    mid = p["s0"] + rng.randrange(length)
    rows.append(("mid", [tfns, BASE + mid, rng.randrange(10 ** 9), rl]))
    if case["k"] + 1 < case["n"]:
        rows.append(("next", [tfns, BASE + p["e1"] + 1, 0, rl]))
    return rl, rows


IXF = ["year", "idx", "off", "toff", "back_s", "back_ns", "idx_back", "filesize", "eidx", "eoff"]


def judge_index(case, rl, real):
    """property C30 on the real results of one interval; returns list of failed clauses (strings)"""
    p = case["p"]
    y = case["y"]
    fails = []
    pts = [real[k] for k in ("s0", "e1", "mid") if k in real]
    if any(r["year"] != y for r in pts):
        fails.append("timestamp mapped outside its year's file")
    if len({r["idx"] for r in pts}) != 1:
        fails.append("timestamps of one interval get different slots %s" % [r["idx"] for r in pts])
    for name in ("s0", "e1", "mid"):
        r = real.get(name)
        if r is None:
            continue
        if (r["back_s"], r["back_ns"]) != (BASE + p["s0"], 0):
            fails.append("IndexToTime(TimeToIndex(%s)) = %d.%09d is not the interval start %d" % (name, r["back_s"], r["back_ns"], BASE + p["s0"]))
        if r["idx_back"] != r["idx"]:
            fails.append("TimeToIndex(IndexToTime(i)) = %d differs from i = %d" % (r["idx_back"], r["idx"]))
        if r["toff"] != r["off"] or r["eoff"] != r["off"] or r["eidx"] != r["idx"]:
            fails.append("TimeToOffset/EpochToOffset/EpochToIndex disagree with IndexToOffset(TimeToIndex)")
        if r["off"] < HEADERSIZE or r["off"] + rl > r["filesize"]:
            fails.append("slot offset %d (+%d) outside the data area [%d, %d)" % (r["off"], rl, HEADERSIZE, r["filesize"]))
    if "next" in real and real["next"]["idx"] == real["e1"]["idx"] and real["next"]["year"] == real["e1"]["year"]:
        fails.append("adjacent intervals share slot %d" % real["e1"]["idx"])
    # de-duplicate, keep order
    return list(dict.fromkeys(fails))


def matches_index_model(case, rl, real, variant):
    o = case[variant]
    for name, s in (("s0", o["s0"]), ("e1", o["e1"])):
        r = real[name]
        idx = o["is"] if name == "s0" else o["ie"]
        back = o["bs"] if name == "s0" else o["be"]
        if r["idx"] != idx or r["back_s"] != BASE + back or r["back_ns"] != 0 or r["year"] != (o["ys"] if name == "s0" else o["ye"]):
            return False
        if r["off"] != (idx - 1) * rl + HEADERSIZE or r["filesize"] != HEADERSIZE + o["slots"] * rl:
            return False
    return real["e1"]["idx_back"] == o["ib"] and real["mid"]["idx"] == o["is"]


def run_c30(res, tier, rng, binary, zones, tfs, known):
    inp = base_input(zones, tfs, rng)
    inp["timeframes"] = index_params(tfs, tier, rng)
    filezone = rng.randrange(len(ZONES))
    inp["filezone"] = filezone + 1
    r = tlc("index", inp, "TimeIndex_index_%s.cfg" % tier, timeout=600 if tier == "quick" else 5400)
    res.tlc(r, "TimeIndex_index_%s.cfg" % tier)
    cases = {}
    for c in r["records"].get("IX", []):
        cases[(c["z"], c["tf"], c["y"], c["k"])] = c
    if len(cases) < 200:
        raise Undecided("TLC emitted only %d index cases" % len(cases))
    tfsec = {t["name"]: t["sec"] for t in tfs}
    # one op per zone and chunk
    per_zone = {}
    for key, c in sorted(cases.items()):
        rl, rows = index_rows(c, tfsec[c["tf"]], rng)
        c["_rl"] = rl
        for name, row in rows:
            per_zone.setdefault(c["z"], []).append((key, name, row))
    script, where = [], {}
    CH = 20000
    for z, items in per_zone.items():
        for a in range(0, len(items), CH):
            cid = "ix:%s:%d" % (z, a)
            script.append({"id": cid, "ops": [{"op": "ti_index", "x": {"tz": z, "rows": [it[2] for it in items[a:a + CH]]}}]})
            where[cid] = items[a:a + CH]
    env = dict(vlib.GOENV, TZ=ZONES[filezone])           # time.Local of the process = the spec's FileZone
    obs = vlib.run_cases(binary, script, timeout=900, env=env, tag="ti_ix")
    real = {}
    for cid, items in where.items():
        o = one_obs(obs, cid)[0]
        if o.get("panic"):
            res.violation("index functions panicked under zone %s: %s" % (cid, o["panic"]), {"check": "timeindex", "kind": "index", "op": [s for s in script if s["id"] == cid][0], "seed": vlib.seed()})
            continue
        if o.get("err") or len(o["rows"]) != len(items):
            raise Undecided("ti_index failed: %s" % str(o)[:500])
        if o["headersize"] != HEADERSIZE:
            raise Undecided("Headersize is %s, the spec assumes %d" % (o["headersize"], HEADERSIZE))
        for (key, name, row), out in zip(items, o["rows"]):
            real.setdefault(key, {})[name] = dict(zip(IXF, out), _in=row)
    slot_owner = {}
    stats = {"ok": 0, "model_agree": 0, "model_differs_property_holds": 0, "known": 0}
    tf_seen, zone_seen = set(), set()
    for key, c in sorted(cases.items()):
        if key not in real:
            continue
        rl, rr = c["_rl"], real[key]
        res.cov["traces_validated_against_impl"] += 1
        tf_seen.add(c["tf"])
        zone_seen.add(c["z"])
        fails = judge_index(c, rl, rr)
        # distinct intervals, distinct slots (over everything replayed for this year file)
        own = slot_owner.setdefault((c["z"], c["tf"], c["y"]), {})
        i = rr["s0"]["idx"]
        if i in own and own[i] != c["k"]:
            fails.append("intervals %d and %d of the year share slot %d" % (own[i], c["k"], i))
        own.setdefault(i, c["k"])
        replay = {"check": "timeindex", "kind": "index", "case": {k: v for k, v in c.items() if k != "_rl"}, "reclen": rl,
                  "tz": c["z"], "local": ZONES[filezone], "rows": {n: v["_in"] for n, v in rr.items()}, "real": {n: {f: v[f] for f in IXF} for n, v in rr.items()},
                  "seed": vlib.seed()}
        agree_d = matches_index_model(c, rl, rr, "d")
        if not fails:
            stats["ok"] += 1
            stats["model_agree" if agree_d else "model_differs_property_holds"] += 1
            res.sample({"zone": c["z"], "tf": c["tf"], "year": c["y"], "interval": c["k"], "real": replay["real"]}, limit=4)
            continue
        only_area = all("outside the data area" in f for f in fails)
        if c["hit"] and agree_d and only_area and "DailyIndexFromZero" in known:
            stats["known"] += 1
            res.known_finding(known["DailyIndexFromZero"], {"zone": c["z"], "tf": c["tf"], "year": c["y"], "epoch": BASE + c["p"]["s0"],
                                                            "index": rr["s0"]["idx"], "offset": rr["s0"]["off"], "reclen": rl})
            continue
        res.violation("%s %s year %d interval %d (epoch %d..%d, time.Local=%s): %s" % (
            c["z"], c["tf"], c["y"], c["k"], BASE + c["p"]["s0"], BASE + c["p"]["e1"], ZONES[filezone], "; ".join(fails)[:700]), replay)
    res.cov["index_cases"] = stats
    res.cov["timeframes"] = sorted(tf_seen)
    res.cov["zones"] = sorted(zone_seen)
    res.cov["time_local_zone"] = ZONES[filezone]
    res.cov["real_evaluations"] = sum(len(v) for v in real.values())
    res.assumptions += ["zone-offset table taken from Go's tz data (harness op ti_zones) for %s, %d-%d" % (", ".join(ZONES), YEARS[0], YEARS[-1]),
                        "timeframes = utils.Timeframes of the tree under test (%s)" % ", ".join(t["name"] for t in tfs),
                        "record lengths %s (model) / %s (real functions)" % (RECLENS, REAL_RECLENS)]


# ------------------------------------------------------------------------------------------------------------
# C31
# ------------------------------------------------------------------------------------------------------------
def mults_for(tier, rng):
    if tier == "quick":
        return sorted({1, rng.choice([2, 3, 4, 5, 6, 7, 10, 12, 15, 24, 30, 45, 60, 90, 120, 1440])})
    return sorted(set(range(1, 13)) | {15, 20, 24, 30, 45, 60, 90, 120, 1440})


def window_input(inp, tier, rng):
    quick = tier == "quick"
    ms = mults_for(tier, rng)
    inp["cds"] = [{"sfx": s, "m": m} for s in SUFFIXES for m in ms if not (s == "Y" and m > 60)]
    inp["wdists"] = [0, 1, 3600, 86400, 90000] if quick else [0, 1, 59, 60, 1800, 3599, 3600, 7200, 32400, 86399, 86400, 90000]
    lo, hi = 365 * DAY - 14 * DAY, (365 * 3 + 366) * DAY + 14 * DAY      # 2018-12-18 .. 2022-01-15 relative to BASE
    inp["wlo"], inp["whi"] = lo, hi
    n = 80 if quick else 500
    inp["wstride_n"] = n
    inp["wstride_step"] = (hi - lo) // n - rng.randrange(1, 5000)
    inp["wstride_s0"] = lo + rng.randrange(1, 86400)
    inp["wemit_a"] = rng.choice([3, 7, 11, 13])
    inp["wemit_m"] = 100
    inp["wemit_k"] = 18 if quick else 6
    inp["wemit_h"] = 9 if quick else 31
    return inp


WNF = ["T", "Tn", "C", "Cn", "W", "TL", "TLn", "WL", "TC", "TCn", "CT", "CTn"]


def judge_window(s, ns, r):
    """property C31 on the real results for one timestamp (s seconds relative to BASE + ns nanoseconds)"""
    ts = (BASE + s, ns)
    T, C = (r["T"], r["Tn"]), (r["C"], r["Cn"])
    fails = []
    if not T <= ts:
        fails.append("window start %s is after the timestamp %s" % (T, ts))
    if not ts < C:
        fails.append("window end %s is not after the timestamp %s" % (C, ts))
    if not r["W"]:
        fails.append("IsWithin(ts, Truncate(ts)) is false")
    if T <= ts < C:
        if (r["TL"], r["TLn"]) != T:
            fails.append("the last nanosecond before the window end truncates to %s, not to the window start %s" % ((r["TL"], r["TLn"]), T))
        if not r["WL"]:
            fails.append("the last nanosecond before the window end is reported outside the window")
        if (r["TC"], r["TCn"]) != C:
            fails.append("the window end %s is not the start of a window (Truncate gives %s)" % (C, (r["TC"], r["TCn"])))
    return fails


def matches_window_model(o, r):
    return (r["T"] == BASE + o["T"] and r["C"] == BASE + o["C"] and bool(r["W"]) == o["W"] and r["TL"] == BASE + o["TL"]
            and bool(r["WL"]) == o["WL"] and r["TC"] == BASE + o["TC"] and r["CT"] == BASE + o["CT"]
            and r["Tn"] == r["Cn"] == r["TLn"] == r["TCn"] == r["CTn"] == 0)


def window_class(c):
    """which known finding a failing case with this deviation belongs to"""
    if c["sfx"] == "D":
        return "DayCeilAdds24h", "dst"
    if c["sfx"] == "W":
        return "WeekIsoWindow", ("mult" if c["m"] > 1 else "zone")
    return None, None


def tf_eq(real, model):
    """real {"str","dur"(ns)} or None  vs  model record / {"nil": true}"""
    if model.get("nil"):
        return real is None
    return real is not None and real["str"] == model["str"] and real["dur"] == model["dur"] * 10 ** 9


def parse_strs():
    ms = list(range(0, 61)) + [90, 120, 1440]
    return [{"sfx": s, "m": m} for s in ["S", "Sec", "T", "Min", "H", "D", "W", "M", "Y"] for m in ms if not (s == "Y" and m > 60)]


def run_parse(res, cases, nstrs, binary, tfs, known):
    if len(cases) != nstrs:
        raise Undecided("TLC emitted %d parse cases, expected %d" % (len(cases), nstrs))
    strings = ["%d%s" % (c["m"], c["sfx"]) for c in cases]
    obs = vlib.run_cases(binary, [{"id": "parse", "ops": [{"op": "ti_parse", "x": {"strings": strings, "durations": []}}]}], tag="ti_pr")
    o = one_obs(obs, "parse")[0]
    if o.get("panic"):
        res.violation("parse/print functions panicked: %s" % o["panic"], {"check": "timeindex", "kind": "parse", "strings": strings, "seed": vlib.seed()})
        return
    if o.get("err"):
        raise Undecided("ti_parse failed: %s" % o)
    names = {t["name"]: t["sec"] for t in tfs}
    stats = {"ok": 0, "known": 0, "model_differs_property_holds": 0, "synonym_prints": 0, "unparsable": 0}
    for c, s, real in zip(cases, strings, o["strings"]):
        res.cov["traces_validated_against_impl"] += 1
        fails, replay = [], {"check": "timeindex", "kind": "parse", "string": s, "case": c, "real": real, "seed": vlib.seed()}
        tf, cd = real.get("tf"), real.get("cd")
        model_ok = tf_eq(tf, c["tf"])
        # --- TimeframeFromString / TimeframeFromDuration: parse -> print -> parse keeps the duration; printing is then a fixpoint
        if tf is not None and c["m"] > 0:
            if real.get("tf2") != tf:
                fails.append("TimeframeFromString(%r) is not stable: %s then %s" % (s, tf, real.get("tf2")))
            back, back_p = real.get("tf_dur_back"), real.get("tf_dur_back_parsed")
            if back is None:
                fails.append("TimeframeFromDuration(%d ns) of the parsed %r is nil" % (tf["dur"], s))
            elif back_p is None or back_p["dur"] != tf["dur"]:
                fails.append("%r parses to %d ns, prints as %r, which parses to %s" % (s, tf["dur"], back["str"], back_p and back_p["dur"]))
            elif back["str"] != s:
                stats["synonym_prints"] += 1
            model_ok = model_ok and tf_eq(back, c["pd"])
        if tf is None and cd is None:
            stats["unparsable"] += 1
        if s in names:      # the texts of utils.Timeframes themselves must parse, to the duration listed there
            if tf is None or cd is None:
                fails.append("the supported timeframe %r does not parse (TimeframeFromString: %s, CandleDurationFromString: %s)" % (s, tf, cd))
            elif tf["dur"] != names[s] * 10 ** 9 or cd["dur"] != names[s] * 10 ** 9:
                fails.append("the supported timeframe %r parses to %d / %d ns, utils.Timeframes lists %d ns" % (s, tf["dur"], cd["dur"], names[s] * 10 ** 9))
        # --- CandleDurationFromString: String round trip, queryable timeframe divides the duration
        if cd is not None and c["m"] > 0:
            cd2 = real.get("cd2")
            if cd["str"] != s or cd2 is None or cd2["str"] != cd["str"] or cd2["dur"] != cd["dur"] or cd2["q"] != cd["q"]:
                fails.append("CandleDurationFromString(%r) does not round trip: %s then %s" % (s, cd, cd2))
            if cd["q"] not in names or cd["q_tf"] is None or cd["q_tf"]["dur"] != names[cd["q"]] * 10 ** 9:
                fails.append("QueryableTimeframe(%r) = %r is not a supported timeframe" % (s, cd["q"]))
            elif cd["dur"] % cd["q_tf"]["dur"] != 0:
                fails.append("QueryableTimeframe(%r) = %r does not divide the duration %d ns" % (s, cd["q"], cd["dur"]))
            model_ok = model_ok and (not c["cd"].get("nil")) and cd["dur"] == c["cd"]["dur"] * 10 ** 9 and cd["q"] == c["q"]
        elif cd is None:
            model_ok = model_ok and bool(c["cd"].get("nil"))
        if not fails:
            stats["ok"] += 1
            if not model_ok:
                stats["model_differs_property_holds"] += 1
            res.sample({"string": s, "real": {k: real.get(k) for k in ("tf", "tf_dur_back", "cd")}}, limit=2)
            continue
        if c["hit"] and model_ok and not c["okd"] and all(h in known for h in c["hit"]) and all("prints as" in f or "is nil" in f for f in fails):
            stats["known"] += 1
            for h in c["hit"]:
                res.known_finding(known[h], {"string": s, "duration_ns": tf["dur"], "printed": real.get("tf_dur_back")})
            continue
        res.violation("timeframe text %r: %s" % (s, "; ".join(fails)[:800]), replay)
    res.cov["parse_cases"] = stats


def run_window(res, r, rng, binary, known):
    cases = {}
    for c in r["records"].get("WN", []):
        cases[(c["z"], c["sfx"], c["m"], c["s"])] = c
    if len(cases) < 500:
        raise Undecided("TLC emitted only %d window cases" % len(cases))
    # group: zone -> candle duration -> timestamps; every timestamp once without and once with nanoseconds
    groups = {}
    for (z, sfx, m, s), c in sorted(cases.items()):
        groups.setdefault(z, {}).setdefault((sfx, m), []).append(s)
    script, where = [], {}
    for z, g in groups.items():
        for ns in (0, rng.choice([1, NS_EDGE, rng.randrange(2, NS_EDGE)])):
            items = [{"cd": "%d%s" % (m, sfx), "ts": [BASE + s for s in ss], "ns": ns} for (sfx, m), ss in sorted(g.items())]
            cid = "wn:%s:%d" % (z, ns)
            script.append({"id": cid, "ops": [{"op": "ti_candle", "x": {"tz": z, "items": items}}]})
            where[cid] = (z, ns, sorted(g.items()))
    obs = vlib.run_cases(binary, script, timeout=900, tag="ti_wn")
    stats = {"ok": 0, "known": 0, "model_agree": 0, "model_differs_property_holds": 0}
    seen_cd, nreal = set(), 0
    for cid, (z, ns, g) in where.items():
        o = one_obs(obs, cid)[0]
        if o.get("panic"):
            res.violation("candle functions panicked under zone %s: %s" % (z, o["panic"]), {"check": "timeindex", "kind": "window", "op": [s for s in script if s["id"] == cid][0], "seed": vlib.seed()})
            continue
        if o.get("err") or len(o["items"]) != len(g):
            raise Undecided("ti_candle failed: %s" % str(o)[:500])
        for ((sfx, m), ss), item in zip(g, o["items"]):
            if item.get("err") or len(item["rows"]) != len(ss):
                res.violation("CandleDurationFromString(%d%s) failed: %s" % (m, sfx, item.get("err")), {"check": "timeindex", "kind": "window", "cd": "%d%s" % (m, sfx), "seed": vlib.seed()})
                continue
            seen_cd.add("%d%s" % (m, sfx))
            for s, row in zip(ss, item["rows"]):
                c = cases[(z, sfx, m, s)]
                rr = dict(zip(WNF, row))
                nreal += 1
                res.cov["traces_validated_against_impl"] += 1
                fails = judge_window(s, ns, rr)
                agree = matches_window_model(c["d"], rr)
                replay = {"check": "timeindex", "kind": "window", "tz": z, "cd": "%d%s" % (m, sfx), "epoch": BASE + s, "ns": ns, "case": c, "real": rr, "seed": vlib.seed()}
                if not fails:
                    stats["ok"] += 1
                    stats["model_agree" if agree else "model_differs_property_holds"] += 1
                    res.sample({"zone": z, "cd": "%d%s" % (m, sfx), "epoch": BASE + s, "ns": ns, "real": rr}, limit=4)
                    continue
                dev, cls = window_class(c)
                kf = known.get((dev, cls))
                if c["hit"] and not c["okd"] and agree and kf is not None and dev in c["hit"]:
                    stats["known"] += 1
                    res.known_finding(kf, {"zone": z, "cd": "%d%s" % (m, sfx), "epoch": BASE + s, "truncate": rr["T"], "ceil": rr["C"], "within": bool(rr["W"]), "fails": fails[:2]})
                    continue
                res.violation("%s %d%s ts=%d.%09d: %s (Truncate=%d Ceil=%d IsWithin=%s)" % (
                    z, m, sfx, BASE + s, ns, "; ".join(fails)[:600], rr["T"], rr["C"], bool(rr["W"])), replay)
    res.cov["window_cases"] = stats
    res.cov["candle_durations"] = sorted(seen_cd)
    res.cov["real_evaluations"] = nreal


# ------------------------------------------------------------------------------------------------------------
def run(prop, tier):
    res = Result(prop, tier)
    rng = random.Random(vlib.seed() * 104729 + (30 if prop == "C30" else 31))
    binary = vlib.build_harness(cmd="mv_timeindex")
    zones, tfs = real_inputs(binary)
    kfs = vlib.known_findings(prop)
    if prop == "C30":
        known = {k["deviation"]: k for k in kfs}
        run_c30(res, tier, rng, binary, zones, tfs, known)
    else:
        known = {}
        for k in kfs:
            known[k["deviation"]] = k
            known[(k["deviation"], k.get("class"))] = k
        inp = window_input(base_input(zones, tfs, rng), tier, rng)
        inp["strs"] = parse_strs()
        cfgname = "TimeIndex_candle_%s.cfg" % tier
        r = tlc("candle", inp, cfgname, timeout=600 if tier == "quick" else 5400)
        res.tlc(r, cfgname)
        run_parse(res, r["records"].get("PR", []), len(inp["strs"]), binary, tfs, known)
        run_window(res, r, rng, binary, known)
        res.assumptions += ["zone-offset table taken from Go's tz data (harness op ti_zones) for %s, %d-%d" % (", ".join(ZONES), YEARS[0], YEARS[-1]),
                            "timestamps carry the configured zone (io.ToSystemTimezone), as ColumnSeries.GetTime delivers them",
                            "multiplier 0 and texts without a known suffix are not candle durations"]
    return res.finish()


def replay(rp):
    """tools/check.py --replay <file>: evaluate one recorded case again on the real code"""
    r = rp["replay"]
    binary = vlib.build_harness(cmd="mv_timeindex")
    if r.get("kind") == "index":
        names = sorted(r["rows"])
        env = dict(vlib.GOENV, TZ=r.get("local", "UTC"))
        obs = vlib.run_cases(binary, [{"id": "r", "ops": [{"op": "ti_index", "x": {"tz": r["tz"], "rows": [r["rows"][n] for n in names]}}]}], env=env)
        o = one_obs(obs, "r")[0]
        real = {n: dict(zip(IXF, row)) for n, row in zip(names, o.get("rows", []))}
        fails = judge_index(r["case"], r["reclen"], real) if real else ["panic: %s" % o.get("panic")]
    elif r.get("kind") == "window" and "epoch" in r:
        obs = vlib.run_cases(binary, [{"id": "r", "ops": [{"op": "ti_candle", "x": {"tz": r["tz"], "items": [{"cd": r["cd"], "ts": [r["epoch"]], "ns": r["ns"]}]}}]}])
        o = one_obs(obs, "r")[0]
        rr = dict(zip(WNF, o["items"][0]["rows"][0]))
        fails = judge_window(r["epoch"] - BASE, r["ns"], rr)
    else:
        print("UNDECIDED: this replay object is informational only")
        return 2
    if fails:
        print("VIOLATION property=%s (replayed): %s" % (rp["property"], "; ".join(fails)))
        return 1
    print("OK property=%s (replayed case holds)" % rp["property"])
    return 0
