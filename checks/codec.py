"""C27 / C28 / C29: byte-level codecs.  Codec.tla enumerates the structured input space with the predicted layout;
every case is concretised, run through the real functions (harness binary mv_codec) and compared."""
PROPS = ["C27", "C28", "C29"]
READY = True
CLAIMS = {
 "C27": dict(technique="TLA+ model of NewNumpyDataset / NumpyMultiDataset.Append bookkeeping (StartIndex, Lengths, column byte segments) and of both decoders, round trip checked by TLC as invariant over all datasets in bounds; every TLC state replayed into the real conversion + msgpack (plain and through the real RPC server/client codecs) + ToColumnSeriesMap",
             text="TLC enumerates all datasets of <=3 buckets x <=3 columns over the 11 wire types x lengths {0,1,2} (plus buckets whose column types differ from the dataset's) and checks Decode(Encode(x)) = x on the implementation-shaped model (Append advancing StartIndex, byte ranges start*size..(start+len)*size per column, both ToColumnSeriesMap variants). Each state is concretised (boundary and seeded values per type, seeded names and keys) and executed: ColumnSeries -> NewNumpyDataset/NewNumpyMultiDataset/Append -> msgpack.Marshal/Unmarshal and EncodeClientRequest -> rpc server codec -> service -> response -> DecodeClientResponse -> numpy.go ToColumnSeriesMap / query.go ToColumnSeriesMap; buckets, names, order, Go slice types and value bytes are compared with the input, and StartIndex/Lengths/column byte counts with the model.",
             note="Trusted: TLC, the Python concretisation, encoding/binary in the harness. Bounded as stated; zero-column series and zero-bucket datasets are outside the bounds. Quick tier explores a seeded subset of the type combinations for 3 columns."),
 "C28": dict(technique="TLA+ model of serializeTG / DSVToBytes field layout with length prefixes at their real widths and of the ParseTGData / DSVFromBytes cursor, round trip checked by TLC over size classes; every TLC state replayed through DataService.Create + Writer.WriteCSM with a capturing ReplicationSender, executor.ParseTGData on the captured bytes and on the bytes found in the WAL file",
             text="TLC enumerates transaction groups of <=3 write commands over path length {22,255,300,526} (1 and 40000 are shown not producible), column-name length {1,31,32,255,256,300} at first/last/all positions, shape count {1,2,255,256}, payload {empty, one row, >=70000 bytes}, 12 element types, both record types, one or two buckets, and checks that the reader's cursor (driven by the stored prefixes: path length % 65536 as int16, shape count % 256, name length % 256) meets the writer's fields. Each state is concretised to real buckets and rows, written through the public write path, the serialized group captured from ReplicationSender.Send and from the WAL file, compared byte for byte with the layout TLC predicts, and decoded with ParseTGData; file, record type, offset, index, payload and data shapes are compared with the written command. DSVToBytes/DSVFromBytes are additionally driven directly over the same classes.",
             note="Trusted: TLC, the Python concretisation, io.TimeToIndex/IndexToOffset as reference for the command's index and offset. One WriteCSM call yields one group, so all commands of a group share the record type; int32 payload overflow (>2 GiB) and paths beyond NAME_MAX are out of reach of the write path."),
 "C29": dict(technique="TLA+ model of the row writer (field offsets, record length with AlignedLen padding) and of the three row readers, round trip checked by TLC over all schemas in bounds x align; every TLC state replayed into SerializeColumnsToRows / ToRowSeries -> NewRowSeries -> GetColumn / ToColumnSeries",
             text="TLC enumerates all schemas of Epoch plus <=4 columns over the 12 fixed-width element types (Epoch first, and with columns in front of Epoch) x align on/off and checks that every reader offset meets the field the writer put there and that the record length is the sum of widths padded to a multiple of 8. Each state is concretised with 0..3 rows of boundary and seeded values and executed through io.SerializeColumnsToRows + io.NewRowSeries and ColumnSeries.ToRowSeries, read back with RowSeries.GetColumn, RowSeries.ToColumnSeries and Rows.ToColumnSeries; names, order, Go slice types and value bytes are compared with the input, the row bytes and record length with the layout TLC predicts.",
             note="Trusted: TLC, the Python concretisation, encoding/binary in the harness. Quick tier: all schemas of <=3 columns, 4-column schemas over a seeded subset of types."),
}
import calendar, itertools, json, os, random, shutil, struct, sys, time
import vlib
from vlib import Result, Undecided

# element type -> (wire string / driver type, width, Go slice type, enum code)
ENUM = {
    "FLOAT32": ("f4", 4, "[]float32", 0), "INT32": ("i4", 4, "[]int32", 1), "FLOAT64": ("f8", 8, "[]float64", 2),
    "INT64": ("i8", 8, "[]int64", 3), "BYTE": ("i1", 1, "[]int8", 5), "BOOL": ("bool", 1, "[]bool", 6),
    "INT16": ("i2", 2, "[]int16", 9), "UINT8": ("u1", 1, "[]uint8", 10), "UINT16": ("u2", 2, "[]uint16", 11),
    "UINT32": ("u4", 4, "[]uint32", 12), "UINT64": ("u8", 8, "[]uint64", 13), "STRING16": ("U16", 64, "[][16]int32", 14),
}
ALLT = list(ENUM)
WIRE = [t for t in ALLT if t != "BOOL"]
SAME_WIDTH = [("INT32", "FLOAT32"), ("UINT32", "FLOAT32"), ("INT32", "UINT32"), ("INT64", "FLOAT64"), ("UINT64", "FLOAT64"), ("INT64", "UINT64"),
              ("INT16", "UINT16"), ("BYTE", "UINT8")]
OF_WIRE = {v[0]: k for k, v in ENUM.items()}
DEVS = {"C27": ["EmptyBucketDropped", "AllEmptyNoColumns", "AppendIgnoresTypes"],
        "C28": ["OneByteNameLen", "OneByteColCount", "Int16PathLen"],
        "C29": ["ByteAsUint8", "EpochMovedFirst"]}


def drv_t(t):
    return ENUM[t][0]


def width(t):
    return ENUM[t][1]


def gotype(t):
    return ENUM[t][2]


def S(xs):
    return "{" + ", ".join(('"%s"' % x if isinstance(x, str) else str(x)) for x in xs) + "}"


def consts(family, prop, **kw):
    c = dict(Family='"%s"' % family, Deviations=S(DEVS[prop]), Types=S(ALLT), MaxCols=2, MaxBuckets=2, Lens=S([0, 1, 2]),
             Mismatch="FALSE", MaxPre=1, PathLens=S([22]), NameLens=S([1]), ColCounts=S([1, 2]), BigTypes=S(["FLOAT32"]),
             MaxCmds=1, TwoBuckets="FALSE", BigPayload=70000)
    for k, v in kw.items():
        c[k] = S(v) if isinstance(v, (list, tuple, set)) else ("TRUE" if v is True else "FALSE" if v is False else v)
    return c


def tlc(res, prop, family, name, invariants, timeout=1500, **kw):
    r = vlib.run_tlc("Codec", name, cfg_text=vlib.cfg_text(consts(family, prop, **kw), invariants=invariants), timeout=timeout, heap="6g", workers=4)
    vlib.tlc_ok(r, name)
    if r["violated"]:
        raise Undecided("MODEL-DRIFT: %s violates %s in the model\n%s" % (name, r["violated"], r["out"][-3000:]))
    if r["records"].get("BAD"):
        raise Undecided("unparsable TLC record in %s: %s" % (name, r["records"]["BAD"][0][:300]))
    res.tlc(r, name)
    cases = r["records"].get("CASE", [])
    if len(cases) != r.get("distinct"):
        raise Undecided("%s: TLC printed %d cases for %s distinct states" % (name, len(cases), r.get("distinct")))
    return cases, r


def run_chunked(binary, cases, chunk, handle, timeout=3000, tag="cases"):
    """run the cases through the driver chunk by chunk (bounded memory), call handle(case, obs) per case"""
    t_end = time.time() + timeout
    for i in range(0, len(cases), chunk):
        part = cases[i:i + chunk]
        obs = vlib.run_cases(binary, [{"id": c["id"], "ops": c["ops"]} for c in part], timeout=max(10, t_end - time.time()), tag=tag)
        for c in part:
            o = obs.get(json.dumps(c["id"]))
            if o is None:
                raise Undecided("no observation for case %s" % c["id"])
            if isinstance(o, dict) and "died" in o:
                handle(c, None, o)
            else:
                handle(c, o, None)


class Verdicts:
    """violations / known findings go to the Result; model drift (the code's layout differs from the model although
    the property holds) is collected and turns the run into 'undecided' unless a real violation was found"""

    def __init__(self, res, prop):
        self.res, self.prop = res, prop
        self.known = {k["deviation"]: k for k in vlib.known_findings(prop)}
        self.drift = []
        self.pending = {}

    def violation(self, msg, replay):
        self.res.violation(msg, replay)

    def deviation(self, devs, example, replay, what):
        for d in devs:
            if d in self.known:
                if len(devs) == 1:
                    self.res.known_finding(self.known[d], example)     # a case that shows this deviation alone
                else:
                    self.pending.setdefault(d, example)
            else:
                self.res.violation("deviation %s observed but not listed as known: %s" % (d, what), replay)

    def note_drift(self, msg):
        if len(self.drift) < 20:
            self.drift.append(msg)

    def finish(self):
        for d, example in self.pending.items():
            self.res.known_finding(self.known[d], example)             # no-op when a cleaner example exists
        if not self.res.violations and self.drift:
            self.res.finish()
            raise Undecided("MODEL-DRIFT: the property held but the code's layout differs from Codec.tla: " + " | ".join(self.drift[:3]))
        return self.res.finish()


# ----------------------------------------------------------------------------------------------
# values
# ----------------------------------------------------------------------------------------------
def _ints(fmt, vals):
    return [struct.pack("<" + fmt, v) for v in vals]


BOUND = {
    "INT64": _ints("q", [-2 ** 63, 2 ** 63 - 1, -1, 0, 1]), "UINT64": _ints("Q", [2 ** 64 - 1, 2 ** 63, 0, 1]),
    "INT32": _ints("i", [-2 ** 31, 2 ** 31 - 1, -1, 0]), "UINT32": _ints("I", [2 ** 32 - 1, 2 ** 31, 0]),
    "INT16": _ints("h", [-2 ** 15, 2 ** 15 - 1, -1, 0]), "UINT16": _ints("H", [2 ** 16 - 1, 2 ** 15, 0]),
    "BYTE": _ints("b", [-128, 127, -1, 0]), "UINT8": _ints("B", [255, 128, 0, 1]), "BOOL": [b"\x00", b"\x01"],
    # NaN with payload, -0.0, +Inf, smallest denormal, largest finite
    "FLOAT32": [bytes.fromhex(h) for h in ("0100c07f", "00000080", "0000807f", "01000000", "ffff7f7f")],
    "FLOAT64": [bytes.fromhex(h) for h in ("010000000000f87f", "0000000000000080", "000000000000f07f", "0100000000000000", "ffffffffffffef7f")],
    "STRING16": [struct.pack("<16i", *([0x10FFFF, 0, -1, 0x41] * 4)), b"\x00" * 64],
}


def gen_vals(rng, t, n):
    """n elements of type t as little-endian bytes: boundary values mixed with seeded ones"""
    w = width(t)
    out = []
    for _ in range(n):
        if rng.random() < 0.5:
            out.append(rng.choice(BOUND[t]))
        elif t == "BOOL":
            out.append(bytes([rng.getrandbits(1)]))
        else:
            out.append(rng.getrandbits(8 * w).to_bytes(w, "little"))
    return out


def bulk_vals(rng, t, n):
    """many elements, cheaply"""
    if t == "BOOL":
        return [bytes([b & 1]) for b in rng.getrandbits(8 * n).to_bytes(n, "little")] if n else []
    w = width(t)
    raw = rng.getrandbits(8 * w * n).to_bytes(w * n, "little") if n else b""
    return [raw[i * w:(i + 1) * w] for i in range(n)]


def hx(b):
    return bytes(b).hex()


# ----------------------------------------------------------------------------------------------
# C29
# ----------------------------------------------------------------------------------------------
def c29_concretise(rng, case, cid):
    sch = case["sch"]
    nrows = rng.choice([0, 1, 2, 3]) if rng.random() < 0.5 else rng.choice([2, 3])
    cols = []
    k = 0
    for s in sch:
        if s == "Epoch":
            cols.append(("Epoch", "INT64", gen_vals(rng, "INT64", nrows)))
        else:
            cols.append(("c%d" % k, s, gen_vals(rng, s, nrows)))
            k += 1
    via = rng.choice(["func", "method"])
    x = {"cols": [{"nhex": hx(n.encode()), "type": drv_t(t), "hex": hx(b"".join(v))} for n, t, v in cols], "align": case["align"], "via": via}
    return {"id": cid, "ops": [{"op": "c29_rows", "x": x}], "case": case, "cols": cols, "nrows": nrows, "via": via}


def c29_expect(c):
    """pure (= the input) and deviating (interpreting the layouts TLC predicted) results of the three readers"""
    case, cols, n = c["case"], c["cols"], c["nrows"]
    ncol = len(cols)
    pure_cols = [[hx(nm.encode()), gotype(t), hx(b"".join(v))] for nm, t, v in cols]
    rows = []
    for r in range(n):
        row = bytearray(case["reclen"])
        for j in range(ncol):
            off, w = case["wl"][j]
            row[off:off + w] = cols[j][2][r]
        rows.append(bytes(row))

    def read(j, off):
        w = width(cols[j][1])
        return [hx(cols[j][0].encode()), gotype(case["rtypes"][j]), hx(b"".join(row[off:off + w] for row in rows))]

    order = [k - 1 for k in case["order"]]
    dev = {"getcolumn": [read(j, case["rdget"][j]) for j in range(ncol)],
           "tocs": [read(j, case["rdcs"][j]) for j in order],
           "rows_tocs": [read(j, case["rdget"][j]) for j in order]}
    pure = {"getcolumn": pure_cols, "tocs": pure_cols, "rows_tocs": pure_cols}
    return pure, dev, hx(b"".join(rows))


def run_c29(res, tier, rng, binary):
    v = Verdicts(res, "C29")
    inv = ["C29_RoundTrip", "C29_DevExplains", "C29_RecordLength", "Emit29"]
    runs = []
    if tier == "quick":
        sub = sorted(set(rng.sample(ALLT, 3)) | {rng.choice(["BYTE", "BOOL"])})
        runs = [("Codec_c29_a.cfg", dict(Types=ALLT, MaxCols=3, MaxPre=1)), ("Codec_c29_b.cfg", dict(Types=sub, MaxCols=4, MaxPre=2))]
    else:
        runs = [("Codec_c29_a.cfg", dict(Types=ALLT, MaxCols=4, MaxPre=1)), ("Codec_c29_b.cfg", dict(Types=ALLT, MaxCols=3, MaxPre=3))]
    cases = []
    for name, kw in runs:
        cs, _ = tlc(res, "C29", "C29", name, inv, **kw)
        for case in cs:
            cases.append(c29_concretise(rng, case, "r%d" % len(cases)))
    res.cov["cases_replayed"] = len(cases)
    stats = {"identical": 0, "known_deviation": 0, "schemas_epoch_not_first": 0}

    def handle(c, obs, died):
        case = c["case"]
        replay = {"check": "codec", "prop": "C29", "ops": c["ops"], "model_case": case, "seed": vlib.seed()}
        if died is not None:
            v.violation("process died (%s) serialising rows: %s" % (died["died"], died["stderr"][-400:]), replay)
            return
        o = obs[0]
        if o.get("driver_error") or (o.get("panic") and "ser" not in o):
            raise Undecided("driver error in %s: %s" % (c["id"], str(o)[:500]))
        res.cov["traces_validated_against_impl"] += 1
        desc = "schema %s align=%s rows=%d via=%s" % (case["sch"], case["align"], c["nrows"], c["via"])
        ser = o["ser"]
        if ser.get("panic") or ser.get("err"):
            v.violation("serialising a valid column series failed (%s): %s" % (desc, ser.get("panic") or ser.get("err")), replay)
            return
        pure, dev, data_hex = c29_expect(c)
        if case["sch"][0] != "Epoch":
            stats["schemas_epoch_not_first"] += 1
        # record length: the sum of the field widths, padded to the next multiple of 8 when aligned
        if ser["reclen"] != case["reclen"]:
            v.violation("record length %d for %s; fixed-width rows %s are %d bytes" % (
                ser["reclen"], desc, "with 8-byte alignment padding" if case["align"] else "without padding", case["reclen"]), replay)
            return
        layout_ok = ser["data"] == data_hex
        bad = deviated = False
        for reader in ("getcolumn", "tocs", "rows_tocs"):
            r = o.get(reader) or {}
            real = r.get("cols") if not (r.get("panic") or r.get("err")) else "failed: %s" % (r.get("panic") or r.get("err"))
            if real == pure[reader]:
                continue
            if case["hit"] and real == dev[reader]:
                deviated = True
                v.deviation(case["hit"], {"schema": case["sch"], "align": case["align"], "reader": reader, "got": str(real)[:200]}, replay, desc)
                continue
            bad = True
            v.violation("%s of rows serialised from %s returned %s; the original columns are %s" % (
                reader, desc, str(real)[:500], str(pure[reader])[:500]), replay)
            break
        stats["known_deviation"] += deviated and not bad
        stats["identical"] += not bad and not deviated
        if not bad:
            if not layout_ok:
                v.note_drift("C29 row bytes of %s are %s, model lays them out as %s" % (desc, ser["data"][:200], data_hex[:200]))
        res.sample({"schema": case["sch"], "align": case["align"], "rows": c["nrows"], "reclen": case["reclen"], "layout": case["wl"]}, limit=3)

    run_chunked(binary, cases, 20000, handle, tag="c29")
    res.cov.update(stats)
    res.assumptions += ["values are per-type boundary values mixed with seeded ones; 0..3 rows per case",
                        "columns are read back by name (GetColumn) and as a whole (RowSeries.ToColumnSeries, Rows.ToColumnSeries)"]
    return v.finish()


# ----------------------------------------------------------------------------------------------
# C27
# ----------------------------------------------------------------------------------------------
NAME_POOL = ["Epoch", "Open", "a", "Nanoseconds", "with space", "цена", "x" * 300, "V0lume_", "High", "é"]
TF_POOL = ["1Min", "1D", "5Min", "1Sec", "1H"]
SUFFIX = ":Symbol/Timeframe/AttributeGroup"


def c27_concretise(rng, case, cid):
    bks = case["bks"]
    ncols = len(bks[0]["types"])
    names = rng.sample(NAME_POOL, ncols)
    tf, ag = rng.choice(TF_POOL), rng.choice(["OHLCV", "TICK", "G"])
    syms = rng.sample(["AAPL", "TSLA", "S", "BRK.B", "ZZ9", "x-y"], len(bks))
    buckets, orig = [], {}
    for b, sym in zip(bks, syms):
        key = "%s/%s/%s" % (sym, tf, ag)
        mynames = names if b.get("names", "same") == "same" else names[1:] + names[:1]     # the same names in another order
        cols = [(nm, OF_WIRE[ts], gen_vals(rng, OF_WIRE[ts], b["len"])) for nm, ts in zip(mynames, b["types"])]
        buckets.append({"key": key, "cols": [{"nhex": hx(nm.encode()), "type": drv_t(t), "hex": hx(b"".join(vv))} for nm, t, vv in cols]})
        orig[key + SUFFIX] = cols
    return {"id": cid, "ops": [{"op": "c27_numpy", "x": {"buckets": buckets}}], "case": case, "orig": orig,
            "keys": [b["key"] + SUFFIX for b in buckets], "names": names}


def c27_expect(c):
    case, keys, orig = c["case"], c["keys"], c["orig"]
    names = c["names"]
    pure = {k: [[hx(nm.encode()), gotype(t), hx(b"".join(vv))] for nm, t, vv in orig[k]] for k in keys}
    ncols = len(names)
    # the dataset's column i = the appended buckets' column bytes back to back
    coldata = [b"".join(b"".join(orig[k][i][2]) for k in keys) for i in range(ncols)]

    def dev(which):
        out = {}
        for k, d in zip(keys, case[which]):
            if d["kind"] == "panic":
                return "failed"
            if d["kind"] == "absent":
                continue
            if d["kind"] == "nocols":
                out[k] = []
                continue
            out[k] = [[hx(names[i].encode()), gotype(col["t"]), hx(coldata[i][col["lo"]:col["hi"]])] for i, col in enumerate(d["cols"])]
        return out

    return pure, {"plain": dev("server"), "server": dev("server"), "client": dev("client")}


def run_c27(res, tier, rng, binary):
    v = Verdicts(res, "C27")
    inv = ["C27_RoundTrip", "C27_StartIndex", "C27_DevExplains", "Emit27"]
    if tier == "quick":
        sub3 = sorted(rng.sample(WIRE, 3))
        subm = sorted(set(rng.sample(WIRE, 3)) | {rng.choice(["FLOAT32", "INT32"])})     # at least one same-width pair is likely
        runs = [("Codec_c27_a.cfg", dict(Types=WIRE, MaxCols=2, MaxBuckets=3)),
                ("Codec_c27_b.cfg", dict(Types=sub3, MaxCols=3, MaxBuckets=3)),
                ("Codec_c27_m.cfg", dict(Types=subm, MaxCols=2, MaxBuckets=2, Mismatch=True))]
    else:
        runs = [("Codec_c27_a.cfg", dict(Types=WIRE, MaxCols=3, MaxBuckets=3)),
                ("Codec_c27_m.cfg", dict(Types=WIRE, MaxCols=2, MaxBuckets=2, Mismatch=True)),
                ("Codec_c27_n.cfg", dict(Types=sorted(rng.sample(WIRE, 5)), MaxCols=2, MaxBuckets=3, Mismatch=True))]
    cases = []
    for name, kw in runs:
        cs, _ = tlc(res, "C27", "C27", name, inv, **kw)
        for case in cs:
            cases.append(c27_concretise(rng, case, "n%d" % len(cases)))
    res.cov["cases_replayed"] = len(cases)
    stats = {"identical": 0, "known_deviation": 0, "refused_by_append": 0, "datasets_with_empty_bucket": 0, "datasets_with_type_mismatch": 0}

    def handle(c, obs, died):
        case = c["case"]
        replay = {"check": "codec", "prop": "C27", "ops": c["ops"], "model_case": case, "seed": vlib.seed()}
        desc = "dataset %s" % [(b["len"], b["types"]) + (("column names rotated",) if b.get("names") == "rot" else ()) for b in case["bks"]]
        if any(b.get("names") == "rot" for b in case["bks"]):
            stats["datasets_with_permuted_names"] = stats.get("datasets_with_permuted_names", 0) + 1
        if died is not None:
            v.violation("process died (%s) converting %s: %s" % (died["died"], desc, died["stderr"][-400:]), replay)
            return
        o = obs[0]
        if o.get("driver_error") or (o.get("panic") and "conv" not in o):
            raise Undecided("driver error in %s: %s" % (c["id"], str(o)[:500]))
        res.cov["traces_validated_against_impl"] += 1
        if any(b["len"] == 0 for b in case["bks"]):
            stats["datasets_with_empty_bucket"] += 1
        if "AppendIgnoresTypes" in case["hit"]:
            stats["datasets_with_type_mismatch"] += 1
        conv = o["conv"]
        if conv.get("panic"):
            v.violation("conversion of %s to the dataset format panicked: %s" % (desc, conv["panic"]), replay)
            return
        if conv.get("err"):
            if not case["pureaccepts"]:
                stats["refused_by_append"] += 1       # a refused conversion has nothing to round-trip
                return
            v.violation("conversion of %s to the dataset format was refused: %s" % (desc, conv["err"]), replay)
            return
        pure, dev = c27_expect(c)
        rp = o.get("rpc") or {}
        if rp.get("driver_error"):
            raise Undecided("rpc set-up failed: %s" % rp)
        bad = deviated = False
        for path in ("plain", "server", "client"):
            r = o.get(path)
            detail = ""
            if r is None:
                real = "failed: no result (rpc: %s)" % str(rp)[:200]
            elif r.get("panic") or r.get("err"):
                real = "failed"
                detail = r.get("panic") or r.get("err")
            else:
                real = r["csm"]
            if real == pure:
                continue
            hits = [h for h in case["hit"] if not (h == "AllEmptyNoColumns" and path != "client") and not (h == "EmptyBucketDropped" and path == "client")]
            if hits and real == dev[path]:
                deviated = True
                # attribute to the deviations that change this path's result
                v.deviation(hits, {"dataset": [(b["len"], b["types"]) for b in case["bks"]], "decoder": path, "got": str(real)[:200]}, replay, desc)
                continue
            bad = True
            v.violation("%s decoded through '%s' gives %s; the input buckets are %s" % (
                desc, path, (str(real) + (" (%s)" % detail if real == "failed" else ""))[:600], str(pure)[:600]), replay)
            break
        stats["known_deviation"] += deviated and not bad
        stats["identical"] += not bad and not deviated
        if not bad:
            bk = conv["book"]
            want = case["book"]
            got = {"length": bk["length"], "start": [bk["start"].get(k) for k in c["keys"]], "lens": [bk["lengths"].get(k) for k in c["keys"]],
                   "colbytes": bk["colbytes"], "types": bk["types"]}
            if got != want:
                v.note_drift("C27 bookkeeping of %s is %s, model says %s" % (desc, got, want))
            pb = (o.get("plain") or {}).get("book")
            if pb is not None and pb != bk:
                v.note_drift("C27 msgpack changed the dataset of %s: %s -> %s" % (desc, bk, pb))
        res.sample({"dataset": [(b["len"], b["types"]) for b in case["bks"]], "book": case["book"]}, limit=3)

    run_chunked(binary, cases, 8000, handle, tag="c27")
    res.cov.update(stats)
    res.assumptions += ["values are per-type boundary values mixed with seeded ones; column names and bucket keys drawn from a fixed pool",
                        "a conversion refused with an error has nothing to round-trip"]
    return v.finish()


# ----------------------------------------------------------------------------------------------
# C28
# ----------------------------------------------------------------------------------------------
ALPHA = [c for c in range(0x21, 0x7f) if not (0x41 <= c <= 0x5a) and c not in (0x2f, 0x3a, 0x2c, 0x5c, 0x22)]   # printable, no upper case, no / : , \ "


def nth_name(k, l):
    """k-th distinct column name of l bytes"""
    b = bytearray(b"n" * l)
    base = len(ALPHA)
    for i in range(min(l, 3)):
        b[i] = ALPHA[k % base]
        k //= base
    if k:
        raise Undecided("cannot build that many distinct names of %d bytes" % l)
    return bytes(b)


_sym = [0]


def key_of(plen):
    """sym/tf/attr whose year file path sym/tf/attr/YYYY.bin has exactly plen bytes; sym is unique"""
    tf = "1D" if plen - 13 <= 510 else "15Min"
    rest = plen - 11 - len(tf)        # len(sym) + len(attr)
    if rest < 2 or rest > 510:
        raise Undecided("path length %d is not producible" % plen)
    _sym[0] += 1
    n, uid = _sym[0], ""
    while n:
        uid = "0123456789abcdefghijklmnopqrstuvwxyz"[n % 36] + uid
        n //= 36
    ls = min(255, max(len(uid) + 1, rest - min(255, rest // 2)))
    if rest - ls < 1:
        ls = rest - 1
    if ls < len(uid) + 1:
        raise Undecided("path length %d leaves no room for a unique symbol" % plen)
    sym = "s" + uid + "_" * (ls - len(uid) - 1)
    ag = "g" * (rest - ls)
    if len(ag) > 255 or len(sym) > 255:
        raise Undecided("component too long for path length %d" % plen)
    return "%s/%s/%s" % (sym, tf, ag), tf


def c28_concretise(rng, case, cid, root, year_now):
    rt = case["rt"]
    buckets = []
    for bi, b in enumerate(case["b"]):
        key, tf = key_of(b["p"])
        year = year_now if rng.random() < 0.7 else year_now - 2
        step = 86400 if tf == "1D" else 900
        ys = calendar.timegm((year, 1, 1, 0, 0, 0))
        mycmds = [c for c in case["cmds"] if c["b"] == bi + 1]
        slots = sorted(rng.sample(range(2, 360), len(mycmds)))
        names, types = [], []
        for cnt, l, t in b["runs"][1:]:
            for _ in range(cnt):
                names.append(nth_name(len(names), l))
                types.append(t)
        maxname = max([len(n) for n in names] + [0])
        # DataService.Create knows the 11 wire types and cuts names at 32 bytes; everything else reaches the
        # WAL through the bucket WriteCSM creates on the first write
        create = maxname <= 32 and "BOOL" not in types and rng.random() < 0.5
        coldata = [[] for _ in names]
        epochs, cmdinfo = [], []
        for cm, slot in zip(mycmds, slots):
            t0 = ys + slot * step
            nrows = cm["enc"]["rows"]
            payload = bytearray()
            vals = [bulk_vals(rng, t, nrows) if nrows > 8 else gen_vals(rng, t, nrows) for t in types]
            for j in range(len(names)):
                coldata[j] += vals[j]
            for r in range(nrows):
                for j in range(len(names)):
                    payload += vals[j][r]
                if rt == 1:
                    payload += b"\x00\x00\x00\x00"          # interval ticks of a row exactly at the interval start
            if rt == 0:
                payload = bytearray(b"".join(vals[j][nrows - 1] for j in range(len(names))))
            epochs += [t0] * nrows
            cmdinfo.append({"time": t0, "payload": bytes(payload), "enc": cm["enc"]})
        cols = [{"name": "Epoch", "type": "i8", "hex": hx(struct.pack("<%dq" % len(epochs), *epochs))}]
        for nm, t, vv in zip(names, types, coldata):
            cols.append({"nhex": hx(nm), "type": drv_t(t), "hex": hx(b"".join(vv))})
        if rt == 1:
            cols.append({"name": "Nanoseconds", "type": "i4", "hex": "00000000" * len(epochs)})
        keypath = "%s/%d.bin" % (key, year)
        if len(keypath) != b["p"]:
            raise Undecided("concretisation produced a path of %d bytes for class %d" % (len(keypath), b["p"]))
        buckets.append({"key": key, "create": create, "cols": cols, "times": [ci["time"] for ci in cmdinfo], "keypath": keypath,
                        "cmds": cmdinfo, "shapes": [[hx(b"Epoch"), 3]] + [[hx(nm), ENUM[t][3]] for nm, t in zip(names, types)],
                        "names": [b"Epoch"] + names, "codes": [3] + [ENUM[t][3] for t in types], "cls": b})
    x = {"root": root, "var": rt == 1, "buckets": [{k: b[k] for k in ("key", "create", "cols", "times")} for b in buckets]}
    return {"id": cid, "ops": [{"op": "c28_tg", "x": x}], "case": case, "buckets": buckets}


def cmd_bytes(enc, keypath, off, idx, payload, names):
    """one command's bytes, assembled field by field at the offsets TLC predicts"""
    b = bytearray(enc["len"])
    o = enc["o"]
    used = 0

    def put(at, data):
        nonlocal used
        b[at:at + len(data)] = data
        used += len(data)

    put(o["rt"], struct.pack("<b", enc["rt"]))
    put(o["plen"], struct.pack("<h", enc["spl"]))
    if len(keypath) != enc["P"] or len(payload) != enc["D"]:
        raise Undecided("concretisation does not fit the model: path %d/%d payload %d/%d" % (len(keypath), enc["P"], len(payload), enc["D"]))
    put(o["path"], keypath.encode())
    put(o["dlen"], struct.pack("<i", enc["D"]))
    put(o["vrl"], struct.pack("<i", enc["vrl"]))
    put(o["off"], struct.pack("<q", off))
    put(o["idx"], struct.pack("<q", idx))
    put(o["data"], payload)
    if enc["sc"] != 0:
        put(o["dsv"], bytes([enc["sc"]]))
        k = 0
        for run in enc["shapes"]:
            pos = run["off"]
            for _ in range(run["c"]):
                put(pos, bytes([run["sl"]]) + names[k] + bytes([run["t"]]))
                if len(names[k]) != run["l"]:
                    raise Undecided("name %d has %d bytes, model says %d" % (k, len(names[k]), run["l"]))
                pos += 2 + run["l"]
                k += 1
    if used != enc["len"] or len(b) != enc["len"]:
        raise Undecided("model layout of a command does not tile its %d bytes (%d placed)" % (enc["len"], used))
    return bytes(b)


def run_c28(res, tier, rng, binary):
    v = Verdicts(res, "C28")
    quick = tier == "quick"
    root = os.path.join(vlib.scratch(), "root_C28")
    year_now = time.gmtime().tm_year
    PATHS = [1, 22, 255, 300, 526, 40000]
    NAMES = [1, 7, 16, 31, 32]              # DSVToBytes / DSVFromBytes alone: only names a bucket can have (<= 32 bytes since fix d4ba77a)
    NAMES_TG = [1, 7, 16, 31, 32, 300]      # through Create + WriteCSM: names longer than the header's 32 bytes are rejected at creation
    COUNTS = [1, 2, 255, 256]
    # ---- DSVToBytes / DSVFromBytes alone, all classes x all element types
    dsv_cases, _ = tlc(res, "C28", "DSV", "Codec_c28_dsv.cfg", ["DSV_RoundTrip", "DSV_DevExplains", "EmitDSV"],
                       Types=ALLT, BigTypes=ALLT if not quick else sorted(rng.sample(ALLT, 3)), PathLens=[22], NameLens=NAMES, ColCounts=COUNTS)
    # ---- transaction groups
    inv = ["C28_RoundTrip", "C28_DevExplains", "C28_PathFits", "C28_Int32Fits", "C28_Contiguous", "Emit28"]
    if quick:
        t2 = sorted(rng.sample(ALLT, 2))
        big = [rng.choice(ALLT)]
        # the two-bucket groups use two element types of EQUAL width: buckets whose columns agree in name and width and differ
        # only in type must still be told apart in the encoded schema
        twin = list(rng.choice(SAME_WIDTH))
        runs = [("Codec_c28_a.cfg", dict(Types=sorted(set(t2) | set(big)), BigTypes=big, PathLens=PATHS, NameLens=NAMES_TG, ColCounts=COUNTS, MaxCmds=1)),
                ("Codec_c28_b.cfg", dict(Types=twin, BigTypes=twin[:1], PathLens=[rng.choice([22, 255, 300, 526])], NameLens=[1, 32, 300], ColCounts=[2, 256],
                                         MaxCmds=3, TwoBuckets=True, BigPayload=0))]
    else:
        big = sorted(rng.sample(ALLT, 3))
        one = rng.choice(ALLT)
        twin = list(rng.choice(SAME_WIDTH))
        runs = [("Codec_c28_a.cfg", dict(Types=ALLT, BigTypes=big, PathLens=PATHS, NameLens=NAMES_TG, ColCounts=COUNTS, MaxCmds=1)),
                ("Codec_c28_b.cfg", dict(Types=sorted(set(rng.sample(ALLT, 2)) | set(twin) | {big[0]}), BigTypes=big[:1], PathLens=[22, 255, 526], NameLens=NAMES_TG,
                                         ColCounts=COUNTS, MaxCmds=3, TwoBuckets=True, BigPayload=0)),
                ("Codec_c28_c.cfg", dict(Types=[one], BigTypes=[one], PathLens=[22, 300], NameLens=[31, 32, 300], ColCounts=[1, 2], MaxCmds=3,
                                         TwoBuckets=True, BigPayload=40000))]
    tg_cases = []
    ovf = None
    for name, kw in runs:
        cs, r = tlc(res, "C28", "C28", name, inv, **kw)
        ovf = ovf or (r["records"].get("OVF") or [None])[0]
        tg_cases += cs
    res.cov["overflowing_size_classes_found_by_tlc"] = ovf
    cases = []
    for case in dsv_cases:
        cases.append({"id": "d%d" % len(cases), "kind": "dsv", "case": case,
                      "ops": [{"op": "c28_dsv", "x": {"runs": [list(r) for r in case["runs"]]}}]})
    ndsv = len(cases)
    for case in tg_cases:
        c = c28_concretise(rng, case, "t%d" % len(cases), root, year_now)
        c["kind"] = "tg"
        cases.append(c)
    res.cov["cases_replayed"] = len(cases)
    res.cov["dsv_cases"] = ndsv
    stats = {"identical": 0, "known_deviation": 0, "write_rejected": 0, "groups_matching_predicted_bytes": 0, "commands_decoded": 0,
             "groups_with_two_buckets": 0, "payload_bytes_max": 0}

    def handle_dsv(c, o, replay):
        case = c["case"]
        enc = o["enc"]
        inn = o["in"]
        names = [bytes.fromhex(s["nhex"]) for s in inn]
        desc = "data shapes %s" % case["runs"]
        if enc.get("panic") or enc.get("err"):
            v.violation("DSVToBytes failed on %s: %s" % (desc, enc.get("panic") or enc.get("err")), replay)
            return
        want = bytearray(case["bytes"])
        if case["bytes"]:
            want[0] = case["sc"]
            k = 0
            for run in case["shapes"]:
                pos = run["off"]
                for _ in range(run["c"]):
                    want[pos:pos + 2 + run["l"]] = bytes([run["sl"]]) + names[k] + bytes([run["t"]])
                    pos += 2 + run["l"]
                    k += 1
        layout_ok = enc["hex"] == hx(want)
        orig = [[s["nhex"], s["code"]] for s in inn]
        bad = deviated = False
        for which in ("dec", "dec_tail"):
            d = o[which]
            real = "panic: " + d["panic"] if d.get("panic") else [[s["nhex"], s["code"]] for s in d["shapes"]]
            if real == orig and d.get("bytes") == len(enc["hex"]) // 2:
                continue
            if case["hit"]:
                deviated = True
                v.deviation(case["hit"], {"shapes": case["runs"], "got": str(real)[:200]}, replay, desc)
                continue
            bad = True
            v.violation("DSVFromBytes(DSVToBytes(x)) for %s gives %s (%s bytes consumed of %d); the original shapes are %s" % (
                desc, str(real)[:400], d.get("bytes"), len(enc["hex"]) // 2, str(orig)[:400]), replay)
        stats["known_deviation"] += deviated and not bad
        stats["identical"] += not bad and not deviated
        if not bad:
            if not layout_ok:
                v.note_drift("DSV bytes of %s are %s, model lays them out as %s" % (desc, enc["hex"][:200], hx(want)[:200]))

    def handle(c, obs, died):
        case = c["case"]
        replay = {"check": "codec", "prop": "C28", "ops": c["ops"], "model_case": case, "seed": vlib.seed()}
        if died is not None:
            v.violation("process died (%s) writing / decoding a transaction group: %s" % (died["died"], died["stderr"][-400:]), replay)
            return
        o = obs[0]
        if o.get("driver_error") or (o.get("panic") and "write" not in o and "enc" not in o):
            raise Undecided("driver error in %s: %s" % (c["id"], str(o)[:600]))
        res.cov["traces_validated_against_impl"] += 1
        if c["kind"] == "dsv":
            return handle_dsv(c, o, replay)
        bks = c["buckets"]
        desc = "group rt=%d %s" % (case["rt"], [(b["cls"]["p"], b["cls"]["n"], b["cls"]["nl"], b["cls"]["pos"], b["cls"]["t"], [ci["enc"]["rows"] for ci in b["cmds"]]) for b in bks])
        if o.get("create_err"):
            raise Undecided("create failed for %s: %s" % (desc, o["create_err"]))
        w = o["write"]
        if w.get("panic"):
            v.violation("writing %s panicked: %s" % (desc, w["panic"]), replay)
            return
        if w.get("err"):
            stats["write_rejected"] += 1          # not an accepted write: nothing to decode
            res.cov.setdefault("write_rejected_examples", [])
            if len(res.cov["write_rejected_examples"]) < 3:
                res.cov["write_rejected_examples"].append({"group": desc, "err": str(w["err"])[:200]})
            return
        if len(o["tgs"]) != 1:
            raise Undecided("%d transaction groups captured for one WriteCSM (%s)" % (len(o["tgs"]), desc))
        if o.get("wal_note") != "ok":
            raise Undecided("cannot locate the group in the WAL file: %s" % o.get("wal_note"))
        tg = o["tgs"][0]
        refs = {r["key"]: r for r in o["refs"]}
        for b in bks:
            r = refs.get(b["key"])
            if r is None or r.get("err"):
                raise Undecided("no reference index for bucket %s: %s" % (b["key"], r))
        if len(bks) == 2:
            stats["groups_with_two_buckets"] += 1
        root_real = o["root"]
        # the original commands, per bucket in row order; buckets in either order (map iteration)
        def originals(order):
            out = []
            for bi in order:
                b = bks[bi]
                r = refs[b["key"]]
                for k, ci in enumerate(b["cmds"]):
                    out.append({"rectype": case["rt"], "path": os.path.join(root_real, b["keypath"]), "offset": r["offset"][k], "index": r["index"][k],
                                "payload": hx(ci["payload"]), "shapes": b["shapes"], "_b": b, "_ci": ci})
            return out
        orders = list(itertools.permutations(range(len(bks))))
        real_bytes = bytes.fromhex(tg["hex"])
        stats["payload_bytes_max"] = max(stats["payload_bytes_max"], max(len(ci["payload"]) for b in bks for ci in b["cmds"]))
        matched = None
        ncmds = sum(len(b["cmds"]) for b in bks)
        for order in orders:
            want = real_bytes[:8] + struct.pack("<q", ncmds)
            for oc in originals(order):
                want += cmd_bytes(oc["_ci"]["enc"], oc["_b"]["keypath"], oc["offset"], oc["index"], oc["_ci"]["payload"], oc["_b"]["names"])
            if want == real_bytes:
                matched = order
                break
        if matched is not None:
            stats["groups_matching_predicted_bytes"] += 1

        def decoded(p):
            if p.get("panic"):
                return "panic: " + p["panic"]
            return [{"rectype": s["rectype"], "path": s["path"], "offset": s.get("offset"), "index": s.get("index"), "payload": s.get("payload"),
                     "shapes": [[x["nhex"], x["code"]] for x in s["shapes"]]} for s in p["sets"]]

        def strip(cmds):
            return [{k: x for k, x in c_.items() if not k.startswith("_")} for c_ in cmds]

        copies = [("the bytes handed to replication", tg["parse"])]
        if tg.get("wal_same") is False:
            copies.append(("the bytes in the WAL file", tg["wal_parse"]))
        bad = deviated = False
        for what, p in copies:
            real = decoded(p)
            cands = [strip(originals(order)) for order in ([matched] if matched is not None else orders)]
            if any(real == cand for cand in cands):
                stats["commands_decoded"] += ncmds
                continue
            if case["hit"]:
                # the commands in front of the first command with an overflowing prefix must still be right
                ok_prefix = True
                if isinstance(real, list):
                    ok_prefix = False
                    for cand in [originals(order) for order in ([matched] if matched is not None else orders)]:
                        first_bad = next((i for i, oc in enumerate(cand) if oc["_b"]["cls"]["hit"]), len(cand))
                        if real[:first_bad] == strip(cand[:first_bad]):
                            ok_prefix = True
                if ok_prefix:
                    deviated = True
                    v.deviation(case["hit"], {"group": desc, "decoded": (real if isinstance(real, str) else "wrong commands")[:200]}, replay, desc)
                    continue
            bad = True
            v.violation("decoding %s of %s gives %s; the written commands are %s" % (what, desc, str(real)[:700], str(cands[0])[:700]), replay)
        stats["known_deviation"] += deviated and not bad
        stats["identical"] += not bad and not deviated
        if not bad:
            if matched is None:
                v.note_drift("C28 group bytes of %s differ from the model's layout (len %d, model total %d)" % (desc, len(real_bytes), case["total"]))
        res.sample({"group": desc, "total_bytes": case["total"], "layout_of_first_command": {k: x for k, x in case["cmds"][0]["enc"].items() if k != "shapes"}}, limit=3)

    try:
        run_chunked(binary, cases, 400, handle, tag="c28", timeout=6000)
    finally:
        for d in os.listdir(os.path.dirname(root)):
            if d.startswith("root_C28"):
                shutil.rmtree(os.path.join(os.path.dirname(root), d), ignore_errors=True)
    res.cov.update(stats)
    if stats["write_rejected"] > (2 * len(cases)) // 5:
        raise Undecided("%d of %d writes were rejected: the concretisation does not produce acceptable writes" % (stats["write_rejected"], len(cases)))
    res.assumptions += ["index and offset of a written command are taken from io.TimeToIndex / io.IndexToOffset on the bucket as catalogued",
                        "rows of variable-length commands sit exactly at the interval start (interval ticks 0)",
                        "time zone UTC; buckets use timeframe 1D (15Min for the longest path class)"]
    return v.finish()


def run(prop, tier):
    res = Result(prop, tier)
    rng = random.Random(vlib.seed() * 7919 + int(prop[1:]))
    binary = vlib.build_harness(cmd="mv_codec")
    return {"C27": run_c27, "C28": run_c28, "C29": run_c29}[prop](res, tier, rng, binary)


def replay(rp):
    """re-run one recorded case and print what the real code returns"""
    binary = vlib.build_harness(cmd="mv_codec")
    r = rp["replay"]
    ops = r["ops"]
    if r.get("prop") == "C28":
        for op in ops:
            if op["op"] == "c28_tg":
                op["x"]["root"] = os.path.join(vlib.scratch(), "root_replay")
    obs = vlib.run_cases(binary, [{"id": "replay", "ops": ops}])
    print(rp["description"])
    print(json.dumps(obs, indent=1)[:6000])
    return 1
