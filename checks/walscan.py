"""C06: WAL replay tolerates arbitrary damage to the log.

WalScan.tla models the first pass of replay over a cell-level WAL with one damage operator applied; TLC enumerates
every (base file shape x damage) and checks termination / no damaged TG applied / every intact preceding TG applied.
Every abstract case is concretised to bytes of a REAL WAL file (recorded from the real server), several byte
realisations per class, and independently every truncation offset and (sampled / all) single-bit flips are applied;
the real start-up replay runs on each in a child process."""
PROPS = ["C06"]
READY = True
CLAIMS = {
 "C06": dict(technique="TLC model checking of WalScan.tla (cell-level scanner with nondeterministic garbage resynchronisation, one damage operator per file) + every abstract damaged file concretised to bytes of a real recorded WAL + exhaustive truncation offsets and single-bit flips, replayed by the real start-up path in a child process",
             text="WalScan.tla models the first pass of replay (what stops the scan, what is skipped, continuation at the current cursor, checkpoint pruning, duplicate detection); TLC enumerates every base-file shape x {truncate at/inside every cell, flip in every cell, inserted garbage before every cell, duplicated record, swapped records} and checks termination (strictly increasing cursor), that no damaged transaction is registered and that every intact committed transaction preceding the damage is. Each case is realised with several byte patterns on a WAL file recorded from the real server (whose cell sequence must equal the model's base file), and independently every truncation offset and sampled (thorough: all) single-bit flips are applied; the real start-up replay must not panic, die or hang, must not write data of a damaged transaction and must apply every intact committed transaction that precedes the damage.",
             note="One damage per file; base files of 2-3 transactions (+ optional checkpoint records and a partial tail); 'garbage never passes MD5' is assumed in the model and checked on the code by the flips."),
}

import json, os, random, shutil, struct
import vlib, walrec, walabs
import walcrash as W
from vlib import Result, Undecided

SHAPES = [(2, [], False), (3, [1], True), (3, [2], False), (3, [1, 3], True)]


def shape_script(ntg, ckpt, partial, rng):
    """a client script realising the base-file shape: request i = TG i, checkpoint after the TGs in ckpt"""
    files_f, files_v = ["F1", "F2"], ["V1", "V2"]
    script = []
    n = ntg + (1 if partial else 0)
    for i in range(1, n + 1):
        var = rng.random() < 0.5
        fl = files_v if var else files_f
        cmds = []
        for k in range(rng.choice([1, 2, 3])):
            cmds.append({"f": rng.choice(fl), "s": rng.choice([1, 2]), "recs": [i * 10 + k + 1]})
        script.append({"a": "issue", "cmds": cmds})
        if i in ckpt:
            script.append({"a": "ckpt"})
    return script


class Base:
    """a real WAL file with its cell layout + the image it lives in (primary data of un-checkpointed TGs dropped)"""

    def __init__(self, binary, rng, shape, tag):
        self.ntg, self.ckpt, self.partial = shape
        self.script = shape_script(self.ntg, self.ckpt, self.partial, rng)
        self.conc = W.Conc(rng)
        events, meta, obs = W.record_script(binary, self.script, self.conc, tag)
        ab = walabs.Abstractor(self.conc, meta).run(events)
        self.events, self.meta, self.ab = events, meta, ab
        walpath = [e["path"] for e in events if e["k"] == "creat" and e["path"].startswith("WALFile")][0]
        self.walpath = walpath
        # crash point: end of the run, or right after the LEN cell of the last (partial) TG
        j = len(events)
        if self.partial:
            lens = [a["src"] for a in ab if a["e"] == "wal" and a["frag"]["k"] == "LEN"]
            j = lens[-1] + 1
        self.j = j
        # durable image: creation metadata kept, primary data written after the last sync() lost, WAL kept
        last_sync = max([i for i, e in enumerate(events[:j]) if e["k"] == "sync"], default=-1)
        dropped = set()
        for i, e in enumerate(events[:j]):
            if e["k"] == "write" and i > last_sync and e["path"] != walpath and not W.is_creation_metadata(e):
                dropped.add(i)
        self.image = W.build_power_image(events, j, dict(dropped=dropped, torn={}))
        # cell layout of the WAL
        self.cells = []
        for i, e in enumerate(events[:j]):
            if e["k"] == "write" and e["path"] == walpath:
                n = len(e["data"])
                d = e["data"]
                if e["off"] == 0 and n == 11 and d[0] == 2:
                    if self.cells:
                        continue
                    kind = "ST"
                elif n == 11 and d[0] == 1:
                    kind = "TI"
                elif n == 1:
                    kind = "MID"
                elif n == 8 and self.cells and self.cells[-1]["k"] == "MID":
                    kind = "LEN"
                elif n == 16 and self.cells and self.cells[-1]["k"] == "BODY":
                    kind = "CK"
                else:
                    kind = "BODY"
                self.cells.append({"k": kind, "off": e["off"], "len": n})
        self.wal = self.image.files[walpath].read(0, self.image.files[walpath].size)
        # TG number of each cell (by order of MID cells)
        t = 0
        for c in self.cells:
            if c["k"] == "MID":
                t += 1
            c["tg"] = t if c["k"] in ("MID", "LEN", "BODY", "CK") else 0
        # which request wrote which records
        self.exp = W.Expect(self.script, self.conc)

    def tg_records(self, t):
        out = []
        for c in self.script_reqs()[t - 1]:
            for r in c["recs"]:
                out.append((c["f"], c["s"], r))
        return out

    def script_reqs(self):
        return [a["cmds"] for a in self.script if a["a"] == "issue"]

    def checkpointed(self, t):
        return any(c >= t for c in self.ckpt)

    def with_wal(self, newbytes):
        im = self.image.copy()
        sf = walrec.SparseFile()
        sf.write(0, newbytes)
        if not newbytes:
            sf.size = 0
        im.files[self.walpath] = sf
        return im


def applied_tgs(base, content):
    """which TGs (by number) have left data in the primary files after the restart; fixed slots count only when
    the slot holds that TG's record (a later TG may have overwritten it)"""
    out = set()
    for t in range(1, len(base.script_reqs()) + 1):
        for f, s, r in base.tg_records(t):
            if r in content.get((f, s), []):
                out.add(t)
    return out


def fully_applied(base, content, t):
    """every record of TG t is present (fixed: unless a later applied TG overwrote the slot)"""
    reqs = base.script_reqs()
    for c in reqs[t - 1]:
        f, s = c["f"], c["s"]
        got = content.get((f, s), [])
        if f.startswith("V"):
            if any(r not in got for r in c["recs"]):
                return False
        else:
            last = base.exp.fixed_last(t, f, s)
            later = [m for m in range(t + 1, len(reqs) + 1) if base.exp.fixed_last(m, f, s) is not None]
            if (not got or got[0] != last) and not (got and any(got[0] == base.exp.fixed_last(m, f, s) for m in later)):
                return False
    return True


def concretise(base, dmg, rng):
    """abstract damage -> list of (label, new wal bytes)"""
    cells, wal = base.cells, base.wal
    out = []
    op = dmg["op"]
    if op == "none":
        return [("none", wal)]
    c = dmg["at"] - 1      # TLA+ is 1-based
    if op == "truncate":
        off = cells[c]["off"] if c < len(cells) else len(wal)
        if dmg["mid"]:
            ln = cells[c]["len"]
            if ln < 2:
                return []
            for cut in sorted({1, ln // 2, ln - 1}):
                out.append(("truncate@%d" % (off + cut), wal[:off + cut]))
        else:
            out.append(("truncate@%d" % off, wal[:off]))
        return out
    if op == "flip":
        off, ln = cells[c]["off"], cells[c]["len"]
        poss = sorted({0, ln - 1, ln // 2, rng.randrange(ln)})
        for p in poss:
            bit = rng.randrange(8)
            b = bytearray(wal)
            b[off + p] ^= 1 << bit
            out.append(("flip@%d.%d" % (off + p, bit), bytes(b)))
        return out
    if op == "insert":
        off = cells[c]["off"] if c < len(cells) else len(wal)
        junks = [bytes(7), bytes(rng.randrange(256) for _ in range(13)), b"\x01" + bytes(10), b"\x00" + struct.pack("<q", 5) + b"abcde" + bytes(16),
                 bytes([2]) + bytes(10)]
        for k, jk in enumerate(junks):
            out.append(("insert%d@%d" % (k, off), wal[:off] + jk + wal[off:]))
        return out
    if op == "dup":
        a, b = cells[c]["off"], cells[c + 3]["off"] + cells[c + 3]["len"]
        out.append(("dup@%d" % a, wal[:b] + wal[a:b] + wal[b:]))
        return out
    if op == "swap":
        e = [i for i in range(c + 4, len(cells) - 3) if cells[i]["k"] == "MID" and cells[i + 3]["k"] == "CK"][0]
        a1, b1 = cells[c]["off"], cells[c + 3]["off"] + cells[c + 3]["len"]
        a2, b2 = cells[e]["off"], cells[e + 3]["off"] + cells[e + 3]["len"]
        out.append(("swap@%d/%d" % (a1, a2), wal[:a1] + wal[a2:b2] + wal[b1:a2] + wal[a1:b1] + wal[b2:]))
        return out
    return out


def byte_level(base, rng, nflips):
    """every truncation offset, sampled (or all) single-bit flips, with the expectation computed from the cell layout"""
    cells, wal = base.cells, base.wal
    n = len(wal)

    def cell_at(off):
        for c in cells:
            if c["off"] <= off < c["off"] + c["len"]:
                return c
        return None

    ntg_complete = base.ntg
    out = []
    for cut in range(0, n):
        mustnot = set()
        must = set()
        for t in range(1, ntg_complete + 1):
            end = max(c["off"] + c["len"] for c in cells if c["tg"] == t)
            if end <= cut:
                # intact and complete before the cut; pruned if an intact checkpoint record also survives
                ck_ok = any(cc["k"] == "TI" and cc["off"] + cc["len"] <= cut for cc in cells) and base.checkpointed(t)
                if not base.checkpointed(t):
                    must.add(t)
            else:
                mustnot.add(t)
        if base.partial:
            mustnot.add(ntg_complete + 1)
        out.append(("truncate@%d" % cut, wal[:cut], must, mustnot))
    # garbage AFTER the last record: every message id the scanner knows, alone at the end of the file and followed by a
    # few bytes (an incomplete message)
    for mid in (0, 1, 2, 3, 255):
        for tail in (b"", b"\x00\x00\x00", b"\x01" * 9):
            mustnot, must = set(), set()
            for t in range(1, ntg_complete + 1):
                if not base.checkpointed(t):
                    must.add(t)
            if base.partial:
                continue      # the file already ends inside a record
            out.append(("trailing:%02x+%d#" % (mid, len(tail)), wal + bytes([mid]) + tail, must, mustnot))
    if not base.partial:
        # garbage that happens to look like a CHECKPOINT/COMMITCOMPLETE record of a transaction group this file does not hold
        # (transaction-info records carry no checksum): the intact committed groups before it must still be applied
        import struct as _st
        must = {t for t in range(1, ntg_complete + 1) if not base.checkpointed(t)}
        for fid in (2 ** 63 - 1, 1 << 40):
            out.append(("trailing:forged-checkpoint-of-unknown-group-%d#" % fid, wal + b"\x01" + _st.pack("<q", fid) + b"\x01\x02", must, set()))
    allbits = [(o, b) for o in range(n) for b in range(8)]
    if nflips and nflips < len(allbits):
        # always: every bit of the bytes that steer the scanner (message ids, destination and status of transaction-info
        # records, lowest and highest byte of every length field); the rest sampled
        steer = set()
        for c in cells:
            if c["k"] in ("MID", "ST"):
                steer.add(c["off"])
            elif c["k"] == "TI":
                steer |= {c["off"], c["off"] + 9, c["off"] + 10}
            elif c["k"] == "LEN":
                steer |= {c["off"], c["off"] + c["len"] - 1}
        must_bits = [(o, b) for o in sorted(steer) if o < n for b in range(8)]
        always = set(must_bits)
        rest = [x for x in allbits if x[0] not in steer]
        allbits = must_bits + rng.sample(rest, min(len(rest), nflips))
    if not (nflips and nflips < n * 8):
        always = set()
    for o, b in allbits:
        c = cell_at(o)
        bb = bytearray(wal)
        bb[o] ^= 1 << b
        mustnot, must = set(), set()
        hit = c["tg"] if c else 0
        # a flip inside a transaction-info record (PREPARING before a group, COMMITCOMPLETE after it) damages the record of
        # THAT group's commit: the group may or may not be applied, nothing is demanded of it
        excused = set()
        if c is not None and c["k"] == "TI":
            ci = cells.index(c)
            if ci > 0 and cells[ci - 1]["k"] == "CK":
                excused.add(cells[ci - 1]["tg"])
            if ci + 1 < len(cells) and cells[ci + 1]["k"] == "MID":
                excused.add(cells[ci + 1]["tg"])
        for t in range(1, ntg_complete + 1):
            if t in excused:
                continue
            if t == hit:
                mustnot.add(t)
            else:
                end = max(cc["off"] + cc["len"] for cc in cells if cc["tg"] == t)
                if end <= o and not base.checkpointed(t):
                    must.add(t)
        if base.partial:
            mustnot.add(ntg_complete + 1)
        tag = ""
        if c is not None and c["k"] == "TI" and o == c["off"] + 9 and b == 0 and (wal[o] ^ (1 << b)) == 1 and wal[c["off"] + 10] == 2:
            tag = "!commit-becomes-checkpoint"     # destination WAL (0) -> CHECKPOINT (1) of a COMMITCOMPLETE record
        out.append(("flip@%d.%d%s%s" % (o, b, tag, "#" if (o, b) in always else ""), bytes(bb), must, mustnot))
    return out


def run(prop, tier):
    res = Result(prop, tier)
    rng = random.Random(vlib.seed() * 86028121 + 6)
    binary = vlib.build_harness()
    quick = tier == "quick"
    known = {k["deviation"]: k for k in vlib.known_findings(prop)}
    shapes = SHAPES[:2] if quick else SHAPES
    total = 0
    for shi, shape in enumerate(shapes):
        ntg, ckpt, partial = shape
        consts = dict(NTG=ntg, Ckpt="{%s}" % ",".join(map(str, ckpt)), Partial="TRUE" if partial else "FALSE", Deviations="{}")
        r = vlib.run_tlc("WalScan", "ws_pure.cfg", cfg_text=vlib.cfg_text(consts, invariants=["Terminates", "NoDamagedApplied", "PrecedingApplied", "AbortOnlyOnDup", "Emit"]),
                         workers=1, timeout=900)
        vlib.tlc_ok(r, "WalScan pure")
        res.tlc(r, "WalScan/pure/%s" % (shape,))
        if r["violated"]:
            raise Undecided("MODEL-DRIFT: WalScan.tla violates %s" % r["violated"])
        cases = r["records"].get("CASE", [])
        r2 = vlib.run_tlc("WalScan", "ws_dev.cfg", cfg_text=vlib.cfg_text(dict(consts, Deviations='{"DupAbortsReplay"}'), invariants=["Terminates", "NoDamagedApplied"]),
                          workers=1, timeout=900)
        res.tlc(r2, "WalScan/known/%s" % (shape,))
        if r2["violated"]:
            raise Undecided("MODEL-DRIFT: WalScan.tla with the known deviation violates %s" % r2["violated"])
        base = Base(binary, rng, shape, "c06_%d" % shi)
        kinds = [c["k"] for c in base.cells]
        if cases and cases[0]["cells"] != kinds:
            raise Undecided("SPEC-DRIFT: the real WAL's cell sequence %s differs from the model's base file %s" % (kinds, cases[0]["cells"]))
        muts = []
        for cs in cases:
            for label, data in concretise(base, cs["dmg"], rng):
                muts.append((cs["dmg"]["op"] + ":" + label, data, set(cs["must"]), set(cs["mustnot"])))
        for label, data, must, mustnot in byte_level(base, rng, 120 if quick else 0):
            muts.append(("byte:" + label, data, must, mustnot))
        if quick and len(muts) > 330:
            head = [m for m in muts if not m[0].startswith("byte:") or m[0].endswith("#")]     # '#': always replayed
            tail = [m for m in muts if m[0].startswith("byte:") and not m[0].endswith("#")]
            rng.shuffle(tail)
            muts = head + tail[:max(0, 330 - len(head))]
        bdir = os.path.join(vlib.scratch(), "c06img_%d" % shi)
        dcases = []
        keys = sorted(base.conc.buckets())
        for mi, (label, data, must, mustnot) in enumerate(muts):
            root = os.path.join(bdir, "m%d" % mi)
            base.with_wal(data).materialise(root)
            ops = [{"op": "start", "root": root}] + [{"op": "query", "dest": k} for k in keys] + [{"op": "disk"}]
            dcases.append({"id": mi, "ops": ops})
        try:
            obs = vlib.run_cases(binary, dcases, timeout=(900 if quick else 7200), tag="c06")
        except Undecided as ex:
            if "hung" in str(ex) or "timeout" in str(ex):
                res.violation("start-up replay of a damaged WAL did not terminate: %s" % ex, {"check": "walscan", "shape": shape, "seed": vlib.seed()})
                shutil.rmtree(bdir, ignore_errors=True)
                continue
            raise
        shutil.rmtree(bdir, ignore_errors=True)
        for mi, (label, data, must, mustnot) in enumerate(muts):
            total += 1
            o = obs.get(json.dumps(mi))
            replay = {"check": "walscan", "shape": shape, "script": base.script, "conc": base.conc.describe(), "mutation": label,
                      "wal_hex": data.hex() if len(data) < 4000 else None, "seed": vlib.seed()}
            where = "base file %s, damage %s" % (shape, label)
            if o is None:
                raise Undecided("no observation for a damaged WAL")
            if isinstance(o, dict) and "died" in o:
                res.violation("%s: the server died during start-up: %s" % (where, (o.get("stdout") or "")[-300:]), replay)
                continue
            if o[0].get("panic"):
                res.violation("%s: start-up replay panicked: %s" % (where, str(o[0]["panic"])[:300]), replay)
                continue
            if o[0].get("err"):
                res.violation("%s: start-up refused: %s" % (where, str(o[0]["err"])[:300]), replay)
                continue
            content, errors, strays = W.content_of(list(zip(keys, o[1:1 + len(keys)])), base.conc)
            if strays:
                res.violation("%s: data that no transaction contains was written: %s" % (where, strays[:4]), replay)
                continue
            bad_applied = [t for t in sorted(mustnot) if t <= len(base.script_reqs()) and t in applied_tgs(base, content)
                           and not base_has(base, t)]
            if bad_applied:
                res.violation("%s: data of damaged / incomplete transaction(s) %s was applied: %s" % (where, bad_applied, W.norm(content)), replay)
                continue
            missing = [t for t in sorted(must) if not fully_applied(base, content, t)]
            if missing:
                moved = [p for p in o[-1]["files"] if p.endswith(".tmp")]
                if label.startswith("dup:") and moved and "DupAbortsReplay" in known:
                    res.known_finding(known["DupAbortsReplay"], {"where": where, "missing": missing, "moved_aside": moved})
                    continue
                if "!commit-becomes-checkpoint" in label and "CommitBecomesCheckpoint" in known:
                    res.known_finding(known["CommitBecomesCheckpoint"], {"where": where, "missing": missing})
                    continue
                res.violation("%s: intact committed transaction(s) %s preceding the damage were not applied: recovered %s" % (
                    where, missing, W.norm(content)), replay)
        res.cov["traces_validated_against_impl"] += 1
        res.sample({"shape": shape, "cells": kinds, "script": base.script, "mutations": len(muts), "wal_bytes": len(base.wal)}, limit=4)
    res.cov["damaged_wal_files_replayed_by_real_code"] = total
    res.assumptions += ["one damage per file; the primary data of transactions not covered by a checkpoint is removed from the image so that "
                        "'applied' is observable; garbage never passes the MD5 check (model assumption)"]
    return res.finish()


def base_has(base, t):
    """the TG's data is in the image already (it was checkpointed before the crash), so seeing it proves nothing"""
    return base.checkpointed(t)
