"""C34: WAL files are replayed once and never discarded while needed - crash points DURING start-up replay.

First-level crash images (kill points of a recorded write history) are restarted with the real start-up path under
strace; every prefix of the system calls of that recovery is a second-level crash image, which is restarted again and
judged.  The model side is Wal.tla with MaxCrash = 2 (a crash during recovery, then recovery of the recovery)."""
PROPS = ["C34"]
READY = True
CLAIMS = {
 "C34": dict(technique="TLC model checking of Wal.tla with two crashes (the second during start-up replay) + second-level crash images: every sampled prefix of the system calls of a real, strace-recorded start-up replay is restarted again",
             text="Wal.tla is model-checked with MaxCrash = 2 so that crashes during recovery (status REPLAYINPROCESS, per-TG checkpoint records appended to the old WAL, REPLAYED written but file not yet deleted) and the recovery of the recovery are explored; on the real code first-level kill images of TLC-generated write histories are restarted under strace, every sampled prefix of that start-up's own system calls becomes a second-level crash image (leftover WAL files: empty, header only, with records, mid-replay, replayed-not-deleted), which is restarted twice more: the start must succeed, every acknowledged record must be present (no needed WAL discarded), the second restart must not change the data (nothing replayed twice), exactly one WAL file (the running instance's own) may remain and the running instance's own WAL must still exist.",
             note="Kill model at both levels; first-level points sampled; duplicates caused by KF-C02-1 and start-up failures of KF-C03-1 are judged by C02/C03."),
}

import json, os, random, shutil
import vlib, walrec, walabs
import walcrash as W
from vlib import Result, Undecided


def run(prop, tier):
    res = Result(prop, tier)
    rng = random.Random(vlib.seed() * 49979687 + 34)
    binary = vlib.build_harness()
    quick = tier == "quick"
    # E1: two crashes (the second one may hit recovery itself), pure design
    consts = dict(FixedFiles='{"F"}', VarFiles='{"V"}', Slots='{1,2}', MaxReq=2, MaxCmds=(1 if quick else 2), MaxCrash=2, MaxCkpt=1,
                  PowerLoss="FALSE", LoopMode="FALSE", MaxRot=0, Deviations="{}")
    r = vlib.run_tlc("Wal", "two_crashes.cfg", cfg_text=vlib.cfg_text(consts, invariants=["AckedSurvive", "NoPhantomNoDup", "StartupOk", "Readable", "CleanWhenCheckpointed"],
                                                                      view="View"), timeout=3000, heap="20g")
    vlib.tlc_ok(r, "two_crashes")
    res.tlc(r, "Wal/two_crashes")
    if r["violated"]:
        raise Undecided("MODEL-DRIFT: Wal.tla with two crashes violates %s" % r["violated"])
    scripts, r = W.gen_scripts(rng, 60 if quick else 300)
    res.tlc(r, "WalClient(simulate)")
    scripts, covered = W.pick_scripts(rng, scripts, 2 if quick else 12)
    res.cov["script_features_covered"] = sorted(covered)
    n1 = n2 = 0
    leftovers = {}
    for si, script in enumerate(scripts):
        conc = W.Conc(rng)
        events, meta, obs = W.record_script(binary, script, conc, "c34_%d" % si)
        exp = W.Expect(script, conc)
        pts = W.kill_points(events)
        # first-level crash points: where a WAL with committed transactions is left behind
        cand = [j for j in pts if W.marker_state(events, j, meta)[0]]
        # the end of the history (most transactions waiting in the WAL) always; the rest sampled
        def pending(j):
            """acknowledged requests not yet covered by a completed checkpoint at crash point j"""
            n = 0
            for e in events[:j]:
                if e["k"] != "mark":
                    continue
                parts = e["text"].split()
                if len(parts) < 5 or parts[2] != "done":
                    continue
                kind, _ = meta[int(parts[4])]
                if kind == "ckpt":
                    n = 0
                elif kind == "req" and parts[5] == "ok":
                    n += 1
            return n
        best = sorted(cand, key=lambda j: (-pending(j), -j))
        heavy = []
        for j in best:          # the latest point of each of the two largest backlogs
            if pending(j) >= 1 and pending(j) not in [pending(h) for h in heavy]:
                heavy.append(j)
            if len(heavy) == 2:
                break
        cand = sorted(set(rng.sample(cand, min(len(cand), 1 if quick else 10))) | {pts[-1]} | set(heavy))
        # each first-level point twice: process kill (page cache survives) and power loss that keeps the synced WAL but
        # loses the not yet synced record data of the primary files - then the leftover WAL is really needed
        firsts = []
        for j in cand:
            firsts.append((j, None))
            vol = W.volatile_writes(events, j)
            prim = set(i for p_, v in vol.items() if not p_.endswith(".walfile") for i in v if not W.is_creation_metadata(events[i]))
            if prim:
                firsts.append((j, dict(label="primaries-lost-wal-kept", dropped=prim, torn={})))
        for j, var in firsts:
            if W.empty_bins_of(events, j):
                continue      # KF-C03-2 territory
            issued, acked = W.marker_state(events, j, meta)
            if var is None:
                im = walrec.Image()
                for e in events[:j]:
                    if e["k"] in walrec.MUTATING:
                        im.apply(e)
            else:
                im = W.build_power_image(events, j, var)
            root1 = os.path.join(vlib.scratch(), "c34_l1")
            im.materialise(root1)
            n1 += 1
            # record the recovery itself
            ev2, obs2, rc2 = walrec.record(binary, [{"id": "r", "ops": [{"op": "start", "root": root1}]}], root1, tag="c34rec")
            shutil.rmtree(root1, ignore_errors=True)
            o2 = obs2.get(json.dumps("r"))
            if rc2 != 0 or not o2 or o2[0].get("panic") or o2[0].get("err"):
                continue      # start-up failure on a first-level image is C03's subject
            pts2 = W.kill_points(ev2)
            if len(pts2) > (14 if quick else 60):
                keep = set(rng.sample(pts2, 14 if quick else 60)) | {pts2[-1]}
                pts2 = [p for p in pts2 if p in keep]
            base = os.path.join(vlib.scratch(), "c34_l2")
            cases, info = [], {}
            im2 = im.copy()
            pos = 0
            for k in pts2:
                while pos < k:
                    if ev2[pos]["k"] in walrec.MUTATING:
                        im2.apply(ev2[pos])
                    pos += 1
                root2 = os.path.join(base, "q%d" % k)
                im2.materialise(root2)
                wals = sorted((p, f.size) for p, f in im2.files.items() if ".walfile" in p)
                for p, sz in wals:
                    cls = "empty" if sz == 0 else ("header-only" if sz <= 11 else "with-records")
                    if p.endswith(".tmp"):
                        cls = "moved-aside"
                    leftovers[cls] = leftovers.get(cls, 0) + 1
                cases.append(W.restart_case(k, root2, conc))
                info[json.dumps(k)] = wals
            robs = vlib.run_cases(binary, cases, timeout=1800, tag="c34restart")
            shutil.rmtree(base, ignore_errors=True)
            for k in pts2:
                n2 += 1
                o = robs.get(json.dumps(k))
                where = "script %d: %s after event %d of the write history (issued %s acked %s), then kill after event %d of the start-up replay" % (
                    si, "kill" if var is None else "power loss (primary record data since the last sync lost, WAL kept)", j, sorted(issued), sorted(acked), k)
                replay = {"check": "walrecov", "script": script, "conc": conc.describe(), "crash1": j, "crash1_variant": (None if var is None else {"label": var["label"], "dropped": sorted(var["dropped"])}), "crash2": k, "seed": vlib.seed(),
                          "wal_files_in_image": info[json.dumps(k)]}
                pt = dict(si=si, j=j, issued=issued, acked=acked, obs=o, pred=None, run=dict(script=script, conc=conc))
                jd = W.judge_point(pt)
                if jd["died"] or jd["start_fail"]:
                    f = str(jd["died"] or jd["start_fail"])
                    if "corrupt input" in f or "Error Taking Over" in f and False:
                        continue    # KF-C03-1 (in-place continuation), judged by C03
                    res.violation("%s: the next start failed: %s" % (where, f[:300]), replay)
                    continue
                if jd["bad"]["C01"]:
                    res.violation("%s: a WAL that was still needed was not replayed (or was discarded): %s" % (where, "; ".join(jd["bad"]["C01"][:4])), replay)
                    continue
                if jd["second"] and "failed" in jd["second"]:
                    res.violation("%s: %s" % (where, jd["second"]), replay)
                    continue
                if jd["second"] and "changed" in jd["second"]:
                    # a WAL replayed a second time by the second restart
                    res.violation("%s: the second restart replayed a WAL again: %s" % (where, jd["second"][:400]), replay)
                    continue
                s1, q1, d1, s2, q2, d2 = W.split_restart_obs(o, conc)
                own1 = s1.get("wal")
                live = [p for p in d2["files"] if p.endswith(".walfile")]
                if len(live) != 1:
                    res.violation("%s: after two clean restarts %d WAL files remain that a start would look at: %s" % (where, len(live), live), replay)
                if own1 not in d1["files"]:
                    res.violation("%s: the running instance's own WAL file %s is gone" % (where, own1), replay)
            res.cov["traces_validated_against_impl"] += 1
        res.sample({"script": script, "concretisation": conc.describe(), "first_level_points": sorted(cand)}, limit=2)
    res.cov["first_level_images"] = n1
    res.cov["second_level_images"] = n2
    res.cov["leftover_wal_files_seen_by_class"] = leftovers
    res.assumptions += ["process-kill model at both levels", "first-level points are sampled among the points with at least one issued request",
                        "duplicate variable records (KF-C02-1) and start-up failures of the in-place continuation (KF-C03-1) are judged by C02/C03, not here"]
    return res.finish()
