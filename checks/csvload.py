"""C33: CSV import loads every row or reports an error.  CsvLoad.tla cases replayed into the real loader
(loader.ReadMetadata / loader.CSVtoNumpyMulti / write client, driven exactly like session.load) and, for the chunk
size session.load hard-wires, into the real `connect` command loop (session.Client.Read -> \\load)."""
PROPS = ["C33"]
READY = True
CLAIMS = {
 "C33": dict(technique="TLA+ invariant (LoadedAllOrError on an implementation-shaped model of the chunked CSV read loop: reader cursor, FieldsPerRecord, chunk size, per-chunk conversion and write, 'reader error => end of file') checked by TLC; every TLC-enumerated file x chunk size x header option replayed into the real loader and the real `connect` \\load command",
             text="TLC enumerates every file of up to 5 rows (quick: 4 rows, without the inner-column class) over the row classes {ok, too few fields, too many fields, not CSV (bare quote), unparsable value at the first / an inner / the last column, unparsable timestamp} x chunk sizes {1,2,3,100} x header option and checks on the model of the loop as coded (pure variant) that a finished load has either reported an error or written every row. Each case is emitted with the property's answer and the answer of the unchanged tree (named deviation CsvErrorIsEOF), written by Python as a CSV file plus loader control file (8 time layouts incl. epoch timestamps, 12-hour clock, month names and fractional seconds, 6 time zones, 6 bucket schemas over all ten numeric column types, fixed and variable-length buckets, header renaming / case / blanks, CRLF, quoting, missing final newline) and loaded by the real code into a real instance; the reported error, every dataset handed to the write client and the queried bucket content are compared with the file.",
             note="Trusted: TLC, the Python concretisation (zoneinfo for local time -> epoch, per-type value pools), encoding/csv as modelled by its FieldsPerRecord rule. session.load itself is unexported and hard-wires chunkSize=1000000: the chunk sizes 1,2,3,100 go through a Go op that replicates ONLY its outer loop around the same exported functions; a sample of the cases with the largest chunk size also goes through the real session.Client.Read command loop (real load, real local API client) in a child process. A process crash (Go panic with stack trace) is counted as a reported failure, not as a silent drop. CSV layout is Epoch first (any other position makes every load fail with an error); string (U16) columns are not covered."),
}
import concurrent.futures, datetime, json, os, random, re, shutil, struct, subprocess, sys, time
import zoneinfo
import vlib
from vlib import Result, Undecided

CMD = "mv_csvload"
MAXCHUNK = 100
NC = 3

# ---------------------------------------------------------------------------------------------------------------
# concretisation tables
# ---------------------------------------------------------------------------------------------------------------
# timeframes are chosen for small year files (a query scans the whole year file); a fixed bucket stores a row at the
# start of its interval, so the stored epoch is compared after flooring to the timeframe (the exact parsed epoch is
# compared on the dataset handed to the write client)
SCHEMAS = [
    dict(kind="fixed", tf="1Min", tfsec=60, cols=[("Open", "f4"), ("High", "f4"), ("Low", "f4"), ("Close", "f4"), ("Volume", "i8")]),
    dict(kind="fixed", tf="1H", tfsec=3600, cols=[("Px", "f8"), ("Qty", "i4")]),
    dict(kind="fixed", tf="1D", tfsec=86400, cols=[("a", "i1"), ("b", "u2"), ("c", "u4"), ("d", "i2")]),
    dict(kind="variable", tf="1H", tfsec=3600, cols=[("Bid", "f4"), ("Ask", "f8"), ("Sz", "u8")]),
    dict(kind="fixed", tf="4H", tfsec=14400, cols=[("x", "u1"), ("y", "i8"), ("z", "f4")]),
    dict(kind="variable", tf="1D", tfsec=86400, cols=[("p", "i4"), ("q", "u4"), ("r", "f8")]),
]
ZONES = ["UTC", "America/New_York", "Asia/Tokyo", "Europe/Berlin", "Asia/Kolkata", "America/Sao_Paulo"]
MONTHS = ["Jan", "Feb", "Mar", "Apr", "May", "Jun", "Jul", "Aug", "Sep", "Oct", "Nov", "Dec"]


def _h12(dt):
    return "%d:%02d:%02d %s" % (dt.hour % 12 or 12, dt.minute, dt.second, "AM" if dt.hour < 12 else "PM")


# Go layout -> formatter(local datetime, nanoseconds, rng).  frac: the layout carries sub-second digits
TIMEFMTS = [
    dict(layout="2006-01-02 15:04:05", frac=False, f=lambda d, ns, r: d.strftime("%Y-%m-%d %H:%M:%S")),
    dict(layout="20060102 15:04:05", frac=False, f=lambda d, ns, r: d.strftime("%Y%m%d %H:%M:%S")),
    dict(layout="1/2/2006 3:04:05 PM", frac=False, f=lambda d, ns, r: "%d/%d/%d %s" % (d.month, d.day, d.year, _h12(d))),
    dict(layout="timestamp", frac=False, f=lambda d, ns, r: "%d" % int(d.timestamp())),
    dict(layout="2006-01-02T15:04:05", frac=False, f=lambda d, ns, r: d.strftime("%Y-%m-%dT%H:%M:%S")),
    dict(layout="02 Jan 2006 15:04:05", frac=False, f=lambda d, ns, r: "%02d %s %d %s" % (d.day, MONTHS[d.month - 1], d.year, d.strftime("%H:%M:%S"))),
    dict(layout="2006-01-02 15:04:05.000", frac=True, f=lambda d, ns, r: d.strftime("%Y-%m-%d %H:%M:%S") + ".%03d" % (ns // 10 ** 6)),
    dict(layout="timestamp", frac=True, f=lambda d, ns, r: "%d.%s" % (int(d.timestamp()), (("%09d" % ns).rstrip("0") or "0") if r.random() < 0.5 else "%09d" % ns)),
    dict(layout="20060102 15:04:05.000000", frac=True, f=lambda d, ns, r: d.strftime("%Y%m%d %H:%M:%S") + ".%06d" % (ns // 10 ** 3)),
]
FRACS = [125000000, 250000000, 500000000, 875000000, 1000000, 999000000, 62000000]   # whole milliseconds, never 0

GOOD = {
    "i1": ["0", "-128", "127", "5", "-7", "+3", "007"],
    "i2": ["0", "-32768", "32767", "12", "-300"],
    "i4": ["0", "-2147483648", "2147483647", "42", "-100000"],
    "i8": ["0", "-9223372036854775808", "9223372036854775807", "1234567890123", "-5"],
    "u1": ["0", "255", "7", "128"],
    "u2": ["0", "65535", "1000"],
    "u4": ["0", "4294967295", "70000"],
    "u8": ["0", "18446744073709551615", "9007199254740993"],
    "f4": ["0", "1.5", "-0.25", "3", "1e3", "2.5E-3", "3.4028235e38", "-1.17549435e-38", ".5", "100.125"],
    "f8": ["0", "1.5", "-0.1", "1e300", "1.7976931348623157e308", "5e-324", "123456.789", "-2.5e-7", "7."],
}
_BADINT = ["abc", "", "1.5", "12x", "9" * 30, "0x10", "1e3", "--4"]
BAD = {
    "i1": _BADINT + ["128", "-129"], "i2": _BADINT + ["32768", "-32769"], "i4": _BADINT + ["2147483648"],
    "i8": _BADINT + ["9223372036854775808"],
    "u1": _BADINT + ["256", "-1"], "u2": _BADINT + ["65536", "-1"], "u4": _BADINT + ["4294967296", "-1"],
    "u8": _BADINT + ["18446744073709551616", "-1"],
    "f4": ["abc", "", "1.2.3", "1e400", "--1", "1e39", "1.5x"],
    "f8": ["abc", "", "1.2.3", "1e400", "--1", "1.5x"],
}


def f32(x):
    return struct.unpack("<f", struct.pack("<f", x))[0]


def parse_good(typ, text):
    if typ[0] in "iu":
        return int(text)
    return f32(float(text)) if typ == "f4" else float(text)


def concretise(rng, case, n):
    """TLC case -> concrete CSV + control file + what each row must look like once loaded (plain JSON-able dict)."""
    schema = SCHEMAS[n % len(SCHEMAS)]
    cols = schema["cols"]
    var = schema["kind"] == "variable"
    fmts = [k for k, f in enumerate(TIMEFMTS) if f["frac"] == var]
    fmt = TIMEFMTS[fmts[(n // len(SCHEMAS)) % len(fmts)]]
    zone = ZONES[(n // 7) % len(ZONES)]
    tz = zoneinfo.ZoneInfo(zone)
    ncol = len(cols)
    # model column k (1 = first, NC = last, others = an inner / seeded one) -> concrete value column
    inner = list(range(1, ncol - 1)) or list(range(ncol))
    colmap = {1: 0, NC: ncol - 1}
    for k in range(2, NC):
        colmap[k] = rng.choice(inner)
    nrows = len(case["file"])
    year = rng.choice([2021, 2022, 2024])
    days = rng.sample(range(1, 364), nrows)               # distinct days of one year, never Jan 1
    rows, lines = [], []
    open_quote = False
    for j, cls in enumerate(case["file"]):
        d = datetime.datetime(year, 1, 1) + datetime.timedelta(days=days[j])
        sec = rng.randrange(60)
        local = datetime.datetime(d.year, d.month, d.day, rng.randrange(9, 17), rng.randrange(60), sec, tzinfo=tz)
        ns = rng.choice(FRACS) if var else 0
        epoch = int(local.timestamp())
        ts = fmt["f"](local, ns, rng)
        texts = [rng.choice(GOOD[t]) for _, t in cols]
        vals = [parse_good(t, x) for (_, t), x in zip(cols, texts)]
        loadable = cls in ("ok", "many")
        if cls == "badts":
            ts = rng.choice(["not-a-time", "", "x" + ts[1:], "@" + ts])
        elif cls.startswith("bad"):
            c = colmap[int(cls[3:])]
            texts[c] = rng.choice(BAD[cols[c][1]])
        fields = [ts] + texts
        if cls == "few":
            fields = fields[:-1]
        elif cls == "many":
            fields = fields + [rng.choice(["9", "", "x"])]
        # valid CSV quoting of some fields (none after a quoted field that is never closed: the rest of the file must not
        # accidentally close it)
        if not open_quote:
            fields = ['"%s"' % f if rng.random() < 0.1 else f for f in fields]
        if cls == "quote":
            if rng.random() < 0.5:
                k = rng.randrange(1, len(fields))
                fields[k] = '1"5'
            else:
                # one field too many, and that field opens a quote which is never closed: not CSV either (a reader that tolerates it
                # swallows the following lines into this field)
                fields = fields + ['"' + rng.choice(["x", "n/a", "see note"])]
                open_quote = True
        lines.append(",".join(fields))
        rows.append(dict(id=j + 1, cls=cls, epoch=epoch, ns=ns, vals=vals if loadable else None))
    names = ["Epoch"] + [c for c, _ in cols]
    ctl = []
    hv = "none"
    headline = None
    if case["header"]:
        hv = ["exact", "case", "rename", "partial"][(n // 3) % 4]
        ctl.append("firstRowHasColumnNames: true")
        if hv == "exact":
            headline = ",".join(names)
        elif hv == "case":
            headline = ",".join(rng.choice([" %s", "%s ", "%s"]) % rng.choice([x.upper(), x.lower(), x]) for x in names)
        elif hv == "rename":
            headline = ",".join("col%d" % k for k in range(len(names)))
            ctl.append("columnNameMap: [%s]" % ", ".join(names))
        else:
            headline = ",".join(["when"] + names[1:])
            ctl.append('columnNameMap: [Epoch, ""]')
    else:
        ctl.append("firstRowHasColumnNames: false")
        ctl.append("columnNameMap: [%s]" % ", ".join(names))
    ctl.append('timeFormat: "%s"' % fmt["layout"])
    ctl.append('timeZone: "%s"' % zone)
    eol = "\r\n" if (n // 5) % 3 == 1 else "\n"
    all_lines = ([headline] if headline is not None else []) + lines
    text = eol.join(all_lines)
    if all_lines and not ((n // 11) % 4 == 2 and lines):
        text += eol
    return dict(schema=schema, layout=fmt["layout"], zone=zone, header_variant=hv, colmap={str(k): v for k, v in colmap.items()},
                csv=text, yaml="\n".join(ctl) + "\n", rows=rows)


# ---------------------------------------------------------------------------------------------------------------
# observations -> row ids
# ---------------------------------------------------------------------------------------------------------------
def val_eq(typ, real, want):
    if typ == "i1":
        return isinstance(real, int) and (real - want) % 256 == 0     # the query service renders the byte column unsigned
    if typ[0] == "f":
        return isinstance(real, (int, float)) and float(real) == want
    return real == want


def rows_of_cols(cols, conc, stored):
    """driver columns -> list of row ids ('?' + description for a row that is not a row of the file).
    stored=False: dataset handed to the write client (exact epoch / nanoseconds);  stored=True: query result (fixed
    bucket: start of the interval; variable bucket: within one tick of the interval's 32-bit tick resolution)."""
    schema = conc["schema"]
    var = schema["kind"] == "variable"
    tfsec = schema["tfsec"]
    tick = -(-tfsec * 10 ** 9 // 2 ** 32) + 2
    want = ["Epoch"] + [c for c, _ in schema["cols"]] + (["Nanoseconds"] if var else [])
    names = [c["name"] for c in cols]
    if not cols:
        return []
    if names != want:
        return ["?columns %s instead of %s" % (names, want)]
    by = {c["name"]: c["vals"] for c in cols}
    out = []
    for k in range(len(by["Epoch"])):
        ep = by["Epoch"][k]
        ns = by["Nanoseconds"][k] if var else 0
        hit = None
        for r in conc["rows"]:
            if not stored:
                ok = r["epoch"] == ep and r["ns"] == ns
            elif var:
                ok = 0 <= (r["epoch"] - ep) * 10 ** 9 + (r["ns"] - ns) <= tick
            else:
                ok = ep == r["epoch"] - r["epoch"] % tfsec
            if ok:
                hit = r
                break
        if hit is None:
            out.append("?row at %s.%09d is not a row of the file" % (ep, ns))
            continue
        vals = [by[c][k] for c, _ in schema["cols"]]
        if hit["vals"] is None:
            out.append("?row %d (%s) cannot be loaded, yet it is there with values %s" % (hit["id"], hit["cls"], vals))
            continue
        if not all(val_eq(t, x, w) for (_, t), x, w in zip(schema["cols"], vals, hit["vals"])):
            out.append("?row %d loaded with values %s instead of %s" % (hit["id"], vals, hit["vals"]))
            continue
        out.append(hit["id"])
    return out


def observe_loop(conc, key, load, query):
    """(report, chunks as row ids, final bucket content as sorted row ids, detail)"""
    if load.get("driver_error"):
        raise Undecided("driver error: %s" % load)
    report = "panic" if load.get("panic") else ("error" if load.get("err") else "none")
    chunks = []
    for c in load.get("chunks") or []:
        cols = (c.get("cols") or {}).get(key)
        chunks.append(rows_of_cols(cols or [], conc, False) if not c.get("decode_err") else ["?undecodable dataset"])
    return report, chunks, stored_rows(conc, key, query), (load.get("panic") or load.get("err") or "")


def stored_rows(conc, key, query):
    if query.get("panic"):
        return ["?query panic " + str(query["panic"])[:200]]
    if query.get("err"):
        if "o files returned" in str(query["err"]):
            return []
        return ["?query error " + str(query["err"])[:200]]
    cols = None
    for k, v in (query.get("result") or {}).items():
        if k.split(":")[0] == key:
            cols = v
    return rows_of_cols(cols or [], conc, True)


def judge(case, conc, report, chunks, stored, detail):
    """-> (verdict, text, exact) with verdict in ok | known | violation; the oracle is the property statement:
    an error was reported, or every data row is in the bucket with its parsed values."""
    n = len(case["file"])
    allrows = list(range(1, n + 1))
    garbage = [x for x in stored if isinstance(x, str)] + [x for c in chunks for x in c if isinstance(x, str)]
    got = sorted(x for x in stored if isinstance(x, int))
    def same(m):
        return report == m["report"] and chunks == m["chunks"] and got == sorted(x for c in m["chunks"] for x in c)
    # exactly what the model of the unchanged tree predicts / what the pure model predicts (panic and error are both
    # "reported" there) / neither: informative only, never a verdict
    pure = dict(case["expect"])
    if report != "none" and pure["report"] != "none":
        pure["report"] = report
    exact = "exact" if same(case["known"]) else ("exact_pure" if same(pure) else "inexact")
    if report != "none":
        return "ok", "", exact
    if case["silentok"] and not garbage and got == allrows and len(stored) == n:
        return "ok", "", exact
    # the load claimed success although not every row is in the bucket with its values
    missing = [j for j in allrows if j not in got]
    what = "load of %d data rows %s (chunk size %d, header %s) returned no error but " % (n, case["file"], case["chunk"], case["header"])
    if garbage:
        what += "stored wrong data: %s; " % garbage[:3]
    what += "rows %s of the file are not in the bucket (bucket holds rows %s, datasets written %s)" % (missing, got, chunks)
    unloadable = [j for j in allrows if conc["rows"][j - 1]["vals"] is None]
    if unloadable:
        what += "; rows %s cannot be loaded (%s) and no error was reported" % (unloadable, [case["file"][j - 1] for j in unloadable])
    if (not garbage and "CsvErrorIsEOF" in case["hit"] and case["known"]["report"] == "none" and not case["known"]["sat"]
            and got == sorted(x for c in case["known"]["chunks"] for x in c) and chunks == case["known"]["chunks"]):
        return "known", what, exact
    return "violation", what, exact


def key_of(n, conc, prefix="C"):
    return "%s%d/%s/T" % (prefix, n, conc["schema"]["tf"])


def create_op(key, conc):
    s = conc["schema"]
    return {"op": "create", "key": key + ":Symbol/Timeframe/AttributeGroup", "names": [c for c, _ in s["cols"]],
            "types": [t for _, t in s["cols"]], "var": s["kind"] == "variable"}


def write_files(d, n, conc, cache):
    p = os.path.join(d, "f%d.csv" % n)
    with open(p, "w", newline="") as f:
        f.write(conc["csv"])
    y = cache.get(conc["yaml"])
    if y is None:
        y = os.path.join(d, "ctl%d.yaml" % len(cache))
        with open(y, "w") as f:
            f.write(conc["yaml"])
        cache[conc["yaml"]] = y
    return p, y


# ---------------------------------------------------------------------------------------------------------------
# the real command loop (session.Client.Read -> \load) in a child process
# ---------------------------------------------------------------------------------------------------------------
MARK_RE = re.compile(r"error: failed with error: unable to get info about key MARK(\d+)/1Min/X.*?MARK\1/1Min/X/\d+\.bin not found in catalog", re.S)


def run_cli(binary, root, items, timeout):
    """items: [(n, key, csv, yaml)] -> {n: (report, stderr text)}; one child per crash."""
    out = {}
    pending = list(items)
    t_end = time.time() + timeout
    hist = os.path.expanduser("~/.marketstoreReaderHistory")
    had_hist = os.path.exists(hist)
    try:
        while pending:
            if time.time() > t_end:
                raise Undecided("connect child processes timed out")
            text = "".join("\\load %s %s %s\n\\getinfo MARK%d/1Min/X\n" % (key, p, y, n) for n, key, p, y in pending)
            try:
                pr = subprocess.run([binary, "connect", root], input=text.encode(), stdout=subprocess.PIPE, stderr=subprocess.PIPE,
                                    env=vlib.GOENV, timeout=max(5, t_end - time.time()))
            except subprocess.TimeoutExpired:
                raise Undecided("connect child process hung")
            err = pr.stderr.decode("utf-8", "replace")
            if "Connected to local instance" not in err:
                raise Undecided("connect child did not start: rc=%s %s" % (pr.returncode, err[-500:]))
            body = err[err.index("Connected to local instance"):]
            parts = MARK_RE.split(body)
            # parts = [text before marker a, a, text between a and b, b, ..., tail]
            done = 0
            for k in range(1, len(parts), 2):
                n = pending[done][0]
                if int(parts[k]) != n:
                    raise Undecided("connect child: marker %s where %d was expected" % (parts[k], n))
                seg = parts[k - 1]
                out[n] = ("error" if "error:" in seg else "none", seg[-300:])
                done += 1
            tail = parts[-1]
            if done == len(pending):
                break
            n = pending[done][0]
            if pr.returncode == 0:
                raise Undecided("connect child ended normally without finishing case %d: %s" % (n, tail[-500:]))
            out[n] = ("panic", tail[-600:])
            pending = pending[done + 1:]
    finally:
        if not had_hist and os.path.exists(hist):
            os.unlink(hist)
    return out


# ---------------------------------------------------------------------------------------------------------------
def tlc_cases(res, maxrows, classes, emit, name, timeout):
    consts = dict(MaxRows=maxrows, NC=NC, Classes="{%s}" % ", ".join('"%s"' % c for c in classes),
                  Chunks="{1, 2, 3, %d}" % MAXCHUNK, Headers="{TRUE, FALSE}", Deviations='{"CsvErrorIsEOF", "ConvertPanics"}',
                  EmitCases="TRUE" if emit else "FALSE")
    r = vlib.run_tlc("CsvLoad", name, timeout=timeout,
                     cfg_text=vlib.cfg_text(consts, invariants=["LoadedAllOrError", "ChunkingSane", "DeviationsExplainAll", "Emit"]))
    vlib.tlc_ok(r, name)
    if r["violated"]:
        raise Undecided("MODEL-DRIFT: %s violates %s in the model\n%s" % (name, r["violated"], r["out"][-3000:]))
    res.tlc(r, name)
    return r


def case_sort_key(c):
    return (len(c["file"]), c["file"], c["chunk"], c["header"])


def run(prop, tier):
    res = Result(prop, tier)
    quick = tier == "quick"
    rng = random.Random(vlib.seed() * 7919 + 33)
    binary = vlib.build_harness(cmd=CMD)
    known = {k["deviation"]: k for k in vlib.known_findings(prop)}
    classes = ["ok", "few", "many", "quote", "badts", "bad1", "bad2", "bad3"]
    if quick:
        classes.remove("bad2")          # the inner column position is left to the thorough tier

    # ---------------- E1 + case enumeration ----------------
    if quick:
        r = tlc_cases(res, 4, classes, True, "CsvLoad_r4.cfg", 600)
    else:
        r = tlc_cases(res, 5, classes, True, "CsvLoad_r5.cfg", 3000)
    cases = sorted(r["records"].get("CASE", []), key=case_sort_key)
    nfiles = sum(len(classes) ** k for k in range(0, (4 if quick else 5) + 1))
    if len(cases) != nfiles * 4 * 2:
        raise Undecided("TLC emitted %d cases, expected %d" % (len(cases), nfiles * 8))
    if r["records"].get("BAD"):
        raise Undecided("unparsable TLC records")
    res.cov["cases_enumerated"] = len(cases)
    res.cov["cases_where_known_deviation_breaks_property"] = sum(1 for c in cases if not c["known"]["sat"])

    vlib.log("[csvload] TLC done: %d cases, %.0fs since start" % (len(cases), time.time() - res.t0))
    d = vlib.scratch()
    fdir = os.path.join(d, "csv")
    os.makedirs(fdir, exist_ok=True)
    ycache = {}
    off = rng.randrange(1000)

    class Concs(dict):
        """case number -> concretisation, computed on demand from a per-case generator (seed, n); cleared per slab"""
        def __missing__(self, n):
            self[n] = concretise(random.Random("%d:%d" % (vlib.seed(), n)), cases[n], n + off)
            return self[n]
    concs = Concs()

    tally = dict(ok=0, known=0, violation=0, exact=0, exact_pure=0, inexact=0, reported_error=0, reported_panic=0, loaded_all=0)
    formats, zones, types, hvariants = set(), set(), set(), set()

    def account(n, path, report, chunks, stored, detail, extra):
        c, conc = cases[n], concs[n]
        verdict, text, exact = judge(c, conc, report, chunks, stored, detail)
        tally[verdict] += 1
        tally[exact] += 1
        if report == "error":
            tally["reported_error"] += 1
        elif report == "panic":
            tally["reported_panic"] += 1
        else:
            tally["loaded_all"] += verdict == "ok"
        res.cov["traces_validated_against_impl"] += 1
        formats.add(conc["layout"]); zones.add(conc["zone"]); hvariants.add(conc["header_variant"])
        types.update(t for _, t in conc["schema"]["cols"])
        if exact == "inexact":
            res.cov.setdefault("conforming_but_unlike_model", [])
            if len(res.cov["conforming_but_unlike_model"]) < 5 and verdict == "ok":
                res.cov["conforming_but_unlike_model"].append({"path": path, "file": c["file"], "chunk": c["chunk"], "header": c["header"],
                                                               "real": [report, chunks, stored], "model": c["known"]})
        replay = dict(check="csvload", prop=prop, path=path, case=c, conc=conc, seed=vlib.seed(),
                      observed=dict(report=report, chunks=chunks, stored=stored, detail=str(detail)[:600]), **extra)
        if verdict == "known":
            k = known.get("CsvErrorIsEOF")
            if k:
                res.known_finding(k, {"file": c["file"], "chunk": c["chunk"], "header": c["header"], "path": path,
                                      "loaded_rows": [x for x in stored], "error": None})
            else:
                res.violation("(deviation CsvErrorIsEOF observed but not listed as known) " + text, replay)
        elif verdict == "violation":
            res.violation("[%s] %s; schema %s, time format %r zone %s" % (path, text, conc["schema"]["cols"], conc["layout"], conc["zone"]), replay)
        if len(c["file"]) >= 3 and c["chunk"] in (2, 3):
            res.sample({"path": path, "file": c["file"], "chunk": c["chunk"], "header": c["header"], "csv": conc["csv"],
                        "control": conc["yaml"], "observed": {"report": report, "chunks": chunks, "stored": stored}}, limit=4)

    # ---------------- E2a: every case through the loop of session.load (chunk size as enumerated) ----------------
    # batches run in parallel driver processes, each on its own fresh instance
    nproc = max(2, min(8, (os.cpu_count() or 4) // 2))
    slabs = [list(range(k, min(k + 24000, len(cases)))) for k in range(0, len(cases), 24000)]
    rounds = 0
    todo = []
    while todo or slabs:
        if not todo:
            concs.clear()
            todo = slabs.pop(0)
            rounds = 0
        rounds += 1
        if rounds > 20:
            raise Undecided("driver keeps dying")
        bsize = max(50, min(1500, -(-len(todo) // nproc)))
        batches = [todo[k:k + bsize] for k in range(0, len(todo), bsize)]
        jobs = []
        for bi, batch in enumerate(batches):
            root = os.path.join(d, "root_csvload_%d_%d_%d" % (len(slabs), rounds, bi))
            script = [{"id": "start", "ops": [{"op": "start", "root": root}]}]
            for n in batch:
                conc = concs[n]
                key = key_of(n, conc)
                p, y = write_files(fdir, n, conc, ycache)
                script.append({"id": n, "ops": [create_op(key, conc),
                                                {"op": "csvload", "x": {"key": key, "data": p, "control": y, "chunk": cases[n]["chunk"]}},
                                                {"op": "query", "dest": key}]})
            jobs.append((root, script))

        def job(k):
            o = vlib.run_cases(binary, jobs[k][1], timeout=3000 if not quick else 900, tag="csvload%d" % k)
            shutil.rmtree(jobs[k][0], ignore_errors=True)
            return o
        obs = {}
        with concurrent.futures.ThreadPoolExecutor(nproc) as ex:
            for o in ex.map(job, range(len(jobs))):
                obs.update(o)
        again = []
        for n in todo:
            o = obs.get(json.dumps(n))
            conc = concs[n]
            key = key_of(n, conc)
            if o is None:
                raise Undecided("no observation for case %d" % n)
            if isinstance(o, dict) and "died" in o:
                # the whole process died inside the load: loud, like a panic
                account(n, "loop", "panic", [], ["?process died, bucket content unknown"], o["stderr"][-300:], {})
                continue
            if o[0].get("driver_error") or (o[1].get("driver_error") and "no instance" in str(o[1].get("err"))):
                again.append(n)
                continue
            if o[0].get("err") or o[0].get("panic"):
                raise Undecided("create failed for case %d: %s" % (n, o[0]))
            report, chunks, stored, detail = observe_loop(conc, key, o[1], o[2])
            account(n, "loop", report, chunks, stored, detail, {})
            os.unlink(os.path.join(fdir, "f%d.csv" % n))
        if again and len(again) == len(todo):
            raise Undecided("driver made no progress")
        todo = again

    vlib.log("[csvload] loop replay done, %.0fs since start" % (time.time() - res.t0))
    # ---------------- E2b: the real command loop, real session.load (chunkSize 1000000 = largest chunk class) -----
    concs.clear()
    big = [n for n, c in enumerate(cases) if c["chunk"] == MAXCHUNK and (c["file"] or c["header"])]     # not the 0-byte file
    small = [n for n in big if len(cases[n]["file"]) <= 2]
    rest = [n for n in big if len(cases[n]["file"]) > 2]
    rng.shuffle(small)
    rng.shuffle(rest)
    want, max_panics = (170, 4) if quick else (1500, 25)
    pick, panics = [], 0
    for n in small[:want // 2] + rest:
        if len(pick) >= want:
            break
        if cases[n]["known"]["report"] == "panic":
            if panics >= max_panics:
                continue
            panics += 1
        pick.append(n)
    pick.sort()
    croot = os.path.join(d, "root_cli")
    script = [{"id": "start", "ops": [{"op": "start", "root": croot}]}]
    items = []
    for n in pick:
        conc = concs[n]
        key = key_of(n, conc, "L")
        p, y = write_files(fdir, n, conc, ycache)
        items.append((n, key, p, y))
        script.append({"id": n, "ops": [create_op(key, conc)]})
    obs = vlib.run_cases(binary, script, timeout=600, tag="clicreate")
    for n in pick:
        o = obs.get(json.dumps(n))
        if not isinstance(o, list) or o[0].get("err") or o[0].get("panic"):
            raise Undecided("create failed for command-loop case %d: %s" % (n, o))
    cli = run_cli(binary, croot, items, timeout=600 if quick else 2400)
    script = [{"id": "start", "ops": [{"op": "start", "root": croot}]}]
    for n, key, p, y in items:
        script.append({"id": n, "ops": [{"op": "query", "dest": key}]})
    obs = vlib.run_cases(binary, script, timeout=600, tag="cliquery")
    ncli = 0
    for n, key, p, y in items:
        o = obs.get(json.dumps(n))
        if not isinstance(o, list):
            raise Undecided("query after the command loop failed for case %d: %s" % (n, o))
        report, detail = cli[n]
        stored = stored_rows(concs[n], key, o[0])
        # the command loop does not expose the datasets; the stored rows stand for the single chunk it writes
        stored = sorted(stored, key=lambda x: (isinstance(x, str), x))
        chunks = [list(stored)] if stored else []
        account(n, "connect", report, chunks, stored, detail, {})
        ncli += 1
    res.cov["cases_through_real_command_loop"] = ncli
    shutil.rmtree(croot, ignore_errors=True)

    res.cov.update({"verdicts": tally, "time_formats": sorted(formats), "time_zones": sorted(zones), "column_types": sorted(types),
                    "header_variants": sorted(hvariants), "chunk_sizes": [1, 2, 3, MAXCHUNK], "row_classes": classes})
    if tally["known"] == 0 and tally["violation"] == 0 and res.cov["cases_where_known_deviation_breaks_property"] > 0:
        res.cov["note"] = "the listed deviation CsvErrorIsEOF was not observed on this tree (fixed?)"
    res.assumptions += [
        "session.load is unexported and fixes chunkSize=1000000: chunk sizes 1,2,3,100 run through a Go op that replicates only its outer loop (GetBucketInfo, ReadMetadata, CSVtoNumpyMulti, writeNumpy, endReached) around the real functions; the real load runs in the `connect` child process for a sample of the chunk-100 cases",
        "a Go panic / process crash counts as a reported failure (loud), an error message on stderr of the command loop counts as a reported error",
        "CSV layout: Epoch column first, then the bucket's columns in schema order; rows of one file carry distinct timestamps between 09:00 and 17:00 local time (no DST gaps)",
        "local time -> epoch by Python zoneinfo; float32 expectations by IEEE rounding of the decimal text",
    ]
    return res.finish()


def replay(rp):
    """python3 tools/check.py --replay replays/<file>.json : re-executes one recorded case on the current tree"""
    r = rp["replay"]
    c, conc, n = r["case"], r["conc"], 0
    binary = vlib.build_harness(cmd=CMD)
    d = vlib.scratch()
    p, y = write_files(d, n, conc, {})
    root = os.path.join(d, "root_replay")
    if r["path"] == "loop":
        key = key_of(n, conc)
        obs = vlib.run_cases(binary, [{"id": "r", "ops": [{"op": "start", "root": root}, create_op(key, conc),
                                                         {"op": "csvload", "x": {"key": key, "data": p, "control": y, "chunk": c["chunk"]}},
                                                         {"op": "query", "dest": key}]}])['"r"']
        if isinstance(obs, dict):
            report, chunks, stored, detail = "panic", [], ["?process died"], obs.get("stderr", "")
        else:
            report, chunks, stored, detail = observe_loop(conc, key, obs[2], obs[3])
    else:
        key = key_of(n, conc, "L")
        vlib.run_cases(binary, [{"id": "r", "ops": [{"op": "start", "root": root}, create_op(key, conc)]}])
        report, detail = run_cli(binary, root, [(n, key, p, y)], 120)[n]
        obs = vlib.run_cases(binary, [{"id": "r", "ops": [{"op": "start", "root": root}, {"op": "query", "dest": key}]}])['"r"']
        stored = sorted(stored_rows(conc, key, obs[1]), key=lambda x: (isinstance(x, str), x))
        chunks = [stored] if stored else []
    print("observed: report=%s datasets=%s bucket=%s %s" % (report, chunks, stored, str(detail)[:300]))
    verdict, text, _ = judge(c, conc, report, chunks, stored, detail)
    if verdict == "ok":
        print("OK property=%s: the recorded case no longer violates the property" % r["prop"])
        return 0
    if verdict == "known":
        print("KNOWN-FINDING: property=%s KF-C33-1 (replayed): %s" % (r["prop"], text[:600]))
        return 0
    print("VIOLATION property=%s (replayed)\n  %s" % (r["prop"], text[:1000]))
    return 1
