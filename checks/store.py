"""C08 / C09: bucket data model.  Store.tla behaviours replayed into the real DataService."""
PROPS = ["C08", "C09"]
READY = True
CLAIMS = {
 "C08": dict(technique="TLA+ refinement (implementation-shaped bucket model vs LWW interval map) checked by TLC; TLC-simulated write histories replayed into the real DataService for all 11 timeframes",
             text="TLC checks exhaustively (bounded intervals/values/rows/requests) that the implementation-shaped bucket model (WriteRecords grouping loop, year files, slot index with 0 = hole) refines the last-writer-wins interval map; TLC-generated histories are replayed step by step into the real server (Create/Write/Query) for every supported timeframe, boundary intervals (Jan 1, leap day, last interval, two years) and every fixed-width column type, and the real query result is compared with the abstract state after every request.",
             note="Trusted: TLC, the Python concretisation (interval ids -> epochs, value ids -> per-type boundary values), UTC. Bounded: 5 interval ids over 2 years, 2 value ids, <=3 rows per request, 3 requests per history."),
 "C09": dict(technique="TLA+ refinement (slot/blob model with stable tick sort vs time-ordered bag) checked by TLC; TLC-simulated histories replayed into the real DataService for all 11 timeframes",
             text="As C08 for variable-length buckets: TLC checks that the implementation-shaped model refines the time-ordered bag; TLC-generated histories (several records per interval, unsorted, duplicates, two years) are replayed into the real server for every timeframe with offset classes inside the interval; every record must come back exactly once, in non-decreasing order, with its values and a timestamp within one resolution step below the written one.",
             note="Trusted: TLC, the Python concretisation; an emulation of the tick codec is used only to place offset classes relative to the known one-second-late window (KF-C09-1), never as the oracle."),
}
import calendar, itertools, json, os, random, shutil, sys
import vlib
from vlib import Result, Undecided

TIMEFRAMES = [("1Sec", 1), ("10Sec", 10), ("30Sec", 30), ("1Min", 60), ("5Min", 300), ("15Min", 900),
              ("30Min", 1800), ("1H", 3600), ("2H", 7200), ("4H", 14400), ("1D", 86400)]
DAY = 86400

# schemas rotate over every fixed-width wire type; value id -> boundary values of the type
TYPE_VALUES = {
    "i1": [128, 127, 255], "i2": [-32768, 32767, -1], "i4": [-2 ** 31, 2 ** 31 - 1, -1], "i8": [-2 ** 63, 2 ** 63 - 1, -1],
    "u1": [255, 1, 128], "u2": [65535, 1, 32768], "u4": [2 ** 32 - 1, 1, 2 ** 31], "u8": [2 ** 64 - 1, 1, 2 ** 63],
    "f4": [1.5, -3.0e38, 1.401298464324817e-45], "f8": [-2.25, 1.7e308, 5e-324],
}
SCHEMAS = [
    [("Px", "f4")],
    [("Open", "f4"), ("High", "f4"), ("Low", "f4"), ("Close", "f4"), ("Volume", "i8")],
    [("a", "i1"), ("b", "u2"), ("c", "u4")],
    [("x", "f8"), ("y", "u8"), ("z", "i2")],
    [("p", "u1"), ("q", "i4")],
    [("w", "i8")],
    [("m", "f4"), ("n", "f4"), ("k", "i4")],      # 12 data bytes: record length 24 (= 8 * 3, not a power of two)
]


def year_start(y):
    return calendar.timegm((y, 1, 1, 0, 0, 0))


def year_len(y):
    return 366 * DAY if calendar.isleap(y) else 365 * DAY


TICKS_DIV = 49710.269629629629629629629629629


def emulate_ticks(off_ns, tfsec):
    """The code's own tick encoding/decoding (io.GetIntervalTicks32Bit / executor.GetTimeFromTicks), in IEEE
    doubles like Go.  Used only to pick offset classes that do / do not sit in the known 'one second late'
    window and to predict the known deviation exactly; the property oracle does not use it."""
    import math
    ipd = 86400 // tfsec
    seconds = float(off_ns // 10 ** 9) + float(off_ns % 10 ** 9) / 1e9
    tps = float(ipd) * TICKS_DIV
    ticks = int(tps * seconds)
    if ticks >= 2 ** 32:
        ticks = 2 ** 32 - 1
    frac = float(ticks) / (float(ipd) * TICKS_DIV)
    sub = 1e9 * (frac - math.floor(frac))
    if sub >= 1e9:
        sub -= 1e9
        frac += 1
    r = frac * 1e8
    rounded = math.floor(r + 0.5) if r - math.floor(r) != 0.5 else (math.floor(r) + 1)  # math.Round: half away from zero
    sec = int(rounded / 1e8)
    nanos = int(sub + 0.5)
    late = sec > int(math.floor(frac))
    return sec, nanos, late


class Concretisation:
    """interval id / offset class / value id  ->  concrete epoch, nanoseconds, column values."""

    def __init__(self, rng, tfname, tfsec, ni0, ni1, no, schema, kind, edge=False):
        self.tf, self.tfsec, self.ni0, self.ni1, self.schema, self.kind = tfname, tfsec, ni0, ni1, schema, kind
        # year pairs: leap in second, leap in first, both leap (so the leap year's extra day is usable), far apart
        self.y0, self.y1 = rng.choice([(2019, 2020), (2020, 2021), (2020, 2024), (1999, 2000), (2023, 2025)])
        npos = max(ni0, ni1)
        common = min(year_len(self.y0), year_len(self.y1))
        # elapsed time since Jan 1 for each position: position 0 is the first interval of the year, the last
        # position is the last interval both years have (or of the leap year when both are leap); the middle
        # ones are drawn from boundary classes (second interval, leap day, day 60, middle, seeded)
        mids = {tfsec, 59 * DAY, 60 * DAY, 59 * DAY + (DAY - tfsec), (common // 2 // tfsec) * tfsec, common - 2 * tfsec,
                31 * DAY, rng.randrange(1, common // tfsec - 1) * tfsec}
        mids = sorted(m for m in mids if 0 < m < common - tfsec)
        pick = sorted(rng.sample(mids, npos - 2)) if npos > 2 else []
        self.elapsed = [0] + pick + [common - tfsec]
        self.elapsed = self.elapsed[:npos] if npos >= 2 else [0]
        if npos >= 2:
            self.elapsed[-1] = common - tfsec
        res_ns = tfsec * 10 ** 9 / 2 ** 32
        self.res_ns = res_ns
        self.res_int = -(-tfsec * 10 ** 9 // 2 ** 32)  # ceil, integer arithmetic (epochs in ns exceed float precision)
        tfns = tfsec * 10 ** 9
        # offset classes inside an interval, increasing, avoiding the last 5 ns of any second (known decode defect,
        # handled by the dedicated edge class in the variable check)
        self.edge = -1
        e = None
        if edge and kind == "variable":
            # optional edge class (the last one): a whole-second offset that the tick codec reports one second late
            e = find_edge(rng, tfsec, tfns // 3, res_ns)
            if e is not None:
                self.edge = no - 1
        lim = e if e is not None else tfns
        nn = no - 1 if e is not None else no
        cand = sorted({0, 1, lim // 4 + 3, lim // 2, (lim // 3) // 10 ** 9 * 10 ** 9 if lim > 3 * 10 ** 9 else 7, lim - 10,
                       rng.randrange(0, lim - 10)})
        cand = [c for c in cand if 0 <= c < lim and not emulate_ticks(c, tfsec)[2]]
        # classes must be distinguishable after decoding: at least 2 resolution steps apart
        offs = []
        for c in cand:
            if (not offs or c - offs[-1] > 2 * res_ns + 2) and lim - c > 2 * res_ns + 2:
                offs.append(c)
        if len(offs) < nn:
            raise Undecided("cannot build %d offset classes for %s" % (no, tfname))
        idx = sorted(rng.sample(range(len(offs)), nn))
        self.offs = [offs[k] for k in idx]
        if nn >= 1 and kind == "variable" and rng.random() < 0.5:
            self.offs[0] = 0
        if e is not None:
            self.offs.append(e)
        self.vperm = rng.sample(range(3), 3)

    def iv_epoch(self, i):
        # the last position of EACH year is that year's own last interval (Dec 31 of a leap year lies one day beyond
        # the last interval the two years have in common)
        if i <= self.ni0:
            if i == self.ni0 and self.ni0 >= 2:
                return year_start(self.y0) + year_len(self.y0) - self.tfsec
            return year_start(self.y0) + self.elapsed[i - 1]
        k = i - self.ni0
        if k == self.ni1 and self.ni1 >= 2:
            return year_start(self.y1) + year_len(self.y1) - self.tfsec
        return year_start(self.y1) + self.elapsed[k - 1]

    def row_time(self, r):
        ns = self.offs[r["o"]] if self.kind == "variable" else 0
        return self.iv_epoch(r["i"]) + ns // 10 ** 9, ns % 10 ** 9

    def vals(self, v):
        return [TYPE_VALUES[t][self.vperm[(v - 1) % 3]] for _, t in self.schema]

    def cols(self, rows):
        cols = [{"name": "Epoch", "type": "i8", "vals": [self.row_time(r)[0] for r in rows]}]
        for k, (n, t) in enumerate(self.schema):
            cols.append({"name": n, "type": t, "vals": [self.vals(r["v"])[k] for r in rows]})
        if self.kind == "variable":
            cols.append({"name": "Nanoseconds", "type": "i4", "vals": [self.row_time(r)[1] for r in rows]})
        return cols

    def describe(self):
        return {"tf": self.tf, "years": [self.y0, self.y1], "elapsed_s": self.elapsed, "offs_ns": self.offs,
                "schema": self.schema, "kind": self.kind}


_EDGES = {}


def edge_offsets(tfsec):
    """all whole-second offsets of the timeframe that the tick codec reports one second late"""
    if tfsec not in _EDGES:
        _EDGES[tfsec] = [k * 10 ** 9 for k in range(1, tfsec) if emulate_ticks(k * 10 ** 9, tfsec)[2]]
    return _EDGES[tfsec]


def find_edge(rng, tfsec, above_ns, res_ns):
    es = [e for e in edge_offsets(tfsec) if e > above_ns + 2 * res_ns + 2]
    return rng.choice(es) if es else None


def has_edge(tfsec):
    return any(e > tfsec * 10 ** 9 // 3 + 2 * tfsec * 1e9 / 2 ** 32 + 2 for e in edge_offsets(tfsec))


def result_rows(obs, key, schema, kind):
    """query observation -> list of (epoch, nanos, [values]) or an error string"""
    if isinstance(obs, dict) and obs.get("panic"):
        return "panic: " + obs["panic"]
    if obs.get("err"):
        if "no files returned" in obs["err"] or "No files returned" in obs["err"]:
            return []
        return "error: " + str(obs["err"])
    res = obs.get("result") or {}
    if not res:
        return []
    cols = None
    for k, v in res.items():
        if k.split(":")[0] == key:
            cols = v
    if cols is None:
        return "error: key %s not in result %s" % (key, list(res))
    if not cols:
        return []
    by = {c["name"]: c["vals"] for c in cols}
    names = [c["name"] for c in cols]
    want = ["Epoch"] + [n for n, _ in schema] + (["Nanoseconds"] if kind == "variable" else [])
    if names != want:
        return "error: columns %s, expected %s" % (names, want)
    n = len(by["Epoch"])
    out = []
    for k in range(n):
        out.append((by["Epoch"][k], by["Nanoseconds"][k] if kind == "variable" else 0, [by[c][k] for c, _ in schema]))
    return out


def fvals_equal(a, b, schema):
    for x, y, (_, t) in zip(a, b, schema):
        if t == "f4":
            import struct
            if struct.pack("<f", x) != struct.pack("<f", y):
                return False
        elif x != y:
            return False
    return True


def match_fixed(real, want_rows, c):
    """exact equality with the abstract read: one row per interval ascending, stamped with interval start"""
    if isinstance(real, str):
        return False
    if len(real) != len(want_rows):
        return False
    for (ep, ns, vals), r in zip(real, want_rows):
        if ep != c.iv_epoch(r["i"]) or ns != 0 or not fvals_equal(vals, c.vals(r["v"]), c.schema):
            return False
    return True


def match_variable(real, want_rows, c, late=()):
    """every record exactly once, non-decreasing time, values equal, time within one resolution step below the
    written time and inside the interval"""
    if isinstance(real, str):
        return False
    if len(real) != len(want_rows):
        return False
    times = [ep * 10 ** 9 + ns for ep, ns, _ in real]
    if any(times[k] > times[k + 1] for k in range(len(times) - 1)):
        return False
    unused = list(range(len(want_rows)))
    tfns = c.tfsec * 10 ** 9
    for (ep, ns, vals) in real:
        t = ep * 10 ** 9 + ns
        hit = None
        for u in unused:
            r = want_rows[u]
            ivs = c.iv_epoch(r["i"]) * 10 ** 9
            wt = ivs + c.offs[r["o"]]
            if wt - c.res_int - 1 < t <= wt and ivs <= t < ivs + tfns and fvals_equal(vals, c.vals(r["v"]), c.schema):
                hit = u
                break
        if hit is None:
            return False
        unused.remove(hit)
    return True


def match_variable_known(real, known_rows, c):
    """exact prediction of the known deviating behaviour: stored order, late rows displayed with the codec's time"""
    if isinstance(real, str) or len(real) != len(known_rows):
        return False
    unused = list(range(len(known_rows)))
    for (ep, ns, vals) in real:
        t = ep * 10 ** 9 + ns
        hit = None
        for u in unused:
            r = known_rows[u]
            ivs = c.iv_epoch(r["i"]) * 10 ** 9
            wt = ivs + c.offs[r["o"]]
            if r.get("late"):
                sec, nanos, _ = emulate_ticks(c.offs[r["o"]], c.tfsec)
                ok = t == ivs + sec * 10 ** 9 + nanos
            else:
                ok = wt - c.res_int - 1 < t <= wt
            if ok and fvals_equal(vals, c.vals(r["v"]), c.schema):
                hit = u
                break
        if hit is None:
            return False
        unused.remove(hit)
    return True


FINDING_OF_DEV = {"DailyJan1Hole": "KF-C08-1", "PrevYearStale": "KF-C08-2", "LateSecond": "KF-C09-1"}


AMPL = 60      # every model interval stands for a block of AMPL consecutive real intervals


def ampl_epoch(c, i, j):
    """real interval j of the block that stands for model interval i: blocks are laid out in model order from the start of the
    year, the last position of a year ends at the year's last interval"""
    if i <= c.ni0:
        y, p, n = c.y0, i, c.ni0
    else:
        y, p, n = c.y1, i - c.ni0, c.ni1
    if p == n and n >= 2:
        return year_start(y) + year_len(y) - (c.ampl - j) * c.tfsec
    return year_start(y) + ((p - 1) * (c.ampl + 2) + j) * c.tfsec


def amplified_cases(rng, cases, all_behs, quick, ni0, ni1, no):
    """The flush of a fixed-length bucket takes another code path (a buffered file) when one transaction carries 100 or more
    write commands for one year file - a size no TLC behaviour has.  A behaviour is therefore also replayed AMPLIFIED: every
    model interval becomes a block of AMPL consecutive intervals and every model row AMPL rows (one per interval of the block,
    in block order), so a request of 2-3 model rows becomes 120-180 commands in which the rows of one interval are far apart.
    The model's prediction is amplified in the same way (a homomorphic image of the behaviour)."""
    def score(b):
        best = 0
        for st in b[2]:
            rows = st["rows"]
            if st.get("hit"):
                return -1
            for yr in (0, 1):
                inyear = [r for r in rows if (r["i"] <= ni0) == (yr == 0)]
                if len(inyear) * AMPL >= 100:
                    dup = any(a["i"] == b2["i"] and a["v"] != b2["v"] for a in inyear for b2 in inyear)
                    best = max(best, 2 if dup else 1)
        return best
    good = [b for b in all_behs if score(b) == 2]
    ok = [b for b in all_behs if score(b) == 1]
    rng.shuffle(good)
    rng.shuffle(ok)
    n = 6 if quick else 40
    pick = good[:n - n // 3] + ok[:n // 3]
    meta = {}
    big_done = False
    for k, (tfname, tfsec, beh) in enumerate(pick):
        schema = SCHEMAS[k % len(SCHEMAS)]
        c = Concretisation(rng, tfname, tfsec, ni0, ni1, no, schema, "fixed")
        c.ampl = AMPL
        if tfsec <= 60 and not big_done:
            # one history with runs longer than a block of the buffered file (32 KiB): a run of one model row crosses a block boundary
            reclen = 8 + sum(int(t[1:]) for _, t in schema)
            c.ampl = 40000 // reclen + 1
            big_done = True
        key = "AMP%d/%s/G" % (k, tfname)
        ops = []
        for st in beh:
            ep, cols = [], [[] for _ in schema]
            for r in st["rows"]:
                for j in range(c.ampl):
                    ep.append(ampl_epoch(c, r["i"], j))
                    for q, v in enumerate(c.vals(r["v"])):
                        cols[q].append(v)
            wcols = [{"name": "Epoch", "type": "i8", "vals": ep}] + [{"name": nm, "type": t, "vals": cols[q]} for q, (nm, t) in enumerate(schema)]
            ops.append({"op": "write", "var": False, "buckets": [{"key": key, "cols": wcols}]})
            ops.append({"op": "query", "dest": key})
        cid = "amp%d" % k
        cases.append({"id": cid, "ops": ops})
        meta[json.dumps(cid)] = (beh, c, key)
    return meta


def check_amplified(res, obs, cases, meta):
    n = 0
    for cid, (beh, c, key) in meta.items():
        o = obs.get(cid)
        replay = {"check": "store.amplified", "concretisation": c.describe(), "key": key, "behaviour": beh, "amplification": c.ampl, "seed": vlib.seed()}
        if o is None:
            raise Undecided("no observation for case %s" % cid)
        if isinstance(o, dict) and "died" in o:
            res.violation("server process died (%s) during an amplified write/query history on %s: %s" % (o["died"], key, o["stderr"][-500:]), replay)
            continue
        for k, st in enumerate(beh):
            w, q = o[2 * k], o[2 * k + 1]
            if w.get("driver_error"):
                raise Undecided("driver error: %s" % w)
            if w.get("panic") or w.get("err"):
                res.violation("successful-by-contract write of %d rows failed on %s step %d: %s" % (len(st["rows"]) * c.ampl, key, k, str(w)[:300]), replay)
                break
            real = result_rows(q, key, c.schema, "fixed")
            want = [(ampl_epoch(c, r["i"], j), c.vals(r["v"])) for r in st["expect"] for j in range(c.ampl)]
            bad = None
            if isinstance(real, str):
                bad = real
            elif len(real) != len(want):
                bad = "%d rows, expected %d" % (len(real), len(want))
            else:
                for (ep, ns, vals), (wep, wv) in zip(real, want):
                    if ep != wep or not fvals_equal(vals, wv, c.schema):
                        bad = "row stamped %d holds %s; expected interval %d with %s" % (ep, vals, wep, wv)
                        break
            if bad:
                res.violation("query after step %d of an amplified history on %s (%s, one request = %d rows, %d per model row): %s; model rows of the step %s, model prediction %s" % (
                    k, key, c.tf, len(st["rows"]) * c.ampl, c.ampl, bad, st["rows"], st["expect"]), replay)
                break
        else:
            n += 1
            res.cov["traces_validated_against_impl"] += 1
    if meta:
        res.cov["amplified_behaviours_replayed"] = n
        res.cov["amplification"] = "%d real intervals per model interval: requests of %d-%d rows (the flush switches to a buffered file at 100 commands per year file); one history with %s intervals per model interval (a run longer than the buffered file's 32 KiB block)" % (
            AMPL, AMPL, 3 * AMPL, sorted({c.ampl for _, c, _ in meta.values() if c.ampl != AMPL}))


def run(prop, tier):
    kind = "fixed" if prop == "C08" else "variable"
    # every second case goes through the gRPC front end (frontend.GRPCService, requests and responses passed through the
    # protobuf wire format), the others through the msgpack-RPC DataService: the property does not depend on the transport
    os.environ.setdefault("VERIF_FRONT", "mix")
    res = Result(prop, tier)
    rng = random.Random(vlib.seed() * 7919 + (8 if kind == "fixed" else 9))
    binary = vlib.build_harness()
    devs = '{"DailyJan1Hole", "LateSecond"}'
    known = {k["deviation"]: k for k in vlib.known_findings(prop)}
    quick = tier == "quick"

    # ---------------- E1: exhaustive model check of the refinement, both timeframe classes -----------------
    ni0, ni1 = 3, 2
    no = 1 if kind == "fixed" else 3
    nv = 2
    mc_rows, mc_depth = (3, 2) if kind == "fixed" else (3, 1)
    if not quick:
        mc_rows, mc_depth = (3, 3) if kind == "fixed" else (2, 2)     # measured: variable (2,2) = 0.84 M states / 80 s; (3,2) does not finish in 25 min
    for tfc in ("intraday", "daily"):
        cfg = "Store_%s_%s_mc.cfg" % (kind, tfc)
        consts = dict(NI0=ni0, NI1=ni1, NV=nv, NO=no, Kind='"%s"' % kind, TfClass='"%s"' % tfc, MaxRows=mc_rows,
                      Depth=mc_depth, EdgeOff=(no - 1 if kind == "variable" else 99), Deviations=devs)
        r = vlib.run_tlc("Store", cfg, timeout=3000,
                         cfg_text=vlib.cfg_text(consts, invariants=["ImplRefinesAbs", "DeviationsExplainAll"], view="View"))
        vlib.tlc_ok(r, cfg)
        if r["violated"]:
            raise Undecided("MODEL-DRIFT: %s violates %s in the pure model\n%s" % (cfg, r["violated"], r["out"][-3000:]))
        res.tlc(r, cfg)

    # ---------------- E2: TLC behaviours replayed into the real code, every timeframe -----------------
    nbeh = (14 if quick else 150)
    depth = 3
    cases, meta = [], {}
    root = os.path.join(vlib.scratch(), "root_%s" % prop)
    cases.append({"id": "start", "ops": [{"op": "start", "root": root}]})
    sym = 0
    all_behs = []
    for tfname, tfsec in TIMEFRAMES:
        tfc = "daily" if tfname == "1D" else "intraday"
        cfg = "Store_%s_%s_sim.cfg" % (kind, tfc)
        edge = kind == "variable" and has_edge(tfsec)
        consts = dict(NI0=ni0, NI1=ni1, NV=nv, NO=no, Kind='"%s"' % kind, TfClass='"%s"' % tfc, MaxRows=3,
                      Depth=depth, EdgeOff=(no - 1 if edge else 99), Deviations=devs)
        r = vlib.run_tlc("Store", cfg, simulate=nbeh, depth=depth + 2, seed_=rng.randrange(1, 2 ** 31), workers=1, timeout=600,
                         cfg_text=vlib.cfg_text(consts, invariants=["Emit"], view="View"))
        vlib.tlc_ok(r, cfg)
        behs = r["records"].get("BEH", [])
        if len(behs) < nbeh // 2:
            raise Undecided("TLC produced only %d behaviours for %s" % (len(behs), cfg))
        if tfc == "intraday":
            all_behs += [(tfname, tfsec, b) for b in behs]
        for beh in behs:
            sym += 1
            schema = SCHEMAS[sym % len(SCHEMAS)]
            c = Concretisation(rng, tfname, tfsec, ni0, ni1, no, schema, kind, edge=edge)
            if edge and c.edge < 0:
                raise Undecided('no edge offset found for %s' % tfname)
            key = "S%d/%s/G" % (sym, tfname)
            ops = []
            explicit_create = sym % 2 == 0
            if explicit_create:
                ops.append({"op": "create", "key": key + ":Symbol/Timeframe/AttributeGroup", "names": [n for n, _ in schema],
                            "types": [t for _, t in schema], "var": kind == "variable"})
            for st in beh:
                ops.append({"op": "write", "var": kind == "variable", "buckets": [{"key": key, "cols": c.cols(st["rows"])}]})
                ops.append({"op": "query", "dest": key})
            cid = "b%d" % sym
            cases.append({"id": cid, "ops": ops})
            meta[json.dumps(cid)] = (beh, c, key, explicit_create)
    ampl_meta = {}
    if kind == "fixed":
        ampl_meta = amplified_cases(rng, cases, all_behs, quick, ni0, ni1, no)
    obs = vlib.run_cases(binary, cases, timeout=3000)
    shutil.rmtree(root, ignore_errors=True)
    check_amplified(res, obs, cases, ampl_meta)
    match = match_fixed if kind == "fixed" else match_variable
    match_known = match_fixed if kind == "fixed" else match_variable_known
    nontrivial = set()
    for cid, (beh, c, key, explicit_create) in meta.items():
        o = obs.get(cid)
        replay = {"check": "store", "prop": prop, "concretisation": c.describe(), "key": key, "behaviour": beh,
                  "ops": [x for x in cases if json.dumps(x["id"]) == cid][0]["ops"], "seed": vlib.seed()}
        if o is None:
            raise Undecided("no observation for case %s" % cid)
        if isinstance(o, dict) and "died" in o:
            res.violation("server process died (%s) during write/query history on %s: %s" % (o["died"], key, o["stderr"][-500:]), replay)
            continue
        base = 1 if explicit_create else 0
        if explicit_create and o[0].get("err"):
            raise Undecided("create failed: %s" % o[0])
        res.cov["traces_validated_against_impl"] += 1
        for k, st in enumerate(beh):
            w, q = o[base + 2 * k], o[base + 2 * k + 1]
            if w.get("driver_error"):
                raise Undecided("driver error: %s" % w)
            if w.get("panic") or w.get("err"):
                res.violation("successful-by-contract write failed on %s step %d: %s" % (key, k, w), replay)
                break
            real = result_rows(q, key, c.schema, kind)
            nontrivial.add(json.dumps(st["rows"], sort_keys=True) + c.tf)
            if match(real, st["expect"], c):
                continue
            hit = st["hit"]
            if hit and match_known(real, st["known"], c):
                for d in hit:
                    if d in known:
                        res.known_finding(known[d], {"tf": c.tf, "rows": st["rows"], "years": [c.y0, c.y1]})
                    else:
                        res.violation("deviation %s observed but not listed as known: step %d on %s; got %s, property demands %s" % (
                            d, k, key, real, st["expect"]), replay)
                continue
            res.violation("query after step %d on %s (%s, %s) returned %s; the property demands rows %s (concretised: %s)" % (
                k, key, c.tf, kind, str(real)[:600], st["expect"],
                [(c.row_time(r), c.vals(r["v"])) for r in st["expect"]][:8]), replay)
            break
        res.sample({"key": key, "concretisation": c.describe(), "behaviour": [s["rows"] for s in beh]}, limit=3)
    res.cov["distinct_requests_replayed"] = len(nontrivial)
    res.cov["timeframes"] = [t for t, _ in TIMEFRAMES]
    res.assumptions += ["time zone UTC", "values are per-type boundary values attached to %d model value ids" % nv,
                        "interval ids are concretised to first/last interval of the year and seeded boundary intervals"]
    return res.finish()
