"""C08 / C09: bucket data model.  Store.tla behaviours replayed into the real DataService."""
import calendar, itertools, json, os, random, shutil, sys
import vlib
from vlib import Result, Undecided

TIMEFRAMES = [("1Sec", 1), ("10Sec", 10), ("30Sec", 30), ("1Min", 60), ("5Min", 300), ("15Min", 900),
              ("30Min", 1800), ("1H", 3600), ("2H", 7200), ("4H", 14400), ("1D", 86400)]
DAY = 86400

# schemas rotate over every fixed-width wire type; value id -> boundary values of the type
TYPE_VALUES = {
    "i1": [128, 127, 255], "i2": [-32768, 32767, -1], "i4": [-2 ** 31, 2 ** 31 - 1, -1], "i8": [-2 ** 63, 2 ** 63 - 1, -1],
    "u1": [255, 1, 128], "u2": [65535, 1, 32768], "u4": [2 ** 32 - 1, 1, 2 ** 31], "u8": [2 ** 64 - 1, 1, 2 ** 63],
    "f4": [1.5, -3.0e38, 1.401298464324817e-45], "f8": [-2.25, 1.7e308, 5e-324],
}
SCHEMAS = [
    [("Px", "f4")],
    [("Open", "f4"), ("High", "f4"), ("Low", "f4"), ("Close", "f4"), ("Volume", "i8")],
    [("a", "i1"), ("b", "u2"), ("c", "u4")],
    [("x", "f8"), ("y", "u8"), ("z", "i2")],
    [("p", "u1"), ("q", "i4")],
    [("w", "i8")],
]


def year_start(y):
    return calendar.timegm((y, 1, 1, 0, 0, 0))


def year_len(y):
    return 366 * DAY if calendar.isleap(y) else 365 * DAY


class Concretisation:
    """interval id / offset class / value id  ->  concrete epoch, nanoseconds, column values."""

    def __init__(self, rng, tfname, tfsec, ni0, ni1, no, schema, kind):
        self.tf, self.tfsec, self.ni0, self.ni1, self.schema, self.kind = tfname, tfsec, ni0, ni1, schema, kind
        # year pairs: leap in second, leap in first, both leap (so the leap year's extra day is usable), far apart
        self.y0, self.y1 = rng.choice([(2019, 2020), (2020, 2021), (2020, 2024), (1999, 2000), (2023, 2025)])
        npos = max(ni0, ni1)
        common = min(year_len(self.y0), year_len(self.y1))
        # elapsed time since Jan 1 for each position: position 0 is the first interval of the year, the last
        # position is the last interval both years have (or of the leap year when both are leap); the middle
        # ones are drawn from boundary classes (second interval, leap day, day 60, middle, seeded)
        mids = {tfsec, 59 * DAY, 60 * DAY, 59 * DAY + (DAY - tfsec), (common // 2 // tfsec) * tfsec, common - 2 * tfsec,
                31 * DAY, rng.randrange(1, common // tfsec - 1) * tfsec}
        mids = sorted(m for m in mids if 0 < m < common - tfsec)
        pick = sorted(rng.sample(mids, npos - 2)) if npos > 2 else []
        self.elapsed = [0] + pick + [common - tfsec]
        self.elapsed = self.elapsed[:npos] if npos >= 2 else [0]
        if npos >= 2:
            self.elapsed[-1] = common - tfsec
        res_ns = tfsec * 10 ** 9 / 2 ** 32
        self.res_ns = res_ns
        tfns = tfsec * 10 ** 9
        # offset classes inside an interval, increasing, avoiding the last 5 ns of any second (known decode defect,
        # handled by the dedicated edge class in the variable check)
        cand = sorted({0, 1, tfns // 4 + 3, tfns // 2, (tfns // 3) // 10 ** 9 * 10 ** 9 if tfns > 3 * 10 ** 9 else 7, tfns - 10,
                       rng.randrange(0, tfns - 10)})
        cand = [c for c in cand if 0 <= c < tfns and not (10 ** 9 - 6 < c % 10 ** 9)]
        # classes must be distinguishable after decoding: at least 2 resolution steps apart
        offs = []
        for c in cand:
            if not offs or c - offs[-1] > 2 * res_ns + 2:
                offs.append(c)
        if len(offs) < no:
            raise Undecided("cannot build %d offset classes for %s" % (no, tfname))
        idx = sorted(rng.sample(range(len(offs)), no))
        self.offs = [offs[k] for k in idx]
        if no >= 1 and kind == "variable" and rng.random() < 0.5:
            self.offs[0] = 0
        self.vperm = rng.sample(range(3), 3)

    def iv_epoch(self, i):
        if i <= self.ni0:
            return year_start(self.y0) + self.elapsed[i - 1]
        return year_start(self.y1) + self.elapsed[i - self.ni0 - 1]

    def row_time(self, r):
        ns = self.offs[r["o"]] if self.kind == "variable" else 0
        return self.iv_epoch(r["i"]) + ns // 10 ** 9, ns % 10 ** 9

    def vals(self, v):
        return [TYPE_VALUES[t][self.vperm[(v - 1) % 3]] for _, t in self.schema]

    def cols(self, rows):
        cols = [{"name": "Epoch", "type": "i8", "vals": [self.row_time(r)[0] for r in rows]}]
        for k, (n, t) in enumerate(self.schema):
            cols.append({"name": n, "type": t, "vals": [self.vals(r["v"])[k] for r in rows]})
        if self.kind == "variable":
            cols.append({"name": "Nanoseconds", "type": "i4", "vals": [self.row_time(r)[1] for r in rows]})
        return cols

    def describe(self):
        return {"tf": self.tf, "years": [self.y0, self.y1], "elapsed_s": self.elapsed, "offs_ns": self.offs,
                "schema": self.schema, "kind": self.kind}


def result_rows(obs, key, schema, kind):
    """query observation -> list of (epoch, nanos, [values]) or an error string"""
    if isinstance(obs, dict) and obs.get("panic"):
        return "panic: " + obs["panic"]
    if obs.get("err"):
        if "no files returned" in obs["err"] or "No files returned" in obs["err"]:
            return []
        return "error: " + str(obs["err"])
    res = obs.get("result") or {}
    if not res:
        return []
    cols = None
    for k, v in res.items():
        if k.split(":")[0] == key:
            cols = v
    if cols is None:
        return "error: key %s not in result %s" % (key, list(res))
    if not cols:
        return []
    by = {c["name"]: c["vals"] for c in cols}
    names = [c["name"] for c in cols]
    want = ["Epoch"] + [n for n, _ in schema] + (["Nanoseconds"] if kind == "variable" else [])
    if names != want:
        return "error: columns %s, expected %s" % (names, want)
    n = len(by["Epoch"])
    out = []
    for k in range(n):
        out.append((by["Epoch"][k], by["Nanoseconds"][k] if kind == "variable" else 0, [by[c][k] for c, _ in schema]))
    return out


def fvals_equal(a, b, schema):
    for x, y, (_, t) in zip(a, b, schema):
        if t == "f4":
            import struct
            if struct.pack("<f", x) != struct.pack("<f", y):
                return False
        elif x != y:
            return False
    return True


def match_fixed(real, want_rows, c):
    """exact equality with the abstract read: one row per interval ascending, stamped with interval start"""
    if isinstance(real, str):
        return False
    if len(real) != len(want_rows):
        return False
    for (ep, ns, vals), r in zip(real, want_rows):
        if ep != c.iv_epoch(r["i"]) or ns != 0 or not fvals_equal(vals, c.vals(r["v"]), c.schema):
            return False
    return True


def match_variable(real, want_rows, c, late=()):
    """every record exactly once, non-decreasing time, values equal, time within one resolution step below the
    written time and inside the interval"""
    if isinstance(real, str):
        return False
    if len(real) != len(want_rows):
        return False
    times = [ep * 10 ** 9 + ns for ep, ns, _ in real]
    if any(times[k] > times[k + 1] for k in range(len(times) - 1)):
        return False
    unused = list(range(len(want_rows)))
    tfns = c.tfsec * 10 ** 9
    for (ep, ns, vals) in real:
        t = ep * 10 ** 9 + ns
        hit = None
        for u in unused:
            r = want_rows[u]
            ivs = c.iv_epoch(r["i"]) * 10 ** 9
            wt = ivs + c.offs[r["o"]]
            if wt - c.res_ns - 1 < t <= wt and ivs <= t < ivs + tfns and fvals_equal(vals, c.vals(r["v"]), c.schema):
                hit = u
                break
        if hit is None:
            return False
        unused.remove(hit)
    return True


FINDING_OF_DEV = {"DailyJan1Hole": "KF-C08-1", "PrevYearStale": "KF-C08-2"}


def run(prop, tier):
    kind = "fixed" if prop == "C08" else "variable"
    res = Result(prop, tier)
    rng = random.Random(vlib.seed() * 7919 + (8 if kind == "fixed" else 9))
    binary = vlib.build_harness()
    devs = '{"DailyJan1Hole"}'
    known = {k["id"]: k for k in vlib.known_findings(prop)}
    quick = tier == "quick"

    # ---------------- E1: exhaustive model check of the refinement, both timeframe classes -----------------
    ni0, ni1 = 3, 2
    no = 1 if kind == "fixed" else 2
    nv = 2
    mc_rows, mc_depth = (3, 2) if kind == "fixed" else (3, 1)
    if not quick:
        mc_rows, mc_depth = (3, 3) if kind == "fixed" else (3, 2)
    for tfc in ("intraday", "daily"):
        cfg = "Store_%s_%s_mc.cfg" % (kind, tfc)
        consts = dict(NI0=ni0, NI1=ni1, NV=nv, NO=no, Kind='"%s"' % kind, TfClass='"%s"' % tfc, MaxRows=mc_rows,
                      Depth=mc_depth, Deviations=devs)
        r = vlib.run_tlc("Store", cfg, timeout=1500,
                         cfg_text=vlib.cfg_text(consts, invariants=["ImplRefinesAbs", "DeviationsExplainAll"], view="View"))
        vlib.tlc_ok(r, cfg)
        if r["violated"]:
            raise Undecided("MODEL-DRIFT: %s violates %s in the pure model\n%s" % (cfg, r["violated"], r["out"][-3000:]))
        res.tlc(r, cfg)

    # ---------------- E2: TLC behaviours replayed into the real code, every timeframe -----------------
    nbeh = (14 if quick else 150)
    depth = 3
    cases, meta = [], {}
    root = os.path.join(vlib.scratch(), "root_%s" % prop)
    cases.append({"id": "start", "ops": [{"op": "start", "root": root}]})
    sym = 0
    for tfname, tfsec in TIMEFRAMES:
        tfc = "daily" if tfname == "1D" else "intraday"
        cfg = "Store_%s_%s_sim.cfg" % (kind, tfc)
        consts = dict(NI0=ni0, NI1=ni1, NV=nv, NO=no, Kind='"%s"' % kind, TfClass='"%s"' % tfc, MaxRows=3,
                      Depth=depth, Deviations=devs)
        r = vlib.run_tlc("Store", cfg, simulate=nbeh, depth=depth + 2, seed_=rng.randrange(1, 2 ** 31), workers=1, timeout=600,
                         cfg_text=vlib.cfg_text(consts, invariants=["Emit"], view="View"))
        vlib.tlc_ok(r, cfg)
        behs = r["records"].get("BEH", [])
        if len(behs) < nbeh // 2:
            raise Undecided("TLC produced only %d behaviours for %s" % (len(behs), cfg))
        for beh in behs:
            sym += 1
            schema = SCHEMAS[sym % len(SCHEMAS)]
            c = Concretisation(rng, tfname, tfsec, ni0, ni1, no, schema, kind)
            key = "S%d/%s/G" % (sym, tfname)
            ops = []
            explicit_create = sym % 2 == 0
            if explicit_create:
                ops.append({"op": "create", "key": key + ":Symbol/Timeframe/AttributeGroup", "names": [n for n, _ in schema],
                            "types": [t for _, t in schema], "var": kind == "variable"})
            for st in beh:
                ops.append({"op": "write", "var": kind == "variable", "buckets": [{"key": key, "cols": c.cols(st["rows"])}]})
                ops.append({"op": "query", "dest": key})
            cid = "b%d" % sym
            cases.append({"id": cid, "ops": ops})
            meta[json.dumps(cid)] = (beh, c, key, explicit_create)
    obs = vlib.run_cases(binary, cases, timeout=3000)
    shutil.rmtree(root, ignore_errors=True)
    match = match_fixed if kind == "fixed" else match_variable
    nontrivial = set()
    for cid, (beh, c, key, explicit_create) in meta.items():
        o = obs.get(cid)
        replay = {"check": "store", "prop": prop, "concretisation": c.describe(), "key": key, "behaviour": beh,
                  "ops": [x for x in cases if json.dumps(x["id"]) == cid][0]["ops"], "seed": vlib.seed()}
        if o is None:
            raise Undecided("no observation for case %s" % cid)
        if isinstance(o, dict) and "died" in o:
            res.violation("server process died (%s) during write/query history on %s: %s" % (o["died"], key, o["stderr"][-500:]), replay)
            continue
        base = 1 if explicit_create else 0
        if explicit_create and o[0].get("err"):
            raise Undecided("create failed: %s" % o[0])
        res.cov["traces_validated_against_impl"] += 1
        for k, st in enumerate(beh):
            w, q = o[base + 2 * k], o[base + 2 * k + 1]
            if w.get("driver_error"):
                raise Undecided("driver error: %s" % w)
            if w.get("panic") or w.get("err"):
                res.violation("successful-by-contract write failed on %s step %d: %s" % (key, k, w), replay)
                break
            real = result_rows(q, key, c.schema, kind)
            nontrivial.add(json.dumps(st["rows"], sort_keys=True) + c.tf)
            if match(real, st["expect"], c):
                continue
            hit = st["hit"]
            if hit and match(real, st["known"], c):
                for d in hit:
                    fid = FINDING_OF_DEV[d]
                    if fid in known:
                        res.known_finding(known[fid], {"tf": c.tf, "rows": st["rows"], "years": [c.y0, c.y1]})
                    else:
                        res.violation("deviation %s observed but not listed as known: step %d on %s; got %s, property demands %s" % (
                            d, k, key, real, st["expect"]), replay)
                continue
            res.violation("query after step %d on %s (%s, %s) returned %s; the property demands rows %s (concretised: %s)" % (
                k, key, c.tf, kind, str(real)[:600], st["expect"],
                [(c.row_time(r), c.vals(r["v"])) for r in st["expect"]][:8]), replay)
            break
        res.sample({"key": key, "concretisation": c.describe(), "behaviour": [s["rows"] for s in beh]}, limit=3)
    res.cov["distinct_requests_replayed"] = len(nontrivial)
    res.cov["timeframes"] = [t for t, _ in TIMEFRAMES]
    res.assumptions += ["time zone UTC", "values are per-type boundary values attached to %d model value ids" % nv,
                        "interval ids are concretised to first/last interval of the year and seeded boundary intervals"]
    return res.finish()
