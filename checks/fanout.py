"""C26: replication survives replicas connecting and disconnecting.

ReplFanout.tla (Go channel / map semantics of the fan-out) is model-checked; its behaviours are forced on the real
GRPCReplicationServer + Sender goroutines (in-process fake streams) by the gate player; a free-running execution is
run under the race detector."""
PROPS = ["C26"]
READY = True
CLAIMS = {
 "C26": dict(technique="TLC model checking of ReplFanout.tla (Go channel and map semantics of the replication fan-out, one action per hook-to-hook segment of the stream handlers and of the fan-out goroutine) + TLC behaviours forced on the real GRPCReplicationServer / Sender goroutines by the gate player + free-running connect/disconnect stress under the race detector",
             text="ReplFanout.tla models GetWALStream (insert into the stream map, serve, notice the dead stream, remove the entry) and Sender.Run / SendReplicationMessage (range over the map, send per replica) with Go semantics (send on a closed channel panics, a map written while iterated is a race). TLC checks exhaustively for 2 replicas and 3 transactions NoSendOnClosed, NoMapRace, ReceivedInCommitOrder, ConnectedGetAll and the action property PrefixStable for the synchronised design, and shows that the unsynchronised design (deviation NoLock, the tree before fix d0ac6bd) violates the first two. TLC-simulated behaviours (connects, stream failures, commits, fan-out steps in every order) are executed by the real goroutines in TLC's order with in-process fake gRPC streams (two replicas behind ONE IP address, distinct ports); at the end each replica's received sequence must be in commit order and contain every transaction committed while it was connected and healthy; a panic of the sender goroutine, a hang or a race report is a violation. ReplStall.tla adds what the hand-over abstraction hides - bounded stream channels, the bounded sender channel, stalled replicas, the `done` signal and the lock order of the tear-down: TLC checks NeverStuck and, under fairness, the liveness properties MasterProgresses and HealthyGetAll for the design, and finds the fan-out stuck for ever when the tear-down takes the map lock before it closes `done`; the environment steps of that counterexample (connect, stall, commits, connection failure - and the variant in which the stalled replica resumes) are run on the real goroutines with the commits scaled to the real channel sizes read from the tree: afterwards the sender must still accept transactions and the healthy replica must have every one of them in order.",
             note="Trusted: TLC, fake in-process streams instead of gRPC transport, the gate player. Bounded: 2 replicas, 3 transactions per behaviour; the order in which Go ranges over the stream map cannot be forced (schedules assuming the other order are drift). Stress: 3 replicas, 40 (quick) / 300 (thorough) transactions under -race."),
}

import json, os, random, shutil
import vlib
from vlib import Result, Undecided

GATED = ["Repl.inserted", "Repl.beforeDelete", "Repl.deleted", "Repl.closed", "Repl.fanout.enter", "Repl.fanout.beforeSend", "Repl.fanout.done", "Stream.send"]


def to_schedule(beh):
    steps, actors = [], {}
    n = 0
    fan = {"at": "waiting", "q": 0}     # where the real fan-out goroutine is: waiting | enter | before | done

    def to_enter():
        # the fan-out goroutine takes the next queued transaction and parks at the entry of SendReplicationMessage
        if fan["at"] == "done":
            steps.append({"actor": "fan", "until": "Repl.fanout.enter", "label": "FanTakesNext"})
            fan["at"] = "enter"
            fan["q"] -= 1

    for st in beh["steps"]:
        p, a, u = st["proc"], st["act"], st["until"]
        if a == "Connect":
            actors[p] = [{"op": "fan_serve", "x": {"r": p}}]
            steps.append({"actor": p, "until": "Repl.inserted", "label": a})
            steps.append({"actor": p, "until": "blocked", "label": "Serving", "wait_ms": 40})
        elif a == "Fail":
            n += 1
            actors["env%d" % n] = [{"op": "fan_fail", "x": {"r": u}}]
            steps.append({"actor": "env%d" % n, "until": "done", "label": "Fail " + u})
        elif a == "Commit":
            n += 1
            actors["src%d" % n] = [{"op": "fan_send", "x": {"msg": len([s for s in steps if s["label"] == "Commit"]) + 1}}]
            steps.append({"actor": "src%d" % n, "until": "done", "label": "Commit"})
            fan["q"] += 1
            if fan["at"] == "waiting":
                steps.append({"actor": "fan", "until": "Repl.fanout.enter", "label": "FanWakes"})
                fan["at"] = "enter"
                fan["q"] -= 1
        elif a == "FanNext":      # no replica in the map: the message is dropped
            to_enter()
            steps.append({"actor": "fan", "until": "Repl.fanout.done", "label": "FanNext(empty map)"})
            fan["at"] = "done"
        elif a == "FanPick":
            to_enter()
            steps.append({"actor": "fan", "until": "Repl.fanout.beforeSend", "arg": u, "label": "FanPick"})
            fan["at"] = "before"
        elif a in ("FanSend", "FanSendPick"):
            if u == "PANIC":
                steps.append({"actor": "fan", "until": "PANIC", "label": "FanSend(closed channel)"})
                break
            # the send itself; the fan-out then parks before the next replica's send or after it has released the map
            steps.append({"actor": "fan", "until": ("Repl.fanout.done" if a == "FanSend" else "Repl.fanout.beforeSend"), "label": "FanSend",
                          **({"arg": u} if a == "FanSendPick" else {})})
            fan["at"] = "done" if a == "FanSend" else "before"
            # the held replica's handler takes the message from its channel and calls stream.Send
            if st["out"] in ("deliver", "fail"):
                steps.append({"actor": st["r"], "until": "Stream.send", "label": "HandlerTakes"})
                if st["out"] == "deliver":
                    steps.append({"actor": st["r"], "until": "blocked", "label": "Delivered", "wait_ms": 40})
                else:
                    steps.append({"actor": st["r"], "until": "Repl.beforeDelete", "label": "NoticeDeadStream"})
        elif a == "Delete":
            steps.append({"actor": p, "until": "Repl.deleted", "label": a})
        elif a == "Close":
            steps.append({"actor": p, "until": "Repl.closed", "label": a})
            steps.append({"actor": p, "until": "done", "label": "HandlerReturns"})
    return steps, actors


def real_caps():
    """buffer sizes of the real channels, read from the tree under test"""
    import re
    out = {"stream": 500, "sender": 500}
    for key, fn, name in (("stream", "replication/grpc_server.go", "defaultReplicationStreamChannelSize"), ("sender", "replication/sender.go", "defaultSenderChannelSize")):
        try:
            m = re.search(name + r"\s*=\s*(\d+)", open(os.path.join(vlib.REPO, fn)).read())
            if m:
                out[key] = int(m.group(1))
        except OSError:
            pass
    return out


def stalled_replicas(res, binary, quick):
    """ReplStall.tla: bounded channels, stalled replicas, the done signal and the lock order of the tear-down.  TLC checks
    NeverStuck (safety) and MasterProgresses / HealthyGetAll (liveness under fairness) for the design and shows that the tear-down
    order 'lock first' gets stuck; the counterexample's environment steps (connects, stall, commits, connection failure) are then
    run against the real goroutines with the commits scaled to the real channel sizes."""
    base = dict(Replicas='{"10.0.0.7:40001","10.0.0.7:40002"}', NMsg=3 if quick else 4, Cap=1, QCap=1 if quick else 2, Deviations="{}", RecordHist="TRUE")
    r = vlib.run_tlc("ReplStall", "rs_safe.cfg", cfg_text=vlib.cfg_text(base, invariants=["NeverStuck", "ReceivedInCommitOrder"], view="View"), timeout=1800)
    vlib.tlc_ok(r, "ReplStall safe")
    res.tlc(r, "ReplStall/pure/NeverStuck")
    if r["violated"]:
        raise Undecided("MODEL-DRIFT: ReplStall.tla (pure) violates %s" % r["violated"])
    live = dict(base, NMsg=3, QCap=1, RecordHist="FALSE")
    r = vlib.run_tlc("ReplStall", "rs_live.cfg", cfg_text=vlib.cfg_text(live, spec="LiveSpec", properties=["MasterProgresses", "HealthyGetAll"]), timeout=1800)
    vlib.tlc_ok(r, "ReplStall live")
    res.tlc(r, "ReplStall/pure/liveness")
    if r["violated"]:
        raise Undecided("MODEL-DRIFT: ReplStall.tla (pure) violates liveness %s" % r["violated"])
    r = vlib.run_tlc("ReplStall", "rs_dev.cfg", cfg_text=vlib.cfg_text(dict(base, NMsg=4, QCap=2, Deviations='{"LockFirst"}'), invariants=["EmitStuck", "NeverStuck"], view="View"), timeout=900)
    res.tlc(r, "ReplStall/LockFirst/NeverStuck(expected to fail)")
    stuck = r["records"].get("STUCK", [])
    if not r["violated"] or not stuck:
        raise Undecided("MODEL-DRIFT: LockFirst no longer gets the fan-out stuck in ReplStall.tla")
    caps = real_caps()
    res.cov["real_channel_sizes"] = caps
    steps = stuck[0]["steps"]
    mcap = stuck[0]["cap"]
    # environment steps of the counterexample; commits issued while a replica is stalled are scaled to the real buffer size
    reps = []
    for st in steps:
        if st["act"] == "Connect" and st["r"] not in reps:
            reps.append(st["r"])
    stalled_r = [st["r"] for st in steps if st["act"] == "Stall"]
    failed_r = [st["r"] for st in steps if st["act"] == "Fail"]
    # the replica the fan-out is stuck behind: its handler was slow (in the model: simply not scheduled, or stalled) while its
    # channel filled up, and its connection broke.  On the real code "slow for 500 transactions" is a stall.
    if not failed_r:
        raise Undecided("the stuck counterexample has no replica that disconnects: %s" % [(s["act"], s["r"]) for s in steps])
    victim = stalled_r[0] if stalled_r and stalled_r[0] in failed_r else failed_r[0]
    healthy = [x for x in reps if x != victim] or ["10.0.0.7:40009"]
    if healthy[0] not in reps:
        reps.append(healthy[0])
    n_after_model = 0
    seen_stall = False
    n_before = 0
    for st in steps:
        if st["act"] in ("Stall", "Fail") and st["r"] == victim:
            seen_stall = True
        elif st["act"] == "Commit":
            if seen_stall:
                n_after_model += 1
            else:
                n_before += 1
    # the model needs 1 (in Send) + Cap (buffered) + 1 (fan-out blocked) commits to block; the real channels need caps["stream"] + 2
    n_after = caps["stream"] + 2 + min(100, caps["sender"] // 2)
    scenarios = []
    for variant in ("disconnects", "resumes"):
        ops = [{"op": "fan_start"}] + [{"op": "fan_serve_bg", "x": {"r": a}} for a in reps] + [{"op": "sleep", "sleep_ms": 60}]
        ops += [{"op": "fan_send_many", "x": {"msg": 1, "n": n_before}}] if n_before else []
        ops += [{"op": "fan_wait", "x": {"r": healthy[0], "n": n_before, "ms": 3000}}]
        ops += [{"op": "fan_stall", "x": {"r": victim}}, {"op": "fan_send_many", "x": {"msg": 1 + n_before, "n": n_after}}, {"op": "sleep", "sleep_ms": 150},
                {"op": "fan_state", "x": {"ms": 0}}]
        ops += [{"op": "fan_fail" if variant == "disconnects" else "fan_unstall", "x": {"r": victim}}]
        total = n_before + n_after
        ops += [{"op": "fan_wait", "x": {"r": healthy[0], "n": total, "ms": 25000}},
                {"op": "fan_send_many", "x": {"msg": total + 1, "n": 3, "ms": 10000}},
                {"op": "fan_wait", "x": {"r": healthy[0], "n": total + 3, "ms": 15000}}]
        if variant == "resumes":
            ops += [{"op": "fan_wait", "x": {"r": victim, "n": total + 3, "ms": 15000}}]
        ops += [{"op": "fan_state", "x": {"ms": 0}}, {"op": "fan_stop"}]
        scenarios.append({"id": "stall-" + variant, "ops": ops})
    obs = vlib.run_cases(binary, scenarios, timeout=400, tag="c26stall")
    for sc in scenarios:
        variant = sc["id"].split("-")[1]
        o = obs.get(json.dumps(sc["id"]))
        replay = {"check": "fanout.stall", "scenario": sc["id"], "ops": sc["ops"], "model_counterexample": [(s["act"], s["r"]) for s in steps]}
        what = "a replica (%s) stalls until its stream channel is full (%d transactions committed meanwhile) and then %s" % (
            victim, n_after, "its connection breaks" if variant == "disconnects" else "resumes")
        if o is None:
            raise Undecided("no observation for %s" % sc["id"])
        if isinstance(o, dict) and "died" in o:
            res.violation("%s: the master died: %s" % (what, ((o.get("stderr") or "") + (o.get("stdout") or ""))[-400:]), replay)
            continue
        total = n_before + n_after
        sends = [x for x in o if isinstance(x, dict) and "accepted" in x]
        waits = [x for x in o if isinstance(x, dict) and "reached" in x]
        final = [x for x in o if isinstance(x, dict) and "received" in x][-1]["received"]
        hgot = final.get(healthy[0], [])
        if any(x.get("blocked") for x in sends):
            res.violation("%s: the master is blocked - the replication sender no longer accepts committed transactions (healthy replica %s has %d of %d)" % (
                what, healthy[0], len(hgot), total + 3), replay)
        elif hgot != list(range(1, total + 4)):
            missing = [m for m in range(1, total + 4) if m not in hgot]
            if not missing and len(hgot) == total + 3:
                k = next(i for i in range(len(hgot) - 1) if hgot[i] > hgot[i + 1])
                res.violation("%s: replica %s received every transaction but NOT in commit order (e.g. %s at positions %d.. of its stream)" % (
                    what, healthy[0], hgot[max(0, k - 1):k + 3], max(0, k - 1)), replay)
            else:
                res.violation("%s: replica %s stayed connected and healthy but received %d of %d transactions (missing e.g. %s; in order: %s)" % (
                    what, healthy[0], len(hgot), total + 3, missing[:5], hgot == sorted(hgot)), replay)
        elif variant == "resumes" and final.get(victim, []) != list(range(1, total + 4)):
            vg = final.get(victim, [])
            res.violation("%s: the resumed replica received %d of %d transactions (in order: %s)" % (what, len(vg), total + 3, vg == sorted(vg)), replay)
        else:
            res.cov["traces_validated_against_impl"] += 1
        res.sample({"scenario": sc["id"], "committed": total + 3, "healthy_received": len(hgot), "victim_received": len(final.get(victim, []))}, limit=4)


def run(prop, tier):
    res = Result(prop, tier)
    rng = random.Random(vlib.seed() * 67867967 + 26)
    binary = vlib.build_harness(cmd="mv_fanout")
    quick = tier == "quick"
    known = {k["deviation"]: k for k in vlib.known_findings(prop)}
    reps = '{"10.0.0.7:40001","10.0.0.7:40002"}'    # two replicas behind one IP address: distinct streams all the same
    base = dict(Replicas=reps, NMsg=3, Deviations="{}")
    r = vlib.run_tlc("ReplFanout", "rf_pure.cfg", cfg_text=vlib.cfg_text(base, invariants=["NoSendOnClosed", "NoMapRace", "ReceivedInCommitOrder", "ConnectedGetAll"],
                                                                       view="View", properties=["PrefixStable"]), timeout=1800, coverage=not quick)
    vlib.tlc_ok(r, "ReplFanout pure")
    res.tlc(r, "ReplFanout/pure")
    if r["violated"]:
        raise Undecided("MODEL-DRIFT: ReplFanout.tla (pure) violates %s" % r["violated"])
    for inv in ("NoSendOnClosed", "NoMapRace"):
        r = vlib.run_tlc("ReplFanout", "rf_dev.cfg", cfg_text=vlib.cfg_text(dict(base, Deviations='{"NoLock"}'), invariants=[inv], view="View"), timeout=900)
        res.tlc(r, "ReplFanout/NoLock/%s(expected to fail)" % inv)
        if not r["violated"]:
            raise Undecided("MODEL-DRIFT: NoLock no longer breaks %s in the model" % inv)
    # behaviours: ordinary complete ones, and the ones that end in the panic
    nb = 40 if quick else 400
    cons = dict(base, Deviations=('{"NoLock"}' if "NoLock" in known else "{}"))
    r = vlib.run_tlc("ReplFanout", "rf_sim.cfg", cfg_text=vlib.cfg_text(cons, invariants=["Emit", "EmitPanic"], view="View"), simulate=nb * 3, depth=60,
                     seed_=rng.randrange(1, 2 ** 31), workers=1, timeout=900)
    vlib.tlc_ok(r, "ReplFanout simulate")
    res.tlc(r, "ReplFanout/simulate")
    good = list({json.dumps(b): b for b in r["records"].get("BEH", [])}.values())
    bad = list({json.dumps(b): b for b in r["records"].get("BAD", [])}.values())
    rng.shuffle(good)
    rng.shuffle(bad)
    behs = bad[:nb // 4] + good[:nb - min(len(bad), nb // 4)]
    if not behs:
        raise Undecided("no behaviours from TLC")
    cases, meta = [], {}
    for bi, beh in enumerate(behs):
        sched, actors = to_schedule(beh)
        expect_panic = bool(sched and sched[-1]["until"] == "PANIC")
        if expect_panic:
            sched[-1]["until"] = "Repl.fanout.done"      # if the code survives, this is where the fan-out arrives
        ops = [{"op": "fan_start"},
               {"op": "play", "x": {"actors": actors, "gated": GATED, "schedule": sched, "timeout_ms": 400,
                                    "background": {"Repl.fanout.": "fan"}, "finish": False}},
               {"op": "fan_state", "x": {"ms": 30}}, {"op": "fan_stop"}]
        cases.append({"id": bi, "ops": ops})
        meta[json.dumps(bi)] = (beh, sched, expect_panic)
    obs = vlib.run_cases(binary, cases, timeout=(900 if quick else 5400), tag="c26")
    played = drifts = 0
    for cid, (beh, sched, expect_panic) in meta.items():
        o = obs.get(cid)
        replay = {"check": "fanout", "schedule": sched, "model": beh["steps"], "seed": vlib.seed()}
        short = [(s["actor"], s["label"]) for s in sched]
        if o is None:
            raise Undecided("no observation")
        if isinstance(o, dict) and "died" in o:
            txt = (o.get("stderr") or "") + (o.get("stdout") or "")
            if "send on closed channel" in txt:
                if expect_panic and "NoLock" in known:
                    res.known_finding(known["NoLock"], {"schedule": short, "panic": "send on closed channel (Sender.Run goroutine: the master dies)"})
                    played += 1
                    res.cov["traces_validated_against_impl"] += 1
                else:
                    res.violation("the master panicked with 'send on closed channel' in a schedule where the model does not predict it: %s" % short, replay)
            elif "concurrent map" in txt:
                if "NoLock" in known:
                    res.known_finding(known["NoLock"], {"schedule": short, "fatal": "concurrent map iteration and map write"})
                else:
                    res.violation("fatal error: concurrent map access in the fan-out: %s" % short, replay)
            else:
                res.violation("the master died during a connect/disconnect schedule: %s" % txt[-400:], replay)
            continue
        play = o[1]
        if play.get("driver_error") or play.get("panic"):
            raise Undecided("player failed: %s" % str(play)[:300])
        if play["drift"]:
            drifts += 1
            res.cov.setdefault("drift_examples", [])
            if len(res.cov["drift_examples"]) < 3:
                res.cov["drift_examples"].append(play["drift"])
            continue
        played += 1
        res.cov["traces_validated_against_impl"] += 1
        if expect_panic:
            continue       # the code survived a schedule in which the model (with the known deviation) panics: fine
        real = o[2].get("received", {})
        for rname, msgs in beh["got"].items():
            rg = real.get(rname, [])
            if any(rg[i] >= rg[i + 1] for i in range(len(rg) - 1)):
                res.violation("replica %s received transactions out of commit order: %s (schedule %s)" % (rname, rg, short), replay)
            elif rg != msgs:
                # every message the model says a connected replica gets must be there
                missing = [m for m in msgs if m not in rg]
                if missing:
                    res.violation("replica %s, connected throughout, did not receive committed transaction(s) %s (got %s; schedule %s)" % (
                        rname, missing, rg, short), replay)
        res.sample({"schedule": short, "received": real}, limit=2)
    res.cov["schedules_played"] = played
    res.cov["schedules_infeasible_on_real_code"] = drifts
    too_few = played < max(3, len(meta) // 4)
    # ---- free-running connect / disconnect under the race detector ----
    rbin = vlib.build_harness(race=True, cmd="mv_fanout")
    actors = {}
    for k in range(3):
        actors["h%d" % k] = [{"op": "fan_serve_bg", "x": {"r": "10.0.0.9:5000%d" % k}}]
        actors["f%d" % k] = [{"op": "sleep", "sleep_ms": 3 + 2 * k}, {"op": "fan_fail", "x": {"r": "10.0.0.9:5000%d" % k}}]
    # two replicas behind the same IP address that never fail: connected before the first commit, they are owed everything
    steady = ["10.0.0.9:51000", "10.0.0.9:51001"]
    nmsg = 40 if quick else 250
    actors["src"] = [{"op": "fan_serve_bg", "x": {"r": a}} for a in steady] + [{"op": "sleep", "sleep_ms": 60}]
    for m in range(nmsg):
        actors["src"] += [{"op": "fan_send", "x": {"msg": m + 1}}, {"op": "sleep", "sleep_ms": 1}]
    actors["src"] += [{"op": "sleep", "sleep_ms": 150}, {"op": "fan_state", "x": {"ms": 0}}]
    for a in steady:       # let their handlers return at the end
        actors["src"] += [{"op": "fan_fail", "x": {"r": a}}]
    actors["src"] += [{"op": "fan_send", "x": {"msg": 255}}]
    ops = [{"op": "fan_start"}, {"op": "par", "x": {"actors": {k: v for k, v in actors.items() if not k.startswith("h")}}}]
    # handlers must run concurrently with the rest: start them inside the same par
    ops = [{"op": "fan_start"}, {"op": "par", "x": {"actors": actors}}, {"op": "fan_stop"}]
    env = dict(vlib.GOENV, GORACE="halt_on_error=0 exitcode=0")
    robs = vlib.run_cases(rbin, [{"id": "race", "ops": ops}], timeout=120, env=env, tag="c26race", stderr_tail=4000000)
    stderr = robs.get("_stderr", "")
    o = robs.get(json.dumps("race"))
    import readers
    races = readers.parse_races(stderr)
    res.cov["race_reports"] = len(races)
    if isinstance(o, dict) and "died" in o:
        txt = (o.get("stderr") or "")
        if ("send on closed channel" in txt or "concurrent map" in txt) and "NoLock" in known:
            res.known_finding(known["NoLock"], {"stress": True, "death": txt[-200:]})
        else:
            res.violation("the master died under free-running connect/disconnect: %s" % txt[-500:], {"check": "fanout.stress"})
    if not (isinstance(o, dict) and "died" in o):
        try:
            state = [x for x in o[1]["actors"]["src"] if "received" in x][0]["received"]
        except Exception:
            raise Undecided("stress run returned no state: %s" % str(o)[:300])
        for a in steady:
            got = state.get(a, [])
            want = list(range(1, nmsg + 1))
            if any(got[i] >= got[i + 1] for i in range(len(got) - 1)):
                res.violation("free-running: replica %s received transactions out of commit order: %s" % (a, got[:60]), {"check": "fanout.stress", "seed": vlib.seed()})
            elif got != want:
                res.violation("free-running: replica %s stayed connected (from before the first commit) but received %d of %d transactions: missing e.g. %s" % (
                    a, len(got), nmsg, [m for m in want if m not in got][:10]), {"check": "fanout.stress", "seed": vlib.seed()})
        res.cov["traces_validated_against_impl"] += 1
    stalled_replicas(res, binary, quick)
    for sig, text in races.items():
        if "GRPCReplicationServer" in sig and "NoLock" in known:
            res.known_finding(known["NoLock"], {"race": sig})
        else:
            res.violation("data race in the replication fan-out: %s\n%s" % (sig, text[:1200]), {"check": "fanout.race", "signature": sig})
    res.assumptions += ["fake in-process streams stand for gRPC streams; a replica 'disconnects' by making its stream's Send fail",
                        "the order in which Go ranges over the stream map cannot be forced: schedules that assume another order are reported as drift"]
    if too_few and not res.violations:
        raise Undecided("only %d of %d schedules could be forced: %s" % (played, len(meta), res.cov.get("drift_examples")))
    return res.finish()
