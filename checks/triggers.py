"""C32: every flushed write reaches matching triggers exactly once.

Triggers.tla (write channel -> transaction group -> dispatcher map -> dispatcher channel -> matcher -> Fire) is
model-checked; its behaviours (which client requests end up in which transaction group, in which order groups are
dispatched and received) are forced on the real writers, the real SyncWAL loop and the real dispatcher goroutine by
the gate player, with recording triggers installed through trigger.NewMatcher in the server's own dispatcher."""
PROPS = ["C32"]
READY = True
CLAIMS = {
 "C32": dict(technique="TLC model checking of Triggers.tla (write channel, transaction groups, dispatcher map and channel, matcher; invariants ExactlyOnce / NoForeign / AtMostOnce / MapDrained) + TLC behaviours forced on the real writer goroutines, SyncWAL loop and TriggerPluginDispatcher.run by the gate player, with recording triggers in the real dispatcher + free-running concurrent writers under the race detector",
             text="Triggers.tla models WriteCSM queueing one write command per bucket and interval, RequestFlush / SyncWAL taking everything queued as one transaction group, FlushCommandsToWAL appending index+payload per file to the dispatcher map, the deferred DispatchRecords (map order, channel, map reset), run() receiving one file's records at a time and firing every trigger whose pattern matches. TLC checks exhaustively (3 clients, <=2 commands per request over 4 buckets x 2 intervals, 4 patterns incl. wildcards) that at quiescence every trigger has received every flushed record of a matching bucket exactly once and nothing else, at every moment at most once, and that the dispatcher map is drained. TLC-simulated behaviours are executed on a real instance started through the DI container with the real trigger dispatcher and SyncWAL goroutine: clients park after queueing (WriteCSM.beforeFlush), one is released to request the flush (that fixes the grouping into transaction groups), the loop parks before DispatchRecords and the dispatcher goroutine parks at every received item; recording triggers registered with trigger.NewMatcher report file key, interval index and payload of every record; the multiset per trigger must equal the written records of matching buckets (index recomputed from the timestamp, payload = the row without its epoch).",
             note="Trusted: TLC, the Python concretisation (patterns restricted to ones on which anchored and unanchored regexp matching agree), the recording trigger. Bounded: 3 clients, 4 fixed-length 1Min buckets, 2 intervals, 4 patterns in the forced schedules; variable-length records (several ticks per interval in one request, and two requests forced into one transaction group) in a sequential scenario judged by the same exactly-once oracle. Concurrent writers are interleaved at the hook points; the inline-flush mode without the background loop (BackgroundSync=false) is single-writer by design of the server and is not explored concurrently. Stress: 6 writers x 30 requests free-running with -race."),
}

import calendar, json, os, random, shutil, struct
import vlib
from vlib import Result, Undecided

CK = ":Symbol/Timeframe/AttributeGroup"
YEAR = 2021
BASE = calendar.timegm((YEAR, 5, 17, 9, 30, 0))
YSTART = calendar.timegm((YEAR, 1, 1, 0, 0, 0))
GATED = ["WriteCSM.beforeFlush", "Dispatcher.dispatch", "Dispatcher.recv"]
SYMS, AGS = ["A", "B"], ["X", "Y"]
PATTERNS = [("A", "X"), ("*", "X"), ("*", "*"), ("B", "*")]


def tla_tuple(t):
    return "<<" + ", ".join('"%s"' % x for x in t) + ">>"


def tlaset(xs):
    return "{" + ", ".join(xs) + "}"


def pat_str(p):
    return "%s/%s/%s" % (p[0], "1Min" if p[0] != "*" or p[1] != "*" else "*", p[1])


def bkey(b):
    return "%s/1Min/%s" % (b[0], b[1])


def value(cmd, clients):
    return 100000 * (clients.index(cmd["c"]) + 1) + 1000 * (SYMS.index(cmd["b"][0]) * 2 + AGS.index(cmd["b"][1]) + 1) + cmd["i"]


def epoch(i):
    return BASE + 60 * i


def index_of(ep):
    return 1 + (ep - YSTART) // 60


def write_op(reqcmds, clients):
    buckets = {}
    for cmd in reqcmds:
        b = buckets.setdefault(bkey(cmd["b"]), {"ep": [], "v": []})
        b["ep"].append(epoch(cmd["i"]))
        b["v"].append(value(cmd, clients))
    return {"op": "write", "via": "csm", "buckets": [{"key": k, "cols": [{"name": "Epoch", "type": "i8", "vals": v["ep"]}, {"name": "V", "type": "i8", "vals": v["v"]}]}
                                                     for k, v in sorted(buckets.items())]}


def to_schedule(beh):
    steps = []
    run_parked = False
    chan = 0
    for st in beh["steps"]:
        p, a = st["proc"], st["act"]
        if a == "Enqueue":
            steps.append({"actor": p, "until": "WriteCSM.beforeFlush", "label": a})
        elif a == "AskEmpty":
            steps.append({"actor": p, "until": "done", "label": a})
        elif a == "Ask":
            steps.append({"actor": p, "until": "blocked", "label": "Ask", "wait_ms": 60})
            steps.append({"actor": "loop", "until": "Dispatcher.dispatch", "label": "FlushedParksBeforeDispatch"})
            asker = p
        elif a == "Dispatch":
            n = len(st["x"])
            steps.append({"actor": "loop", "until": "blocked", "label": "Dispatch", "wait_ms": 60})
            steps.append({"actor": asker, "until": "done", "label": "AskerReturns"})
            if chan == 0 and n > 0 and not run_parked:
                steps.append({"actor": "run", "until": "Dispatcher.recv", "label": "RunTakesItem"})
                run_parked = True
            chan += n
        elif a == "Recv":
            chan -= 1
            if chan > 0:
                steps.append({"actor": "run", "until": "Dispatcher.recv", "label": "Recv(fire, take next)"})
            else:
                steps.append({"actor": "run", "until": "blocked", "label": "Recv(fire, channel empty)", "wait_ms": 60})
                run_parked = False
    return steps


def expected(all_cmds, clients):
    """property: per pattern the multiset of (file key, index, payload) of flushed records of matching buckets"""
    exp = {}
    for p in PATTERNS:
        items = []
        for cmd in all_cmds:
            b = cmd["b"]
            if (p[0] in ("*", b[0])) and (p[1] in ("*", b[1])):
                items.append(("%s/%d.bin" % (bkey(b), YEAR), index_of(epoch(cmd["i"])), struct.pack("<q", value(cmd, clients)).hex()))
        exp[pat_str(p)] = sorted(items)
    return exp


def compare(delivered, exp):
    bad = []
    for pat, want in exp.items():
        got = sorted((d["key"], d["index"], d["payload"]) for d in (delivered.get(pat) or []))
        if got == want:
            continue
        gl, wl = list(got), list(want)
        for x in list(gl):
            if x in wl:
                wl.remove(x)
                gl.remove(x)
        if wl:
            bad.append("trigger on %s never received %d record(s), e.g. %s" % (pat, len(wl), wl[0]))
        if gl:
            dup = [x for x in gl if x in want]
            if dup:
                bad.append("trigger on %s received a record more than once: %s" % (pat, dup[0]))
            other = [x for x in gl if x not in want]
            if other:
                bad.append("trigger on %s received a record it must not see (other bucket, wrong index or payload): %s" % (pat, other[0]))
    return bad


def variable_length_records(res, binary, rng, quick):
    """The model's record is one write command.  Variable-length buckets put SEVERAL records into one interval: requests whose
    ticks share intervals (one flush = several write commands with the same index for one file) must reach every matching trigger
    exactly once each, with their own payload."""
    root = os.path.join(vlib.scratch(), "c32_var")
    ops = [{"op": "trig_start", "x": {"root": root, "patterns": [pat_str(p) for p in PATTERNS], "loop_wal_ms": 5, "loop_prim_ms": 50}}]
    keys = [("A", "X"), ("B", "Y")]
    for b in keys:
        ops.append({"op": "create", "key": bkey(b) + CK, "names": ["V"], "types": ["i8"], "var": True})
    npre = len(ops)
    items = {pat_str(p): [] for p in PATTERNS}
    nreq = 6 if quick else 40
    val = 7000
    for k in range(nreq):
        b = keys[k % 2]
        i0 = 20 + 5 * k
        shape = rng.choice([[0, 0, 1], [0, 0, 0], [0, 1, 1, 1], [0, 0, 1, 1, 2]])      # interval offsets of the ticks, in time order
        ep, ns, vs = [], [], []
        for j, d in enumerate(shape):
            val += 1
            ep.append(epoch(i0 + d) + 3 * j)
            ns.append(1000 * (j + 1))
            vs.append(val)
            for p in PATTERNS:
                if (p[0] in ("*", b[0])) and (p[1] in ("*", b[1])):
                    items[pat_str(p)].append(("%s/%d.bin" % (bkey(b), YEAR), index_of(epoch(i0 + d)), struct.pack("<q", val).hex()))
        ops.append({"op": "write", "via": "csm", "var": True, "buckets": [{"key": bkey(b), "cols": [
            {"name": "Epoch", "type": "i8", "vals": ep}, {"name": "V", "type": "i8", "vals": vs}, {"name": "Nanoseconds", "type": "i4", "vals": ns}]}]})
    # ... and two writers whose requests are flushed as ONE transaction group (the first is held in front of its flush request
    # until the second has queued its commands): the group carries consecutive write commands for one interval of one file
    nplay = 3 if quick else 12
    for g in range(nplay):
        actors, sched = {}, []
        for a in range(2):
            val += 1
            i = 900 + g
            actors["v%d" % a] = [{"op": "write", "via": "csm", "var": True, "buckets": [{"key": bkey(keys[0]), "cols": [
                {"name": "Epoch", "type": "i8", "vals": [epoch(i) + 10 + a]}, {"name": "V", "type": "i8", "vals": [val]},
                {"name": "Nanoseconds", "type": "i4", "vals": [5000 + a]}]}]}]
            for p in PATTERNS:
                if (p[0] in ("*", keys[0][0])) and (p[1] in ("*", keys[0][1])):
                    items[pat_str(p)].append(("%s/%d.bin" % (bkey(keys[0]), YEAR), index_of(epoch(i)), struct.pack("<q", val).hex()))
            sched.append({"actor": "v%d" % a, "until": "WriteCSM.beforeFlush", "label": "Enqueue"})
        sched += [{"actor": "v0", "until": "done", "label": "Flush"}, {"actor": "v1", "until": "done", "label": "Return"}]
        ops.append({"op": "play", "x": {"actors": actors, "gated": ["WriteCSM.beforeFlush"], "schedule": sched, "timeout_ms": 3000}})
    ops.append({"op": "trig_state", "x": {"ms": 5000, "expect": sum(len(v) for v in items.values())}})
    ops.append({"op": "shutdown"})
    obs = vlib.run_cases(binary, [{"id": "var", "ops": ops}], timeout=300, tag="c32var")
    shutil.rmtree(root, ignore_errors=True)
    o = obs.get(json.dumps("var"))
    replay = {"check": "triggers.variable", "seed": vlib.seed()}
    if o is None:
        raise Undecided("no observation for the variable-length trigger scenario")
    if isinstance(o, dict) and "died" in o:
        res.violation("the server died while variable-length records were dispatched to triggers: %s" % ((o.get("stderr") or "")[-400:]), replay)
        return
    if any(x.get("err") or x.get("panic") for x in o[1:npre + nreq]):
        raise Undecided("variable-length trigger scenario: a create or write failed: %s" % [x for x in o[1:npre + nreq] if x.get("err") or x.get("panic")][:1])
    for pl in o[npre + nreq:npre + nreq + nplay]:
        if pl.get("driver_error") or pl.get("panic") or pl.get("drift"):
            raise Undecided("variable-length trigger scenario: the two-writer schedule could not be forced: %s" % str(pl)[:300])
    delivered = o[npre + nreq + nplay].get("delivered") or {}
    # one write command of a variable-length bucket carries the rows of one interval back to back, each row followed by its 4
    # interval-tick bytes (here 8 + 4 bytes): one item per row, compared by its row part
    cut = {pat: [dict(d, payload=d["payload"][k:k + 16]) for d in ds for k in range(0, len(d["payload"]), 24)] for pat, ds in delivered.items()}
    bad = compare(cut, {k: sorted(v) for k, v in items.items()})
    if bad:
        res.violation("variable-length records (several ticks per interval, in one request and in two requests flushed as one transaction group): %s" % "; ".join(bad[:3]), replay)
    else:
        res.cov["traces_validated_against_impl"] += 1
    res.cov["variable_length_records_dispatched"] = len(items[pat_str(("*", "*"))])


def run(prop, tier):
    res = Result(prop, tier)
    rng = random.Random(vlib.seed() * 86028121 + 32)
    quick = tier == "quick"
    binary = vlib.build_harness(cmd="mv_trig")
    clients = ["c1", "c2", "c3"]
    consts = dict(Clients=tlaset('"%s"' % c for c in clients), Syms=tlaset('"%s"' % s for s in SYMS), Ags=tlaset('"%s"' % a for a in AGS),
                  Patterns=tlaset('"%s_%s"' % (p[0].replace("*", "S"), p[1].replace("*", "G")) for p in PATTERNS), MaxCmds=1, Intervals="{1, 2}")
    invs = ["ExactlyOnce", "NoForeign", "AtMostOnce", "MapDrained"]
    # E1: exhaustive with one command per request (3 clients); two commands per request for 2 clients
    r = vlib.run_tlc("Triggers", "tr_1.cfg", cfg_text=vlib.cfg_text(consts, invariants=invs, view="View"), timeout=3000, coverage=not quick)
    vlib.tlc_ok(r, "Triggers 3x1")
    res.tlc(r, "Triggers/3 clients x 1 command")
    if r["violated"]:
        raise Undecided("MODEL-DRIFT: Triggers.tla violates %s" % r["violated"])
    c2 = dict(consts, Clients='{"c1", "c2"}', MaxCmds=2, Syms='{"A", "B"}', Ags='{"X"}' if quick else tlaset('"%s"' % a for a in AGS))
    r = vlib.run_tlc("Triggers", "tr_2.cfg", cfg_text=vlib.cfg_text(c2, invariants=invs, view="View"), timeout=1500)
    vlib.tlc_ok(r, "Triggers 2x2")
    res.tlc(r, "Triggers/2 clients x 2 commands")
    if r["violated"]:
        raise Undecided("MODEL-DRIFT: Triggers.tla violates %s" % r["violated"])
    # E2: behaviours
    nb = 30 if quick else 400
    r = vlib.run_tlc("Triggers", "tr_sim.cfg", cfg_text=vlib.cfg_text(dict(consts, MaxCmds=2), invariants=["Emit"], view="View"), simulate=nb * 3, depth=40,
                     seed_=rng.randrange(1, 2 ** 31), workers=1, timeout=900)
    vlib.tlc_ok(r, "Triggers simulate")
    res.tlc(r, "Triggers/simulate")
    behs = list({json.dumps(b, sort_keys=True): b for b in r["records"].get("BEH", [])}.values())
    rng.shuffle(behs)
    behs.sort(key=lambda b: -b["tgs"])       # several transaction groups first
    behs = behs[:nb]
    if not behs:
        raise Undecided("no behaviours from TLC")
    cases, meta = [], {}
    for bi, beh in enumerate(behs):
        root = os.path.join(vlib.scratch(), "c32_%d" % bi)
        ops = [{"op": "trig_start", "x": {"root": root, "patterns": [pat_str(p) for p in PATTERNS], "loop_wal_ms": 600000, "loop_prim_ms": 600000}}]
        for s in SYMS:
            for a in AGS:
                ops.append({"op": "create", "key": bkey((s, a)) + CK, "names": ["V"], "types": ["i8"]})
        npre = len(ops)
        actors, allcmds = {}, []
        for c in clients:
            rq = beh["req"].get(c) or []
            if rq:
                actors[c] = [write_op(rq, clients)]
                allcmds += rq
        sched = to_schedule(beh)
        ops.append({"op": "play", "x": {"actors": actors, "gated": GATED, "schedule": sched, "timeout_ms": 500,
                                        "background": {"Dispatcher.dispatch": "loop", "Dispatcher.recv": "run"}, "finish": True}})
        ops.append({"op": "trig_state", "x": {"ms": 400, "expect": sum(len(v) for v in expected(allcmds, clients).values())}})
        ops.append({"op": "shutdown"})
        cases.append({"id": bi, "ops": ops})
        meta[json.dumps(bi)] = (beh, sched, allcmds, root, npre)
    obs = vlib.run_cases(binary, cases, timeout=(900 if quick else 7200), tag="c32")
    played = drifts = 0
    for cid, (beh, sched, allcmds, root, npre) in meta.items():
        shutil.rmtree(root, ignore_errors=True)
        o = obs.get(cid)
        short = [(s["actor"], s["label"]) for s in sched]
        replay = {"check": "triggers", "requests": beh["req"], "schedule": sched, "seed": vlib.seed()}
        if o is None:
            raise Undecided("no observation")
        if isinstance(o, dict) and "died" in o:
            res.violation("the server died while dispatching written records to triggers: %s" % ((o.get("stdout") or "") + (o.get("stderr") or ""))[-400:], replay)
            continue
        play = o[npre]
        if play.get("driver_error") or play.get("panic"):
            raise Undecided("player failed: %s" % str(play)[:300])
        if play["drift"] or play.get("stuck"):
            drifts += 1
            res.cov.setdefault("drift_examples", [])
            if len(res.cov["drift_examples"]) < 4:
                res.cov["drift_examples"].append({"drift": play["drift"], "stuck": play.get("stuck"), "schedule": short})
            continue
        werr = [ob.get("err") or ob.get("panic") for a, obl in (play.get("finished") or {}).items() for ob in obl if ob.get("err") or ob.get("panic")]
        if werr:
            raise Undecided("a write of the schedule failed: %s" % werr[:2])
        played += 1
        res.cov["traces_validated_against_impl"] += 1
        bad = compare(o[npre + 1].get("delivered") or {}, expected(allcmds, clients))
        if bad:
            res.violation("trigger delivery differs from the flushed writes (transaction groups forced with gates: %s): %s" % (short, "; ".join(bad[:3])), replay)
        else:
            res.sample({"requests": beh["req"], "schedule": short, "groups": beh["tgs"]}, limit=2)
    res.cov["schedules_played"] = played
    res.cov["schedules_infeasible_on_real_code"] = drifts
    if played < max(3, len(meta) // 3):
        raise Undecided("only %d of %d schedules could be forced: %s" % (played, len(meta), res.cov.get("drift_examples")))

    # ---- free-running concurrent writers with the loop at 1 ms, race detector ----
    rbin = vlib.build_harness(race=True, cmd="mv_trig")
    nw, nreq = (6, 20) if quick else (8, 120)
    wclients = ["w%d" % k for k in range(nw)]
    root = os.path.join(vlib.scratch(), "c32_stress")
    ops = [{"op": "trig_start", "x": {"root": root, "patterns": [pat_str(p) for p in PATTERNS], "loop_wal_ms": 1, "loop_prim_ms": 50}}]
    for s in SYMS:
        for a in AGS:
            ops.append({"op": "create", "key": bkey((s, a)) + CK, "names": ["V"], "types": ["i8"]})
    npre = len(ops)
    actors, allcmds = {}, []
    for wi, w in enumerate(wclients):
        actors[w] = []
        for k in range(nreq):
            n = rng.choice([1, 2, 3])
            cmds, seen = [], set()
            while len(cmds) < n:
                b = (rng.choice(SYMS), rng.choice(AGS))
                i = 10 + wi * 400 + k * 3 + len(cmds)       # an interval of its own: payload and index identify the record
                if (b, i) in seen:
                    continue
                seen.add((b, i))
                cmds.append({"c": w, "b": list(b), "i": i})
            actors[w].append(write_op(cmds, wclients))
            allcmds += cmds
    exp = expected(allcmds, wclients)
    ops.append({"op": "par", "x": {"actors": actors}})
    ops.append({"op": "trig_state", "x": {"ms": 5000, "expect": sum(len(v) for v in exp.values())}})
    ops.append({"op": "shutdown"})
    env = dict(vlib.GOENV, GORACE="halt_on_error=0 exitcode=0")
    robs = vlib.run_cases(rbin, [{"id": "stress", "ops": ops}], timeout=600, env=env, tag="c32race", stderr_tail=4000000)
    shutil.rmtree(root, ignore_errors=True)
    o = robs.get(json.dumps("stress"))
    import readers
    races = readers.parse_races(robs.get("_stderr", ""))
    res.cov["race_reports"] = len(races)
    res.cov["stress_records"] = len(allcmds)
    if isinstance(o, dict) and "died" in o:
        res.violation("the server died under free-running concurrent writers with triggers: %s" % ((o.get("stderr") or "")[-500:]), {"check": "triggers.stress", "seed": vlib.seed()})
    else:
        errs = [ob.get("err") for a, obl in (o[npre].get("actors") or {}).items() for ob in obl if ob.get("err")]
        if errs:
            raise Undecided("stress writes failed: %s" % errs[:2])
        bad = compare(o[npre + 1].get("delivered") or {}, exp)
        if bad:
            res.violation("free-running concurrent writers: %s" % "; ".join(bad[:3]), {"check": "triggers.stress", "seed": vlib.seed()})
        res.cov["traces_validated_against_impl"] += 1
    variable_length_records(res, binary, rng, quick)
    for sig, text in races.items():
        if "TriggerPluginDispatcher" in sig or "written.go" in text[:1500]:
            res.violation("data race in the trigger dispatcher: %s\n%s" % (sig, text[:1200]), {"check": "triggers.race", "signature": sig})
    res.assumptions += ["patterns are restricted to <sym|*>/<tf|*>/<ag|*> over one-letter names, where anchored and unanchored regexp matching agree",
                        "forced schedules: one record = one write command (one bucket, one interval) of a fixed-length bucket; variable-length records (several per interval) in a sequential scenario"]
    return res.finish()
