"""C17: the catalog stays consistent with the disk.

Catalog.tla (generation-accurate model of AddTimeBucket / AddFile / RemoveTimeBucket and of the writer's lookup) is
model-checked; sequential histories enumerated by TLC are replayed through the real DataService with a full
observation (listing in both formats, in-memory file list, fresh NewDirectory, disk walk, queries) after EVERY
operation; two-process behaviours are forced on the real goroutines at the catalog's hook points."""
PROPS = ["C17"]
READY = True
CLAIMS = {
 "C17": dict(technique="TLC model checking of Catalog.tla (object generations of the rescanned sub-tree, root lock, directMap; sequential histories and all two-process interleavings at the grain of the catalog's critical sections) + every TLC-enumerated history replayed into the real DataService with listing / fresh-catalog / disk comparison after each step + TLC behaviours of two concurrent operations forced on the real goroutines by the gate player",
             text="Catalog.tla models the catalog as coded: AddTimeBucket (root lock, year file, rescan of the symbol's sub-tree into NEW objects, addSubdir + directMap merge), GetSubDirectoryAndAddFile/AddFile (root lock, directMap lookup, file creation, registration in the leaf object), RemoveTimeBucket (tree found under read locks, RemoveAll(leaf), unlink in the FOUND objects, pruning of parents that are empty in the found objects, root.removeSubDir by name) and the writer (lookup, create-if-missing, new year). TLC proves C17 (listing = in-memory files = per-bucket query files = disk, at quiescence) for all sequential histories within the bound and for all two-process interleavings when RemoveTimeBucket is serialised with the root lock, and produces the violating interleavings of the unchanged tree (named deviation DestroyNoRootLock). Every sequential history (exhaustive up to 3 operations, seeded samples of longer ones) is executed through DataService.Create / Write / Destroy with recreation under another schema; after every operation ListSymbols (both formats), the catalog's file list, a fresh catalog.NewDirectory on the same root, the disk walk, GetInfo and a query of every bucket are compared with each other and with the model. Two-process behaviours (all pre-states over 3 buckets x all pairs of operations) are forced at the hook points Cat.add.* / Cat.rm.* / Cat.addfile.* / WriteCSM.lookedUp and the same comparison is made at quiescence.",
             note="Trusted: TLC, the Python concretisation, the driver's observation ops. Bounded: 3 buckets (2 symbols) under one timeframe, years {current, next, previous}, <=5 sequential operations, 2 concurrent operations after any pre-state. 'Concurrent' on the real code = interleavings of the hook points. A schedule the real code cannot follow is drift, never a violation."),
}

import datetime, json, os, random, shutil
import vlib
from vlib import Result, Undecided

CK = ":Symbol/Timeframe/AttributeGroup"
TF = "1Min"
NOW = datetime.datetime.utcnow().year
YEAR = {0: NOW, 1: NOW + 1, 2: NOW - 1}
SCHEMAS = [(["P"], ["f4"]), (["P", "Q"], ["i8", "i4"]), (["R"], ["i2"])]
GATED = ["Cat.add.locked", "Cat.add.created", "Cat.add.scanned", "Cat.rm.found", "Cat.rm.leafRemoved", "Cat.rm.beforeRoot",
         "Cat.addfile.locked", "WriteCSM.lookedUp"]


# concrete names: symbol B's name extends symbol A's, attribute group Y's extends X's (directory paths in a string-prefix
# relation: anything that matches catalog paths by prefix instead of by component shows up)
SYMNAME = {"A": "SY", "B": "SYB", "C": "Q"}
AGNAME = {"X": "OHLC", "Y": "OHLCV", "Z": "T"}


def key(b):
    s, g = b.split("/")
    return "%s/%s/%s" % (SYMNAME.get(s, s), TF, AGNAME.get(g, g))


def epoch(y, k):
    return int(datetime.datetime(YEAR[y], 3, 5, 10, k % 60, tzinfo=datetime.timezone.utc).timestamp())


def tlaset(xs):
    return "{" + ", ".join('"%s"' % x if isinstance(x, str) else str(x) for x in xs) + "}"


class Shadow:
    """what the harness itself knows: schema of the current incarnation of each bucket, rows written to it"""
    def __init__(self):
        self.schema, self.rows, self.ncreate = {}, {}, {}

    def schema_for_new(self, b):
        k = self.ncreate.get(b, 0)
        self.ncreate[b] = k + 1
        return SCHEMAS[k % len(SCHEMAS)]

    def op(self, o, n, exists):
        """-> driver op for model op o (n = running number used as the written value); `exists` = bucket has files now"""
        b, k = o["b"], o["k"]
        if k == "create":
            sch = self.schema[b] if exists and b in self.schema else self.schema_for_new(b)
            if not exists:
                self.schema[b] = sch
                self.rows[b] = {}
            return {"op": "create", "key": key(b) + CK, "names": sch[0], "types": sch[1]}
        if k == "destroy":
            return {"op": "destroy", "key": key(b)}
        if not exists or b not in self.schema:
            self.schema[b] = self.schema_for_new(b)
            self.rows[b] = {}
        sch = self.schema[b]
        ep = epoch(o["y"], 7)
        cols = [{"name": "Epoch", "type": "i8", "vals": [ep]}] + [{"name": nm, "type": ty, "vals": [n % 100 + i]} for i, (nm, ty) in enumerate(zip(*sch))]
        return {"op": "write", "via": "csm", "buckets": [{"key": key(b), "cols": cols}], "_ep": ep, "_val": n % 100}


def observe_ops(buckets):
    ops = [{"op": "list", "format": "tbk"}, {"op": "list"}, {"op": "mem_catalog"}, {"op": "fresh_catalog"}, {"op": "disk"}]
    for b in buckets:
        ops.append({"op": "query", "dest": key(b)})
        ops.append({"op": "getinfo", "key": key(b)})
    return ops


def judge(obs, buckets, where):
    """C17 on one observation (list of driver observations produced by observe_ops) -> list of contradictions"""
    ltbk, lsym, mem, fresh, disk = obs[:5]
    bad = []
    files = {}   # key -> sorted years on disk
    for path in (disk.get("files") or {}):
        parts = path.split("/")
        if len(parts) == 4 and parts[3].endswith(".bin"):
            files.setdefault("/".join(parts[:3]), []).append(int(parts[3][:-4]))
    for k in files:
        files[k].sort()
    dirs = set(disk.get("dirs") or [])
    on_disk = set(files)
    listed = set(ltbk.get("results") or [])
    for k in sorted(listed - on_disk):
        if k not in dirs:
            bad.append("bucket %s is listed but its directory is not on disk" % k)
        else:
            bad.append("bucket %s is listed but has no year file on disk" % k)
    for k in sorted(on_disk - listed):
        bad.append("bucket %s has year files %s on disk but is not listed" % (k, files[k]))
    syms = set(lsym.get("results") or [])
    dsyms = {k.split("/")[0] for k in on_disk}
    if syms != dsyms:
        bad.append("ListSymbols returns %s, symbols with data files on disk are %s" % (sorted(syms), sorted(dsyms)))
    mt = {k: v for k, v in (mem.get("tbks") or {}).items()}
    if mt != files:
        bad.append("years known to the running catalog %s differ from the year files on disk %s" % (mt, files))
    ft = {k: v for k, v in (fresh.get("tbks") or {}).items()}
    if fresh.get("err"):
        bad.append("a fresh catalog cannot be loaded from the root: %s" % fresh["err"])
    elif ft != mt or sorted(fresh.get("names") or []) != sorted(mem.get("names") or []):
        bad.append("a fresh start lists %s / %s, the running server lists %s / %s" % (ft, fresh.get("names"), mt, mem.get("names")))
    for i, b in enumerate(buckets):
        q, gi = obs[5 + 2 * i], obs[6 + 2 * i]
        k = key(b)
        if k in on_disk:
            if q.get("err") or q.get("panic"):
                bad.append("bucket %s is on disk (%s) but querying it fails: %s" % (k, files[k], q.get("err") or q.get("panic")))
            if gi.get("err"):
                bad.append("bucket %s is on disk but GetInfo fails: %s" % (k, gi["err"]))
        else:
            rows = 0
            for kk, cols in (q.get("result") or {}).items():
                for c in cols:
                    if c["name"] == "Epoch":
                        rows += len(c["vals"])
            if rows:
                bad.append("bucket %s is not on disk but a query returns %d row(s)" % (k, rows))
            if not gi.get("err"):
                bad.append("bucket %s is not on disk but GetInfo reports it (latest year %s)" % (k, gi.get("year")))
    return ["%s: %s" % (where, x) for x in bad], files


def seq_ops(beh):
    return [st["op"] for st in beh["steps"] if st["act"] == "Begin"]


def to_schedule(beh):
    """two-process model behaviour -> player steps; the FIRST hook-grain step of an operation starts its actor"""
    steps = []
    nop = {}
    for st in beh["steps"]:
        p, a, u = st["proc"], st["act"], st["until"]
        if a == "Begin":
            nop[p] = nop.get(p, 0) + 1
            continue
        actor = "p%d_%d" % (p, nop[p])
        steps.append({"actor": actor, "until": u, "label": a})
        if a == "WLookupHit":
            steps.append({"actor": actor, "until": "done", "label": "WriteRest"})
    return steps


def run(prop, tier):
    # every second case goes through the gRPC front end (frontend.GRPCService, requests and responses passed through the
    # protobuf wire format), the others through the msgpack-RPC DataService: the property does not depend on the transport
    os.environ.setdefault("VERIF_FRONT", "mix")
    res = Result(prop, tier)
    rng = random.Random(vlib.seed() * 49979687 + 17)
    quick = tier == "quick"
    binary = vlib.build_harness()
    known = {k["deviation"]: k for k in vlib.known_findings(prop)}
    B = ["A/X", "A/Y", "B/X"]
    years = [0, 1] if quick else [0, 1, 2]
    base = dict(Buckets=tlaset(B), Years=tlaset(years), Procs="{1}", MaxOps=3, MaxGen=8, PreSets="{{}}", Deviations="{}")
    # ---- E1: the model ----
    r = vlib.run_tlc("Catalog", "cat_seq.cfg", cfg_text=vlib.cfg_text(dict(base, MaxOps=4 if quick else 5, MaxGen=9), invariants=["C17"], view="View"), timeout=1500)
    vlib.tlc_ok(r, "Catalog seq")
    res.tlc(r, "Catalog/sequential")
    if r["violated"]:
        raise Undecided("MODEL-DRIFT: Catalog.tla violates C17 sequentially: %s" % r["out"][-1500:])
    import itertools
    allpre = "{" + ", ".join(tlaset(c) for n in range(len(B) + 1) for c in itertools.combinations(B, n)) + "}"
    conc = dict(base, Procs="{1, 2}", MaxOps=1, MaxGen=6, PreSets=allpre)
    r = vlib.run_tlc("Catalog", "cat_conc.cfg", cfg_text=vlib.cfg_text(conc, invariants=["C17"], view="View"), timeout=3000, coverage=not quick)
    vlib.tlc_ok(r, "Catalog conc")
    res.tlc(r, "Catalog/2 processes, destroy under the root lock")
    if r["violated"]:
        raise Undecided("MODEL-DRIFT: Catalog.tla (destroy serialised) violates C17")
    rdev = vlib.run_tlc("Catalog", "cat_dev.cfg", cfg_text=vlib.cfg_text(dict(conc, Deviations='{"DestroyNoRootLock"}'), invariants=["Emit", "EmitBad"], view=("View" if quick else None)),
                        timeout=1500, workers=1)
    vlib.tlc_ok(rdev, "Catalog dev")
    res.tlc(rdev, "Catalog/2 processes, unchanged tree (all behaviours emitted)")
    conc_good = list({json.dumps(b, sort_keys=True): b for b in rdev["records"].get("BEH", []) if b["ok"]}.values())
    conc_bad = list({json.dumps(b, sort_keys=True): b for b in rdev["records"].get("BAD", [])}.values())
    if not conc_bad:
        raise Undecided("MODEL-DRIFT: DestroyNoRootLock no longer breaks C17 in the model")
    res.cov["model_concurrent_behaviours"] = len(conc_good) + len(conc_bad)
    res.cov["model_concurrent_behaviours_violating"] = len(conc_bad)

    # ---- E2 sequential: exhaustive short histories + sampled long ones ----
    r = vlib.run_tlc("Catalog", "cat_enum.cfg", cfg_text=vlib.cfg_text(dict(base, MaxOps=2 if quick else 3), invariants=["Emit"]), timeout=1500, workers=1)
    vlib.tlc_ok(r, "Catalog enum")
    res.tlc(r, "Catalog/enumerate short histories")
    hists = {json.dumps(seq_ops(b)): b for b in r["records"].get("BEH", [])}
    nlong = 60 if quick else 1200
    depth = 5
    r = vlib.run_tlc("Catalog", "cat_sim.cfg", cfg_text=vlib.cfg_text(dict(base, MaxOps=depth, MaxGen=10), invariants=["Emit"], view="View"),
                     simulate=nlong * 2, depth=depth * 6, seed_=rng.randrange(1, 2 ** 31), workers=1, timeout=900)
    vlib.tlc_ok(r, "Catalog simulate")
    res.tlc(r, "Catalog/simulate long histories")
    longs = {json.dumps(seq_ops(b)): b for b in r["records"].get("BEH", [])}
    lk = sorted(longs)
    rng.shuffle(lk)
    for k in lk[:nlong]:
        hists.setdefault(k, longs[k])
    keys = sorted(hists)
    if quick and len(keys) > 200:
        short = [k for k in keys if len(json.loads(k)) <= 2]
        rng.shuffle(short)
        keys = short[:140] + [k for k in keys if len(json.loads(k)) > 2][:60]
    cases, meta = [], {}
    for ci, hk in enumerate(keys):
        beh = hists[hk]
        root = os.path.join(vlib.scratch(), "c17s_%d" % ci)
        ops = [{"op": "start", "root": root}]
        sh = Shadow()
        exists = set()
        marks = []
        for n, o in enumerate(seq_ops(beh)):
            d = sh.op(o, n + 1, o["b"] in exists)
            if o["k"] == "destroy":
                exists.discard(o["b"])
            else:
                exists.add(o["b"])
            ops.append({k: v for k, v in d.items() if not k.startswith("_")})
            marks.append(len(ops) - 1)
            ops += observe_ops(B)
        ops.append({"op": "shutdown"})
        cases.append({"id": "s%d" % ci, "ops": ops})
        meta["s%d" % ci] = (beh, marks, root)
    obs = vlib.run_cases(binary, cases, timeout=(1200 if quick else 7200), tag="c17s")
    nobs = len(observe_ops(B))
    for cid, (beh, marks, root) in meta.items():
        shutil.rmtree(root, ignore_errors=True)
        o = obs.get(json.dumps(cid))
        hist = seq_ops(beh)
        replay = {"check": "catalog.sequential", "history": hist, "seed": vlib.seed()}
        if o is None:
            raise Undecided("no observation for %s" % cid)
        if isinstance(o, dict) and "died" in o:
            res.violation("the server died during the sequential catalog history %s: %s" % (hist, (o.get("stderr") or "")[-300:]), replay)
            continue
        allbad = []
        for n, m in enumerate(marks):
            r0 = o[m]
            if r0.get("panic"):
                allbad.append("operation %d %s panicked: %s" % (n + 1, hist[n], str(r0["panic"])[:200]))
                break
            bad, _ = judge(o[m + 1:m + 1 + nobs], B, "after operation %d %s (result %s)" % (n + 1, hist[n], r0.get("err")))
            allbad += bad
            # outcome conformance with the model (kept as coverage, not as a verdict): create on an existing bucket -> error
        if allbad:
            res.violation("catalog and disk disagree in a sequential history %s: %s" % (hist, "; ".join(allbad[:4])), replay)
        res.cov["traces_validated_against_impl"] += 1
        res.sample({"history": hist, "final_files": judge(o[marks[-1] + 1:marks[-1] + 1 + nobs], B, "")[1] if marks else {}}, limit=2)
    res.cov["sequential_histories"] = len(meta)

    # ---- E2 concurrent: forced two-process schedules ----
    nb = 40 if quick else 400
    rng.shuffle(conc_good)
    rng.shuffle(conc_bad)
    # prefer behaviours in which the two operations really interleave
    def interleaved(b):
        procs = [s["proc"] for s in b["steps"]]
        return sum(1 for i in range(len(procs) - 1) if procs[i] != procs[i + 1])
    conc_good.sort(key=lambda b: -interleaved(b))
    behs = conc_bad[:nb // 2] + conc_good[:nb - min(len(conc_bad), nb // 2)]
    cases, meta = [], {}
    for bi, beh in enumerate(behs):
        root = os.path.join(vlib.scratch(), "c17c_%d" % bi)
        ops = [{"op": "start", "root": root}]
        sh = Shadow()
        exists = set()
        for b in sorted(beh["pre"]):
            d = sh.op({"k": "create", "b": b, "y": 0}, 0, False)
            exists.add(b)
            ops.append(d)
        actors, nop = {}, {}
        for st in beh["steps"]:
            if st["act"] == "Begin":
                p = st["proc"]
                nop[p] = nop.get(p, 0) + 1
                d = sh.op(st["op"], 10 * p + nop[p], st["op"]["b"] in exists)
                actors["p%d_%d" % (p, nop[p])] = [{k: v for k, v in d.items() if not k.startswith("_")}]
        sched = to_schedule(beh)
        ops.append({"op": "play", "x": {"actors": actors, "gated": GATED, "schedule": sched, "timeout_ms": 500, "finish": True}})
        npre = len(ops)
        ops += observe_ops(B)
        ops.append({"op": "shutdown"})
        cases.append({"id": "c%d" % bi, "ops": ops})
        meta["c%d" % bi] = (beh, sched, root, npre)
    obs = vlib.run_cases(binary, cases, timeout=(900 if quick else 5400), tag="c17c")
    played = drifts = 0
    for cid, (beh, sched, root, npre) in meta.items():
        shutil.rmtree(root, ignore_errors=True)
        o = obs.get(json.dumps(cid))
        short = [(s["actor"], s["label"]) for s in sched]
        pair = [st["op"] for st in beh["steps"] if st["act"] == "Begin"]
        replay = {"check": "catalog.concurrent", "pre": beh["pre"], "ops": pair, "schedule": sched, "seed": vlib.seed()}
        if o is None:
            raise Undecided("no observation for %s" % cid)
        if isinstance(o, dict) and "died" in o:
            txt = (o.get("stdout") or "") + (o.get("stderr") or "")
            if '"level":"fatal"' in txt and "no such file or directory" in txt:
                # the server ended itself (log.Fatal) on a year file that its catalog still lists but that is not on disk
                played += 1
                res.cov["traces_validated_against_impl"] += 1
                what = "after concurrent %s on pre-state %s the server lists / opens a year file that is not on disk and ends itself: %s" % (
                    pair, sorted(beh["pre"]), txt[txt.index('"level":"fatal"') - 1:][:260])
                if "DestroyNoRootLock" in known and any(x["k"] == "destroy" for x in pair):
                    res.known_finding(known["DestroyNoRootLock"], {"pre": sorted(beh["pre"]), "ops": pair, "schedule": short, "observed": what[:300]})
                else:
                    res.violation(what + " (forced schedule %s)" % short, replay)
            else:
                res.cov.setdefault("died_examples", []).append(txt[-300:])
                drifts += 1
            continue
        play = o[npre - 1]
        if play.get("driver_error") or play.get("panic"):
            raise Undecided("player failed: %s" % str(play)[:300])
        if play["drift"] or play.get("stuck"):
            drifts += 1
            res.cov.setdefault("drift_examples", [])
            if len(res.cov["drift_examples"]) < 6 and not any(d["drift"][8:] == play["drift"][8:] for d in res.cov["drift_examples"]):
                res.cov["drift_examples"].append({"drift": play["drift"], "stuck": play.get("stuck"), "schedule": short, "pre": beh["pre"], "ops": pair})
            continue
        played += 1
        res.cov["traces_validated_against_impl"] += 1
        bad, files = judge(o[npre:npre + len(observe_ops(B))], B, "after concurrent %s on pre-state %s" % (pair, sorted(beh["pre"])))
        if not bad:
            res.sample({"pre": beh["pre"], "ops": pair, "schedule": short, "files": files}, limit=2)
            continue
        res.cov["concurrent_violations_predicted_by_model"] = res.cov.get("concurrent_violations_predicted_by_model", 0) + (0 if beh["ok"] else 1)
        if "DestroyNoRootLock" in known and any(x["k"] == "destroy" for x in pair):
            res.known_finding(known["DestroyNoRootLock"], {"pre": sorted(beh["pre"]), "ops": pair, "schedule": short, "observed": bad[:2]})
        else:
            res.violation("catalog and disk disagree after two concurrent operations (forced schedule %s): %s" % (short, "; ".join(bad[:4])), replay)
    res.cov["schedules_played"] = played
    res.cov["schedules_infeasible_on_real_code"] = drifts
    if played < max(3, len(meta) // 4):
        raise Undecided("only %d of %d schedules could be forced: %s" % (played, len(meta), res.cov.get("drift_examples")))
    res.assumptions += ["concurrent = interleavings of the catalog's hook points; the writer's WAL flush is not part of the schedule",
                        "years: 0 = the current calendar year (the one Create uses), 1 = next, 2 = previous"]
    return res.finish()
