"""C14 / C15 / C16: bucket schemas and key paths.  Schema.tla / PathJail.tla cases replayed into the real DataService."""
PROPS = ["C14", "C15", "C16"]
READY = True
CLAIMS = {
 "C14": dict(technique="TLA+ model of Writer.WriteCSM (map-order loop, length check, GetMissingAndTypeCoercionColumns set algebra, queue-then-flush) checked by TLC against 'names match => stored by name, else nothing changes'; every TLC-enumerated schema pair / two-bucket request replayed into the real writer",
             text="TLC enumerates every pair <bucket schema, input schema> of <=3 columns over 3 names and 2 type ids (missing, extra, renamed, reordered, retyped, bucket absent) and every two-bucket request over the 2-name universe in both map iteration orders; it proves that the implementation-shaped check accepts exactly the name-matching pairs, that its coercion list is exactly the retyped columns and that the pure implementation satisfies the property. Every case is concretised (type ids -> ordered pairs of the 10 numeric wire types, boundary values) and replayed through DataService.Write / Writer.WriteCSM; error, contents of every bucket of the request right after the request and after a later successful write are compared with the property's answer.",
             note="Trusted: TLC, the Python numeric-conversion oracle (integer wrap, truncation toward zero, IEEE rounding; float->int only for representable values because Go leaves the rest implementation-defined; int->f4 accepts direct and via-f64 rounding). Bounded: 3 names, 3 columns, 2 buckets per request, 2 rows per bucket."),
 "C15": dict(technique="TLA+ model of the year-file header as byte regions (fixed part, 1024 x 32-byte names, 1024 type bytes, reserved tail) with Create / record write at IndexToOffset / reload, checked by TLC; every enumerated creation replayed into the real server with a restart",
             text="TLC enumerates column counts {1,2,255,437,438,1024,1025}, name lengths {1,31,32,33,40,64}, all 11 wire types and a rotating mix, both record types, timeframes 1D and 1Min and write patterns (none, mid-year, first interval of the year) and proves that the pure header model reports the created schema or rejects. Each case is replayed: Create, writes, restart on the same root, GetInfo, and a write with the created schema; the reported schema must equal the created one or the creation must have been rejected.",
             note="Trusted: TLC, the region arithmetic of the model (checked against metadata.go constants by ASSUME). Bounded: one long name per schema; U16 columns are created but not written (driver cannot encode them)."),
 "C16": dict(technique="TLA+ model of filepath.Join as a stack machine driving the per-component mkdir / category_name loop of AddTimeBucket, the in-memory alias of the first component and the RemoveAll loop of RemoveTimeBucket; invariant TouchedUnderRoot checked by TLC; every enumerated key replayed into the real DataService inside a snapshotted jail",
             text="TLC enumerates every key of <=4 components over {name, timeframe, '.', '..', '', the root's own name, a sibling's name} x three category layouts x two surrounding worlds x the op sequences query/destroy/create/destroy and write/query/destroy, proves TouchedUnderRoot for the validating implementation and computes the exact touch set of the unchanged one. Each case runs through the real DataService with the root nested four directories deep in a jail; everything outside the root is snapshotted (names, kinds, sizes, mtimes, inodes, SHA-1) before and after every request.",
             note="Trusted: TLC, the snapshot op of the driver. Lexical escapes only (no symlinks). Odd characters are concretisations of the 'name' class."),
}
import collections, itertools, json, os, random, re, struct, time
import vlib
from vlib import Result, Undecided

HDR_DUMMY = dict(Counts="{1}", Lens="{1}", TypePats="{1}", RecTypes='{"F"}', Tfs='{"1D"}', WritePats='{"none"}')
PAIR_DUMMY = dict(Names='{"a"}', MaxCols=1, NTypes=1, MaxBuckets=1)
CK = ":Symbol/Timeframe/AttributeGroup"


def tlaset(xs):
    return "{" + ", ".join('"%s"' % x if isinstance(x, str) else str(x) for x in xs) + "}"


def known_by_dev(prop):
    return {k["deviation"]: k for k in vlib.known_findings(prop)}


def chunks(xs, n):
    for i in range(0, len(xs), n):
        yield xs[i:i + n]


def run_chunked(binary, cases, size, timeout):
    """one driver process per chunk (every `start` keeps a WAL file and goroutines alive)"""
    obs = {}
    t_end = time.time() + timeout
    for ch in chunks(cases, size):
        obs.update(vlib.run_cases(binary, ch, timeout=max(30, t_end - time.time())))
    return obs


def tlc_many(res, jobs):
    """run several TLC configurations side by side; jobs = [(module, cfg name, cfg text, workers)] -> {cfg: result}"""
    import concurrent.futures
    with concurrent.futures.ThreadPoolExecutor(max_workers=len(jobs)) as ex:
        futs = {cfg: ex.submit(vlib.run_tlc, module, cfg, timeout=1800, workers=workers, cfg_text=text) for module, cfg, text, workers in jobs}
        out = {cfg: f.result() for cfg, f in futs.items()}
    for module, cfg, text, workers in jobs:
        r = out[cfg]
        vlib.tlc_ok(r, cfg)
        if r["violated"]:
            raise Undecided("MODEL-DRIFT: %s violates %s\n%s" % (cfg, r["violated"], r["out"][-3000:]))
        res.tlc(r, cfg)
    return out


# ======================================================================================================
# C16  path jail
# ======================================================================================================
ROOT_REL = "jail/l1/l2/l3/root"
SAFE_NAMES = ["A", "a b", "...", "..%2f..", "%2e%2e", "~", "$HOME", "名前", "A\\..\\B", "-rf", "con", "..;", ".. ", " ..",
              "..\t", "*", "?x", "a|b", "etc", "tmp", "dev", "....", ".hidden", "..a"]
INEXACT_NAMES = ["A\u0000", "..\u0000", "n" * 300, "A:B", ":"]
TF_NAMES = ["1Min", "1D", "1H", "5Min", "1Sec", "15Min"]
E0 = 1577836800 + 86400 * 5


def jail_unit(rng, members, widx, full_start=False):
    """one driver case: a fresh world, an instance on its root and the requests of `members` (model cases).  A unit has
    one member (snapshot after every request) or several members for which the model predicts no file-system
    effect at all (one snapshot per member)."""
    W = os.path.join(vlib.scratch(), "w16", "w%d" % widx)
    root = os.path.join(W, ROOT_REL)
    world = members[0][0]["world"]
    files = {"canary0": "c0", "jail/canary": "cj", "jail/l1/canary": "c1", "jail/l1/l2/canary": "c2", "jail/l1/l2/l3/canary": "c3"}
    dirs = [ROOT_REL]
    if world == "sib":
        dirs.append("jail/l1/l2/l3/sib/keep")
        files["jail/l1/l2/l3/sib/keep/2020.bin"] = "foreign data"
        files["jail/l1/l2/l3/sib/notes.txt"] = "foreign notes"
    sx = {"dir": W, "exclude": [root]}
    start = {"op": "start", "root": root} if full_start else {"op": "jstart", "root": root, "x": {"waldir": os.path.join(vlib.scratch(), "w16", "wal")}}
    ops = [{"op": "world", "x": {"dir": W, "dirs": dirs, "files": files}}, start, {"op": "snap", "x": sx}]
    out = []
    last_snap = 2
    for c, inexact in members:
        nm = rng.choice(INEXACT_NAMES) if inexact else rng.choice(SAFE_NAMES)
        tok = {"N": nm, "T": rng.choice(TF_NAMES), "D": ".", "U": "..", "E": "", "R": "root", "S": "sib"}
        key = "/".join(tok[t] for t in c["items"]) + ":" + "/".join(c["cats"])
        via = rng.choice(["csm", "rpc"])
        snaps = [last_snap]
        for st in c["steps"]:
            if st["op"] == "create":
                ops.append({"op": "create", "key": key, "names": ["a"], "types": ["i4"]})
            elif st["op"] == "write":
                ops.append({"op": "write", "via": via, "buckets": [{"key": key, "cols": [
                    {"name": "Epoch", "type": "i8", "vals": [E0]}, {"name": "a", "type": "i4", "vals": [7]}]}]})
            elif st["op"] == "query":
                ops.append({"op": "query", "dest": key})
            else:
                ops.append({"op": "destroy", "key": key})
            if len(members) == 1:
                ops.append({"op": "snap", "x": sx})
                snaps.append(len(ops) - 1)
        if len(members) > 1:
            ops.append({"op": "snap", "x": sx})
            snaps.append(len(ops) - 1)
        last_snap = snaps[-1]
        out.append(dict(c=c, key=key, tok=tok, inexact=inexact, via=via, snaps=snaps, full_start=full_start))
    ops.append({"op": "rmworld", "x": {"dir": W}})
    return ops, out


YEARBIN = re.compile(r"^\d{1,5}\.bin$")


def norm_rel(p):
    parts = p.split("/")
    if YEARBIN.match(parts[-1]):
        parts[-1] = "YEAR.bin"
    return "/".join(parts)


def snap_diff(a, b):
    """real changes between two snapshots, outside the root: set of (sign, relpath).  A directory whose only change is
    its mtime is ignored when its set of direct children changed (that explains the mtime); the root entry itself
    (kind 'x') is inside the root by definition."""
    a, b = a["ents"], b["ents"]
    out = set()
    changed_parent = set()
    for p in set(a) | set(b):
        if p not in a or p not in b or (a[p][0] == "x" and a[p][4] != b[p][4]):
            changed_parent.add(os.path.dirname(p) or ".")
    for p in set(a) | set(b):
        if (a.get(p) or b.get(p))[0] == "x":
            continue
        if p not in a:
            out.add(("+", norm_rel(p)))
        elif p not in b:
            out.add(("-", norm_rel(p)))
        elif a[p] != b[p]:
            if a[p][0] == "d" and b[p][0] == "d" and p in changed_parent:
                continue
            out.add(("~", norm_rel(p)))
    return out


def model_out(step, tok, before):
    """the model's touches outside the root of one step -> expected snapshot changes"""
    exp = set()
    names = {"N": tok["N"], "T": tok["T"]}
    for t in step["out"]:
        rel = "/".join(names.get(x, x) for x in t["p"])
        if t["k"] in ("mkdir", "file"):
            exp.add(("+", rel))
        elif t["k"] == "write":
            if not any(u["k"] == "file" and u["p"] == t["p"] for u in step["out"]):
                exp.add(("~", rel))
        elif t["k"] == "rm":
            for q, ent in before["ents"].items():
                if ent[0] != "x" and (q == rel or q.startswith(rel + "/")):
                    exp.add(("-", norm_rel(q)))
    return exp


def run_c16(res, tier, rng, binary):
    quick = tier == "quick"
    known = known_by_dev("C16")
    alpha = '{"N","T","D","U","E","R","S"}'
    base = dict(Alphabet=alpha, Schemes='{"distinct","same","short"}', Worlds='{"bare","sib"}', OpSeqs='{"qdcd","wqd"}')
    # ---- E1: the validating implementation keeps every touch under the root; the unchanged tree leaves it only with
    #          the Escapes signature, and its exact touch sets per step are exported for the replay
    out = tlc_many(res, [
        ("PathJail", "PathJail_pure.cfg", vlib.cfg_text(dict(base, MaxLen=3 if quick else 4, Deviations="{}"),
                                                         invariants=["TouchedUnderRoot", "TreeShaped"]), None),
        ("PathJail", "PathJail_dev.cfg", vlib.cfg_text(dict(base, MaxLen=4, Deviations='{"JoinUnchecked"}'),
                                                        invariants=["DeviationsExplainAll", "TreeShaped", "Emit"]), 4)])
    r = out["PathJail_dev.cfg"]
    allc = r["records"].get("CASE", [])
    if r["records"].get("BAD") or sum(len(c["steps"]) + 1 for c in allc) != r["distinct"]:
        raise Undecided("TLC case export incomplete: %d cases, %d states" % (len(allc), r["distinct"]))
    allc.sort(key=lambda c: json.dumps(c, sort_keys=True))
    esc = [c for c in allc if any(s["out"] for s in c["steps"])]
    inert = [c for c in allc if not any(s["out"] or s["nin"] for s in c["steps"])]
    inside = [c for c in allc if not any(s["out"] for s in c["steps"]) and any(s["nin"] for s in c["steps"])]
    if quick:
        esc_sel = rng.sample(esc, min(len(esc), 250))
        inside_sel = rng.sample(inside, min(len(inside), 300))
        inert_sel = [c for c in inert if len(c["items"]) <= 2] + rng.sample([c for c in inert if len(c["items"]) > 2], 900)
        n_full = 40
    else:
        esc_sel, inside_sel, inert_sel, n_full = esc, inside, inert, 1500
    res.cov["keys_enumerated"] = len({json.dumps(c["items"]) for c in allc})
    res.cov["cases_enumerated"] = len(allc)
    res.cov["cases_with_predicted_escape"] = len(esc)
    # units: one world per case that touches anything; batches of 40 for cases predicted to touch nothing;
    # a seeded sample goes through the generic `start` (full dependency-injection container, own WAL in the root)
    units = []
    single = esc_sel + inside_sel
    for n, c in enumerate(single):
        units.append(([(c, n % 23 == 22)], False))
    for c in rng.sample(single, min(len(single), n_full)):
        units.append(([(c, False)], True))
    for w in ("bare", "sib"):
        grp = [c for c in inert_sel if c["world"] == w]
        rng.shuffle(grp)
        for ch in chunks(grp, 40):
            units.append(([(c, i % 7 == 6) for i, c in enumerate(ch)], False))
    cases, meta = [], {}
    for n, (members, full) in enumerate(units):
        ops, ms = jail_unit(rng, members, n, full_start=full)
        cid = "j%d" % n
        cases.append({"id": cid, "ops": ops})
        meta[json.dumps(cid)] = (ops, ms)
    obs = run_chunked(binary, cases, 400, timeout=6000)
    stats = collections.Counter()
    for cid, (ops, ms) in meta.items():
        o = obs.get(cid)
        if o is None:
            raise Undecided("no observation for case %s" % cid)
        if isinstance(o, dict) and "died" in o:
            # a dying server is not by itself a C16 violation; the jail of this case cannot be compared any more
            raise Undecided("driver died in C16 unit %s (%s): %s" % ([m["key"] for m in ms][:3], o["died"], (o.get("stderr") or o.get("stdout") or "")[-400:]))
        if any(x.get("driver_error") for x in o if isinstance(x, dict)):
            raise Undecided("driver error in C16 unit %s: %s" % ([m["key"] for m in ms][:3], [x for x in o if x.get("driver_error")][:1]))
        for k in ms:
            c = k["c"]
            replay = {"check": "schema", "prop": "C16", "key": k["key"], "world": c["world"], "via": k["via"], "model_case": c,
                      "seed": vlib.seed(), "ops": ops, "full_start": k["full_start"]}
            res.cov["traces_validated_against_impl"] += 1
            stats["via_full_start" if k["full_start"] else "via_light_instance"] += 1
            snaps = [o[i] for i in k["snaps"]]
            if len(snaps) == 2 and len(c["steps"]) > 1:
                steps = [dict(op="+".join(s["op"] for s in c["steps"]), out=[])]      # batched member: predicted inert
            else:
                steps = c["steps"]
            for i, st in enumerate(steps):
                real = snap_diff(snaps[i], snaps[i + 1])
                exp = model_out(st, k["tok"], snaps[i])
                stats["requests"] += len(st["op"].split("+"))
                if not real:
                    if exp:
                        stats["model_predicted_escape_not_observed"] += 1
                    continue
                stats["requests_touching_outside"] += 1
                fits = (real <= exp) if k["inexact"] else (real == exp)
                if c["escapes"] and "JoinUnchecked" in known and fits:
                    res.known_finding(known["JoinUnchecked"], {"key": k["key"], "op": st["op"], "touched_outside_root": sorted(real)[:6]})
                    stats["known_escape_requests"] += 1
                    continue
                res.violation("request %s with key %r (world %s) changed the file system outside the data root: %s%s" % (
                    st["op"], k["key"], c["world"], sorted(real)[:12],
                    "" if not c["escapes"] else "; the key has the known '..' signature but the changes differ from the known behaviour %s" % sorted(exp)[:12]),
                    dict(replay, step=i))
                break
            res.sample({"key": k["key"], "world": c["world"], "ops": [s["op"] for s in c["steps"]], "escapes": c["escapes"]}, limit=4)
    res.cov["c16_stats"] = dict(stats)
    res.cov["distinct_keys_replayed"] = len({k["key"] for _, ms in meta.values() for k in ms})
    res.assumptions += ["lexical escapes only (no symbolic links inside the data root)",
                        "the class 'name' is concretised to odd but valid file names; names with NUL, ':' or 300 bytes are checked with the subset rule"]
    return res.finish()


# ======================================================================================================
# C14  schema pairs
# ======================================================================================================
NUM_TYPES = ["i1", "i2", "i4", "i8", "u1", "u2", "u4", "u8", "f4", "f8"]
BITS = {"i1": 8, "i2": 16, "i4": 32, "i8": 64, "u1": 8, "u2": 16, "u4": 32, "u8": 64}
FMT = {"i1": "<b", "i2": "<h", "i4": "<i", "i8": "<q", "u1": "<B", "u2": "<H", "u4": "<I", "u8": "<Q", "f4": "<f", "f8": "<d"}
SIZE = {t: struct.calcsize(f) for t, f in FMT.items()}


def f32(x):
    return struct.unpack("<f", struct.pack("<f", x))[0]


BOUNDARY = {
    "i1": [-128, 127, -1, 0, 1, 100],
    "i2": [-32768, 32767, -1, 0, 255, 256, -129],
    "i4": [-2 ** 31, 2 ** 31 - 1, -1, 65536, 2 ** 24 + 1, -32769, 128],
    "i8": [-2 ** 63, 2 ** 63 - 1, -1, 2 ** 53 + 1, 2 ** 32, 2 ** 60 + 2 ** 36 + 1, 2 ** 31, -2 ** 31 - 1, 200],
    "u1": [0, 255, 128, 127],
    "u2": [65535, 32768, 256, 1],
    "u4": [2 ** 32 - 1, 2 ** 31, 2 ** 24 + 1, 65536, 7],
    "u8": [2 ** 64 - 1, 2 ** 63, 2 ** 53 + 1, 2 ** 32, 1, 2 ** 60 + 2 ** 36 + 1],
    "f4": [f32(x) for x in [1.5, -2.75, 0.0, 16777216.0, 3.0e9, -0.5, 127.9, 1e-3, 255.99, -128.5, 65535.5, 3.0e38, -32768.0]],
    "f8": [-2.25, 0.1, 2.0 ** 53, 3.4e38, 1e-50, 16777217.0, 4294967295.5, -2147483648.9, 127.99999, 9.0e18, 255.5, -0.99, 1e15 + 0.5],
}


def is_int(t):
    return t[0] in "iu"


def int_range(t):
    b = BITS[t]
    return (-(1 << (b - 1)), (1 << (b - 1)) - 1) if t[0] == "i" else (0, (1 << b) - 1)


def wrap(x, t):
    """Go integer conversion: keep the low bits, reinterpret; i1 is kept as an unsigned byte (the element type is byte)"""
    b = BITS[t]
    x &= (1 << b) - 1
    if t[0] == "i" and t != "i1" and x >= 1 << (b - 1):
        x -= 1 << b
    return x


def int_to_f32_direct(x):
    """correctly rounded (single rounding, ties to even) float32 of an integer"""
    if x == 0:
        return 0.0
    sgn, a = (-1, -x) if x < 0 else (1, x)
    n = a.bit_length()
    if n <= 24:
        return float(sgn * a)
    sh = n - 24
    q, rem, half = a >> sh, a & ((1 << sh) - 1), 1 << (sh - 1)
    if rem > half or (rem == half and q & 1):
        q += 1
    return float(sgn * (q << sh))


def convertible(v, it, bt):
    """is the Go conversion of input value v (type it) to type bt defined by the language?"""
    if is_int(bt) and not is_int(it):
        lo, hi = int_range(bt)
        return lo <= int(v) <= hi and abs(v) < 2.0 ** 62
    if bt == "f4" and it == "f8":
        return abs(v) <= 3.4028234663852886e38
    return True


def conv(v, it, bt):
    """acceptable stored values (canonical form) of input value v of type it in a column of type bt; first = what
    the code's own path (via int64 / uint64 / float64) produces"""
    if is_int(bt):
        x = int(v) if not is_int(it) else v          # truncation toward zero
        return [wrap(x, bt)]
    if bt == "f8":
        return [float(v)]
    if is_int(it):
        return [f32(float(v)), int_to_f32_direct(v)]
    return [f32(v)]


def canon(v, t):
    """canonical form of a value read back from a column of type t"""
    if is_int(t):
        return wrap(int(v), t)
    return f32(float(v)) if t == "f4" else float(v)


def same_val(a, b, t):
    """values as they come back through JSON: the sign of zero and NaN payloads are not preserved"""
    if is_int(t):
        return a == b
    if a != a or b != b:
        return a != a and b != b
    return a == b


def pack_val(v, t):
    if t == "i1":
        return struct.pack("<B", v & 0xFF)
    return struct.pack(FMT[t], v)


def unpack_val(b, t):
    if t == "i1":
        return b[0]
    return struct.unpack(FMT[t], b)[0]


class TypePicker:
    """hands out concrete wire types so that every ordered pair of the 10 numeric types is used again and again"""

    def __init__(self, rng):
        self.pairs = [(a, b) for a in NUM_TYPES for b in NUM_TYPES if a != b]
        rng.shuffle(self.pairs)
        self.same = list(NUM_TYPES)
        rng.shuffle(self.same)
        self.i = self.j = 0
        self.used = collections.Counter()

    def pair(self):
        p = self.pairs[self.i % len(self.pairs)]
        self.i += 1
        self.used[p] += 1
        return p

    def one(self):
        t = self.same[self.j % len(self.same)]
        self.j += 1
        return t


def c14_concretise(rng, tp, bk, uid):
    """model request (list of bucket cases) -> concrete buckets: names, bucket types, input types, rows"""
    out = []
    for b, bc in enumerate(bk):
        bt, it = {}, {}
        ids = {}
        # model type ids are per (column name): equal id <=> equal wire type
        for col in bc["bs"]:
            ids.setdefault(col["n"], {})["b"] = col["t"]
        for col in bc["is"]:
            ids.setdefault(col["n"], {})["i"] = col["t"]
        for n, d in ids.items():
            if "b" in d and "i" in d and d["b"] != d["i"]:
                bt[n], it[n] = tp.pair()
            else:
                t = tp.one()
                if "b" in d:
                    bt[n] = t
                if "i" in d:
                    it[n] = t
        rows = []
        for r in range(2):
            vals = {}
            for n in it:
                tgt = bt.get(n, it[n])
                cand = [v for v in BOUNDARY[it[n]] if convertible(v, it[n], tgt)]
                vals[n] = rng.choice(cand)
            rows.append(vals)
        base = {n: rng.choice([v for v in BOUNDARY[bt[n]]]) for n in bt}
        out.append(dict(key="P%sb%d/1H/G" % (uid, b), absent=not bc["bs"], bnames=[c["n"] for c in bc["bs"]], inames=[c["n"] for c in bc["is"]],
                        bt=bt, it=it, rows=rows, base=base, epos=rng.randrange(len(bc["is"]) + 1)))
    return out


EB = 1583020800 + 3600 * 5      # 2020-03-01 05:00


def in_cols(cb):
    cols = [{"name": n, "type": cb["it"][n], "vals": [r[n] for r in cb["rows"]]} for n in cb["inames"]]
    cols.insert(cb["epos"], {"name": "Epoch", "type": "i8", "vals": [EB, EB + 3600]})
    return cols


def c14_ops(cbs, uid, via):
    ops = []
    for cb in cbs:
        if not cb["absent"]:
            ops.append({"op": "create", "key": cb["key"] + CK, "names": cb["bnames"], "types": [cb["bt"][n] for n in cb["bnames"]]})
            ops.append({"op": "write", "buckets": [{"key": cb["key"], "cols": [{"name": "Epoch", "type": "i8", "vals": [EB]}] + [
                {"name": n, "type": cb["bt"][n], "vals": [cb["base"][n]]} for n in cb["bnames"]]}]})
    i_req = len(ops)
    ops.append({"op": "write", "via": via, "buckets": [{"key": cb["key"], "cols": in_cols(cb)} for cb in cbs]})
    for cb in cbs:
        ops += [{"op": "getinfo", "key": cb["key"]}, {"op": "query", "dest": cb["key"]}]
    ops.append({"op": "write", "buckets": [{"key": "L%s/1H/G" % uid, "cols": [{"name": "Epoch", "type": "i8", "vals": [EB]}, {"name": "z", "type": "i4", "vals": [1]}]}]})
    for cb in cbs:
        ops += [{"op": "getinfo", "key": cb["key"]}, {"op": "query", "dest": cb["key"]}]
    for cb in cbs:
        ops.append({"op": "destroy", "key": cb["key"]})
    ops.append({"op": "destroy", "key": "L%s/1H/G" % uid})
    return ops, i_req


def bucket_state(gi, q, key):
    """observed state of a bucket: "absent" or (names, types, {epoch: [values]}) or an error string"""
    if gi.get("panic") or q.get("panic"):
        return "panic: %s" % (gi.get("panic") or q.get("panic"))
    if gi.get("err"):
        if "not found in catalog" in gi["err"]:
            return "absent"
        return "error: " + gi["err"]
    names, types = gi["names"][1:], gi["types"][1:]
    if gi["names"][0] != "Epoch":
        return "error: first column %s" % gi["names"][0]
    if q.get("err"):
        return "error: query: " + q["err"]
    rows = {}
    for k, cols in (q.get("result") or {}).items():
        if k.split(":")[0] != key:
            continue
        if not cols:
            continue                                   # an empty result carries no columns
        by = {c["name"]: c["vals"] for c in cols}
        if [c["name"] for c in cols] != ["Epoch"] + names:
            return "error: query columns %s vs bucket columns %s" % ([c["name"] for c in cols], names)
        for r, ep in enumerate(by.get("Epoch", [])):
            rows[ep] = [canon(by[n][r], t) for n, t in zip(names, types)]
    return (names, types, rows)


def expect_by_name(cb, stored, created_ok=True):
    """state the property demands: stored = the request's rows are in the bucket"""
    if cb["absent"]:
        if not stored:
            return "absent"
        names, types = cb["inames"], [cb["it"][n] for n in cb["inames"]]
        return (names, types, {EB + 3600 * r: [conv(row[n], cb["it"][n], cb["it"][n]) for n in names] for r, row in enumerate(cb["rows"])})
    names, types = cb["bnames"], [cb["bt"][n] for n in cb["bnames"]]
    rows = {EB: [[canon(cb["base"][n], cb["bt"][n])] for n in names]}
    if stored:
        for r, row in enumerate(cb["rows"]):
            rows[EB + 3600 * r] = [conv(row[n], cb["it"][n], cb["bt"][n]) for n in names]
    return (names, types, rows)


def expect_by_position(cb):
    """known deviation: the coerced input columns are serialised in INPUT order and read back with the bucket's layout"""
    names, types = cb["bnames"], [cb["bt"][n] for n in cb["bnames"]]
    rows = {}
    for r, row in enumerate(cb["rows"]):
        raw = b"".join(pack_val(conv(row[n], cb["it"][n], cb["bt"][n])[0], cb["bt"][n]) for n in cb["inames"])
        vals, off = [], 0
        for n in names:
            t = cb["bt"][n]
            vals.append([canon(unpack_val(raw[off:off + SIZE[t]], t), t)])
            off += SIZE[t]
        rows[EB + 3600 * r] = vals
    return (names, types, rows)


def state_matches(real, exp):
    if isinstance(real, str) or isinstance(exp, str):
        return real == exp
    rn, rt, rr = real
    en, et, er = exp
    if rn != en or rt != et or set(rr) != set(er):
        return False
    for ep in er:
        for v, alts, t in zip(rr[ep], er[ep], et):
            if not any(same_val(v, a, t) for a in alts):
                return False
    return True


def run_c14(res, tier, rng, binary):
    quick = tier == "quick"
    known = known_by_dev("C14")
    devs = '{"RejectedLeavesQueued", "ReorderedByPosition"}'
    inv = ["SetAlgebraDecidesNames", "CoercionListExact", "PureIsProperty", "PairDeviationsExplainAll", "Emit"]
    runs = {}
    jobs = []
    for name, consts in (("single", dict(Names='{"a","b","c"}', MaxCols=3, NTypes=2, MaxBuckets=1)),
                         ("double", dict(Names='{"a","b"}', MaxCols=2, NTypes=2, MaxBuckets=2))):
        jobs.append(("Schema", "Schema_pairs_%s.cfg" % name,
                     vlib.cfg_text(dict(Mode='"pairs"', Deviations=devs, **consts, **HDR_DUMMY), invariants=inv), 4))
    out = tlc_many(res, jobs)
    for name in ("single", "double"):
        r = out["Schema_pairs_%s.cfg" % name]
        if r["records"].get("BAD") or not r["records"].get("CASE"):
            raise Undecided("TLC case export incomplete for %s" % name)
        runs[name] = r["records"]["CASE"]
    # group the behaviours of a request (one per map iteration order)
    reqs = collections.OrderedDict()
    for name in ("single", "double"):
        for c in sorted(runs[name], key=lambda c: json.dumps(c, sort_keys=True)):
            reqs.setdefault(json.dumps(c["bk"], sort_keys=True), []).append(c)
    singles = [v for v in reqs.values() if len(v[0]["bk"]) == 1]
    doubles = [v for v in reqs.values() if len(v[0]["bk"]) == 2]
    res.cov["requests_enumerated"] = {"single_bucket": len(singles), "two_bucket": len(doubles)}
    if quick:
        sel = rng.sample(singles, 450) + rng.sample(doubles, 160)
        reps = 3
    else:
        sel, reps = singles + doubles, 4
    tp = TypePicker(rng)
    # driver cases: batches of 40 requests, each batch starts its own instance on its own root (a dying server then
    # costs one batch) and removes the root afterwards
    units, n = [], 0
    for beh in sel:
        bk = beh[0]["bk"]
        rejected_multi = len(bk) == 2 and beh[0]["expect"]["res"] == "err"
        for rep in range(reps if rejected_multi else 1):
            n += 1
            cbs = c14_concretise(rng, tp, bk, n)
            same_input = all([(c["name"], c["type"]) for c in in_cols(cb)] == [(c["name"], c["type"]) for c in in_cols(cbs[0])] for cb in cbs)
            via = rng.choice(["rpc", "csm"]) if same_input else "csm"
            ops, i_req = c14_ops(cbs, n, via)
            units.append((beh, cbs, ops, i_req, via))
    cases, meta = [], {}
    for g, ch in enumerate(chunks(units, 40)):
        root = os.path.join(vlib.scratch(), "root_C14_%d" % g)
        all_ops = [{"op": "start", "root": root}]
        for j, (beh, cbs, ops, i_req, via) in enumerate(ch):
            meta["%d.%d" % (g, j)] = (beh, cbs, ops, i_req, via, json.dumps("g%d" % g), len(all_ops))
            all_ops += ops
        all_ops.append({"op": "rmworld", "x": {"dir": root}})
        cases.append({"id": "g%d" % g, "ops": all_ops})
    obs = vlib.run_cases(binary, cases, timeout=6000)
    stats = collections.Counter()
    dead = set()
    for cid, (beh, cbs, ops, i_req, via, gid, at) in meta.items():
        o = obs.get(gid)
        if isinstance(o, list):
            o = o[at:at + len(ops)]
        elif isinstance(o, dict) and "died" in o:
            if gid in dead:
                continue
            dead.add(gid)
        bk = beh[0]["bk"]
        replay = {"check": "schema", "prop": "C14", "request": bk, "buckets": cbs, "via": via, "ops": ops, "seed": vlib.seed()}
        if o is None:
            raise Undecided("no observation for case %s" % cid)
        if isinstance(o, dict) and "died" in o:
            res.violation("server process died (%s) during a batch of write requests (first: %s): %s" % (
                o["died"], [cb["key"] for cb in cbs], (o.get("stderr") or o.get("stdout") or "")[-400:]),
                dict(replay, ops=[x for x in cases if json.dumps(x["id"]) == gid][0]["ops"]))
            continue
        if any(x.get("driver_error") for x in o):
            raise Undecided("driver error in C14 case %s: %s" % (cid, [x for x in o if x.get("driver_error")][:1]))
        if any(x.get("err") or x.get("panic") for x in o[:i_req]):
            raise Undecided("set-up of C14 case %s failed: %s" % (cid, [x for x in o[:i_req] if x.get("err") or x.get("panic")][:1]))
        res.cov["traces_validated_against_impl"] += 1
        nb = len(cbs)
        w = o[i_req]
        real_err = bool(w.get("err") or w.get("panic"))
        now = [bucket_state(o[i_req + 1 + 2 * b], o[i_req + 2 + 2 * b], cbs[b]["key"]) for b in range(nb)]
        lw = o[i_req + 1 + 2 * nb]
        later = [bucket_state(o[i_req + 2 + 2 * nb + 2 * b], o[i_req + 3 + 2 * nb + 2 * b], cbs[b]["key"]) for b in range(nb)]
        if lw.get("err") or lw.get("panic"):
            raise Undecided("the later successful write failed in case %s: %s" % (cid, lw))
        e = beh[0]["expect"]
        stats["rejected" if e["res"] == "err" else "accepted"] += 1
        stats["via_" + via] += 1
        if w.get("panic"):
            res.violation("write request panicked: %s (buckets %s)" % (w["panic"], [(cb["bnames"], cb["inames"]) for cb in cbs]), replay)
            continue
        pure = [expect_by_name(cb, (b + 1) in e["stored"]) for b, cb in enumerate(cbs)]
        if real_err == (e["res"] == "err") and all(state_matches(now[b], pure[b]) and state_matches(later[b], pure[b]) for b in range(nb)):
            if nb == 2 and e["res"] == "err":
                stats["rejected_two_bucket_requests_without_effect"] += 1
            continue
        # not the property's answer: is it exactly a known deviation?
        explained = None
        for c in beh:
            if not c["hit"]:
                continue
            k = c["known"]
            def dev_state(b, stored):
                cb = cbs[b]
                if cb["absent"]:
                    if (b + 1) not in k["created"]:
                        return "absent"
                    if not stored:
                        return (cb["inames"], [cb["it"][n_] for n_ in cb["inames"]], {})
                    return expect_by_name(cb, True)
                if stored and k["layout"][b] == "by_position":
                    st = expect_by_position(cb)
                    if EB not in st[2]:
                        st[2][EB] = [[canon(cb["base"][n_], cb["bt"][n_])] for n_ in cb["bnames"]]
                    return st
                return expect_by_name(cb, stored)
            if real_err == (k["res"] == "err") and all(
                    state_matches(now[b], dev_state(b, (b + 1) in k["stored_now"])) and
                    state_matches(later[b], dev_state(b, (b + 1) in k["stored_later"])) for b in range(nb)):
                explained = c
                break
        if explained is not None:
            stats["explained_by_known_deviation"] += 1
            if "RejectedLeavesQueued" in explained["hit"]:
                stats["rejected_two_bucket_requests_leaving_rows"] += 1
            for d in explained["hit"]:
                if d in known:
                    res.known_finding(known[d], {"buckets": [{"key": cb["key"], "bucket_columns": [(n_, cb["bt"][n_]) for n_ in cb["bnames"]],
                                                              "input_columns": [(n_, cb["it"][n_]) for n_ in cb["inames"]]} for cb in cbs],
                                                 "map_order": explained["order"], "write_error": w.get("err")})
                else:
                    res.violation("deviation %s observed but not listed as a known finding (request %s)" % (d, bk), replay)
            continue
        res.violation("write request over buckets %s: error=%r; state right after the request %s, after the next flush %s; "
                      "the property demands error=%s and state %s" % (
                          [(cb["key"], "bucket cols %s" % [(n_, cb["bt"][n_]) for n_ in cb["bnames"]] if not cb["absent"] else "absent",
                            "input cols %s" % [(n_, cb["it"][n_]) for n_ in cb["inames"]], "rows %s" % cb["rows"]) for cb in cbs],
                          w.get("err"), str(now)[:500], str(later)[:500], e["res"] == "err", str(pure)[:500]), replay)
        res.sample({"request": bk, "via": via, "buckets": [{"key": cb["key"], "bt": cb["bt"], "it": cb["it"], "rows": cb["rows"]} for cb in cbs]}, limit=3)
    if not res.cov["samples"]:
        cid, (beh, cbs, ops, i_req, via, gid, at) = next(iter(meta.items()))
        res.sample({"request": beh[0]["bk"], "via": via, "buckets": [{"key": cb["key"], "bt": cb["bt"], "it": cb["it"], "rows": cb["rows"]} for cb in cbs]})
    res.cov["c14_stats"] = dict(stats)
    res.cov["ordered_type_pairs_used"] = len(tp.used)
    res.assumptions += ["fixed-length buckets, timeframe 1H", "float -> integer conversions only for values representable in the target type (Go leaves the rest implementation-defined)",
                        "integer -> f4 accepts the correctly rounded value and the value rounded via float64"]
    return res.finish()


# ======================================================================================================
# C15  header regions
# ======================================================================================================
WIRE = ["i1", "i2", "i4", "i8", "u1", "u2", "u4", "u8", "f4", "f8", "U16"]
ONE = {"i1": 1, "i2": -2, "i4": 3, "i8": -4, "u1": 5, "u2": 6, "u4": 7, "u8": 8, "f4": 1.5, "f8": -2.25}


def year_start(y):
    import calendar
    return calendar.timegm((y, 1, 1, 0, 0, 0))


def long_name(length, uid):
    base = "L%dx" % (uid % 10)
    fill = "abcdefghijklmnopqrstuvwxyzABCDEFGHIJKLMNOPQRSTUVWXYZ0123456789-_"
    if length <= len(base):
        return "xyzw"[uid % 4] if length == 1 else base[:length]
    return (base + fill * 2)[:length]


def c15_concretise(rng, m, uid, now_year):
    c = m["c"]
    n = c["n"]
    names = ["c%d" % i for i in range(1, n + 1)]
    lidx = 0 if c["lpos"] == "first" else n - 1
    names[lidx] = long_name(c["len"], uid)
    types = [WIRE[c["ty"] - 1] if c["ty"] <= 11 else WIRE[i % 10] for i in range(n)]
    key = "H%d/%s/G" % (uid, c["tf"])
    var = c["rt"] == "V"
    wy = rng.choice([now_year, now_year, 2031, 2040])
    ep = None
    if c["wr"] == "first":
        ep = year_start(wy)
    elif c["wr"] == "mid":
        ep = year_start(wy) + 86400 * 40 + (3600 * 7 if c["tf"] == "1Min" else 0)

    def row(epoch):
        cols = [{"name": "Epoch", "type": "i8", "vals": [epoch]}] + [{"name": nm, "type": t, "vals": [ONE[t]]} for nm, t in zip(names, types)]
        if var:
            cols.append({"name": "Nanoseconds", "type": "i4", "vals": [0]})
        return {"op": "write", "var": var, "buckets": [{"key": key, "cols": cols}]}
    a_ops = [{"op": "create", "key": key + CK, "names": names, "types": types, "var": var}, {"op": "getinfo", "key": key}]
    if ep is not None:
        a_ops.append(row(ep))
    b_ops = [{"op": "getinfo", "key": key}]
    writable = "U16" not in types
    if writable:
        b_ops += [row(year_start(wy) + 86400 * 100), {"op": "getinfo", "key": key}]
    return dict(m=m, key=key, names=names, types=types, var=var, tf_ns=(86400 if c["tf"] == "1D" else 60) * 10 ** 9, lidx=lidx,
                a_ops=a_ops, b_ops=b_ops, writable=writable, write_epoch=ep)


def info_schema(gi):
    if gi.get("panic"):
        return "panic: " + gi["panic"][:200]
    if gi.get("err"):
        return "absent" if "not found in catalog" in gi["err"] else "error: " + gi["err"]
    if not gi["names"] or gi["names"][0] != "Epoch" or gi["types"][0] != "i8":
        return "error: no leading Epoch column: %s" % gi["names"][:3]
    return dict(names=gi["names"][1:], types=gi["types"][1:], var=gi["var"], tf_ns=gi["tf_ns"])


def schema_diff(k, sc):
    """indices (1-based) where the reported schema differs from the created one; None if the shape itself differs"""
    if not isinstance(sc, dict) or sc["var"] != k["var"] or sc["tf_ns"] != k["tf_ns"] or len(sc["names"]) != len(k["names"]):
        return None
    dn = [i + 1 for i, (x, y) in enumerate(zip(sc["names"], k["names"])) if x != y]
    dt = [i + 1 for i, (x, y) in enumerate(zip(sc["types"], k["types"])) if x != y]
    return dn, dt


def short(sc):
    if not isinstance(sc, dict):
        return sc
    return dict(sc, names=sc["names"][:4] + ["..."] * (len(sc["names"]) > 4), types=sc["types"][:4] + ["..."] * (len(sc["types"]) > 4), n=len(sc["names"]))


def run_c15(res, tier, rng, binary):
    import datetime
    quick = tier == "quick"
    known = known_by_dev("C15")
    devs = '{"NameTruncated32", "TooManyColumnsPanic", "DailyJan1Hole"}'
    consts = dict(Mode='"header"', Counts="{1, 2, 255, 437, 438, 1024, 1025}", Lens="{1, 31, 32, 33, 40, 64}", TypePats="{1, 2, 3, 4, 5, 6, 7, 8, 9, 10, 11, 12}",
                  RecTypes='{"F", "V"}', Tfs='{"1D", "1Min"}', WritePats='{"none", "mid", "first"}', **PAIR_DUMMY)
    inv = ["PureHeaderFaithful", "RegionsFit", "HeaderDeviationsExplainAll", "HoleOnlyDaily"]
    out = tlc_many(res, [("Schema", "Schema_header_pure.cfg", vlib.cfg_text(dict(consts, Deviations="{}"), invariants=inv), None),
                         ("Schema", "Schema_header_dev.cfg", vlib.cfg_text(dict(consts, Deviations=devs), invariants=inv + ["Emit"]), 4)])
    r = out["Schema_header_dev.cfg"]
    allc = sorted(r["records"].get("HDR", []), key=lambda c: json.dumps(c, sort_keys=True))
    if r["records"].get("BAD") or len(allc) * 3 != r["distinct"]:
        raise Undecided("TLC case export incomplete: %d cases, %d states" % (len(allc), r["distinct"]))
    res.cov["cases_enumerated"] = len(allc)

    def dangerous(m):
        k = m["known"]
        return k["created"] != "ok" and m["c"]["n"] > 1024 or k["bad_fixed"] or k["bad_types"]["lo"] or k["bad_names"]["lo"]
    danger = [m for m in allc if dangerous(m)]
    trunc = [m for m in allc if not dangerous(m) and "NameTruncated32" in m["hit"]]
    small = [m for m in allc if not dangerous(m) and "NameTruncated32" not in m["hit"] and m["c"]["n"] <= 2]
    big = [m for m in allc if not dangerous(m) and "NameTruncated32" not in m["hit"] and m["c"]["n"] > 2]
    if quick:
        panics = [m for m in danger if m["c"]["n"] > 1024]
        holes = [m for m in danger if m["c"]["n"] <= 1024]
        sel_d = rng.sample(panics, 3) + rng.sample(holes, min(len(holes), 6))
        sel = rng.sample(trunc, 30) + rng.sample(small, 130) + rng.sample(big, 12)
    else:
        sel_d = rng.sample(danger, min(len(danger), 100))
        sel = rng.sample(trunc, min(len(trunc), 600)) + small + rng.sample(big, min(len(big), 300))
    res.cov["cases_selected"] = {"dangerous": len(sel_d), "other": len(sel)}
    now_year = datetime.datetime.utcnow().year
    # units: A = before the restart, B = after; dangerous cases alone, the others in batches on one root
    rng.shuffle(sel)
    groups = [[m] for m in sel_d]
    light = [m for m in sel if m["c"]["n"] <= 2]
    heavy = [m for m in sel if m["c"]["n"] > 2]
    groups += list(chunks(light, 12)) + list(chunks(heavy, 3))
    cases, meta = [], []
    uid = 0
    for g, members in enumerate(groups):
        root = os.path.join(vlib.scratch(), "root_C15_%d" % g)
        ks = []
        a_ops, b_ops = [{"op": "start", "root": root}], [{"op": "start", "root": root}]
        for m in members:
            uid += 1
            k = c15_concretise(rng, m, uid, now_year)
            k["a_at"], k["b_at"] = len(a_ops), len(b_ops)
            a_ops += k["a_ops"]
            b_ops += k["b_ops"]
            ks.append(k)
        # a clean stop (final checkpoint + shutdown, like SyncWAL does on exit) for wide schemas; the narrow ones are
        # stopped either way (the leftover WAL is then replayed by the next start)
        clean = any(k["m"]["c"]["n"] > 2 for k in ks) or rng.random() < 0.5
        if clean:
            a_ops += [{"op": "checkpoint"}, {"op": "shutdown"}]
        b_ops.append({"op": "rmworld", "x": {"dir": root}})
        cases.append({"id": "A%d" % g, "ops": a_ops})
        cases.append({"id": "B%d" % g, "ops": b_ops})
        meta.append((g, ks, a_ops, b_ops))
    obs = run_chunked(binary, cases, 60, timeout=6000)
    stats = collections.Counter()
    for g, ks, a_ops, b_ops in meta:
        oa, ob = obs.get(json.dumps("A%d" % g)), obs.get(json.dumps("B%d" % g))
        if oa is None or ob is None:
            raise Undecided("no observation for C15 unit %d" % g)
        replay_unit = {"check": "schema", "prop": "C15", "seed": vlib.seed(), "ops_before_restart": a_ops if len(json.dumps(a_ops)) < 200000 else "(large)",
                       "ops_after_restart": b_ops if len(json.dumps(b_ops)) < 200000 else "(large)", "cases": [k["m"]["c"] for k in ks]}
        a_died = isinstance(oa, dict) and "died" in oa
        b_died = isinstance(ob, dict) and "died" in ob
        for x in ([] if a_died else oa) + ([] if b_died else ob):
            if isinstance(x, dict) and x.get("driver_error"):
                raise Undecided("driver error in C15 unit %d: %s" % (g, x))
        if not b_died and (ob[0].get("panic") or ob[0].get("err")) and not any(dangerous(k["m"]) for k in ks):
            res.violation("the server did not come up again on the root holding %s: %s" % ([k["key"] for k in ks], str(ob[0].get("panic") or ob[0].get("err"))[:300]),
                          dict(replay_unit, restart_stack=(ob[0].get("stack") or "")[:1500]))
            continue
        for k in ks:
            m, c = k["m"], k["m"]["c"]
            kn = m["known"]
            res.cov["traces_validated_against_impl"] += 1
            desc = "bucket %s (%d columns, long name of %d bytes %s, types %s%s, %s, %s, write pattern %s)" % (
                k["key"], c["n"], c["len"], c["lpos"], k["types"][:3], "..." if c["n"] > 3 else "", "variable" if k["var"] else "fixed", c["tf"], c["wr"])
            replay = dict(replay_unit, key=k["key"], case=c, names=k["names"][:3] + k["names"][-1:], write_epoch=k["write_epoch"])
            if a_died:
                res.violation("server process died (%s) while creating / writing %s: %s" % (oa["died"], desc, (oa.get("stderr") or oa.get("stdout") or "")[-300:]), replay)
                continue
            cr = oa[k["a_at"]]
            created = "panic" if cr.get("panic") else ("rejected" if cr.get("err") else "ok")
            stats["create_" + created] += 1
            wr1 = oa[k["a_at"] + 2] if k["write_epoch"] is not None else {}
            if b_died:
                # the server did not survive reading the buckets back
                if len(ks) == 1 and kn["created"] == "panic_empty_file" and created == "panic" and "TooManyColumnsPanic" in known:
                    res.known_finding(known["TooManyColumnsPanic"], {"key": k["key"], "columns": c["n"], "create": cr.get("panic"),
                                                                     "after_restart": "process ended: " + (ob.get("stdout") or ob.get("stderr") or "")[-160:]})
                    stats["known_panic_then_fatal"] += 1
                    continue
                if len(ks) == 1 and "DailyJan1Hole" in m["hit"] and (kn["bad_fixed"] or kn["bad_types"]["lo"] or kn["bad_names"]["lo"]) and "DailyJan1Hole" in known:
                    res.known_finding(known["DailyJan1Hole"], {"key": k["key"], "columns": c["n"], "record_length": m["reclen"],
                                                               "after_restart": "process ended: " + (ob.get("stdout") or ob.get("stderr") or "")[-160:]})
                    stats["known_header_overwritten"] += 1
                    continue
                res.violation("server process died (%s) after the restart while reporting the schema of %s: %s" % (
                    ob["died"], desc if len(ks) == 1 else [x["key"] for x in ks], (ob.get("stderr") or ob.get("stdout") or "")[-300:]), replay)
                break
            info2 = info_schema(ob[k["b_at"]])
            w2 = ob[k["b_at"] + 1] if k["writable"] else {}
            info3 = info_schema(ob[k["b_at"] + 2]) if k["writable"] else info2
            want = dict(names=k["names"], types=k["types"], var=k["var"], tf_ns=k["tf_ns"])
            if created in ("rejected", "panic") and info2 == "absent":
                stats["rejected_cleanly" if created == "rejected" else "panicked_but_absent_after_restart"] += 1
                continue                                           # rejected: nothing to preserve
            if created == "panic" and kn["created"] == "panic_empty_file" and "TooManyColumnsPanic" in known and info2 != want:
                res.known_finding(known["TooManyColumnsPanic"], {"key": k["key"], "columns": c["n"], "create": cr.get("panic"),
                                                                 "after_restart": short(info2)})
                stats["known_panic_then_garbage"] += 1
                continue
            if created == "ok" and info2 == want and info3 == want and not (w2.get("err") or w2.get("panic")) and not (wr1.get("err") or wr1.get("panic")):
                stats["preserved"] += 1
                if not m["expect"] == "ok":
                    stats["preserved_although_model_says_unfaithful"] += 1
                res.sample({"key": k["key"], "case": c, "reported_after_restart": short(info2)}, limit=3)
                continue
            # not the property's answer.  Exactly a known deviation?
            hit = set(m["hit"])
            ok_known = False
            if created == "ok" and kn["created"] == "ok" and hit and hit <= set(known):
                exp_names = list(k["names"])
                if "NameTruncated32" in hit:
                    exp_names[k["lidx"]] = k["names"][k["lidx"]].encode()[:32].decode("utf-8", "replace")
                bad_n = set(range(kn["bad_names"]["lo"], kn["bad_names"]["hi"] + 1)) if kn["bad_names"]["lo"] else set()
                bad_t = set(range(kn["bad_types"]["lo"], kn["bad_types"]["hi"] + 1)) if kn["bad_types"]["lo"] else set()

                def fits(sc):
                    if not isinstance(sc, dict):
                        return bool(kn["bad_fixed"] or bad_n or bad_t) and not sc == "absent"
                    d = schema_diff(dict(k, names=exp_names), sc)
                    if d is None:
                        return bool(kn["bad_fixed"])
                    return set(d[0]) <= bad_n and set(d[1]) <= bad_t
                w2_ok = not (w2.get("err") or w2.get("panic"))
                # a bucket that enforces a truncated name rejects the created one; a corrupted header may reject anything
                w2_fits = (not w2_ok) if (k["writable"] and "NameTruncated32" in hit and not (bad_n or bad_t or kn["bad_fixed"])) else True
                wr1_ok = not (wr1.get("err") or wr1.get("panic"))
                ok_known = fits(info2) and fits(info3) and w2_fits and (wr1_ok or "NameTruncated32" in hit)
            if ok_known:
                for d in sorted(hit):
                    if d == "DailyJan1Hole" and schema_diff(dict(k, names=exp_names), info2) == ([], []) and schema_diff(dict(k, names=exp_names), info3) == ([], []):
                        continue                                   # the hole was hit but no visible schema byte changed
                    res.known_finding(known[d], {"key": k["key"], "columns": c["n"], "created_long_name": k["names"][k["lidx"]][:70], "record_length": m["reclen"],
                                                 "reported_after_restart": short(info2), "write_with_created_schema": w2.get("err") or w2.get("panic")})
                    stats["known_" + d] += 1
                continue
            res.violation("%s: create -> %s; after a restart the server reports %s (after one more write: %s), a write with the created schema -> %r; "
                          "created: %s" % (desc, cr.get("panic") or cr.get("err") or "ok", short(info2), short(info3), w2.get("err") or w2.get("panic"),
                                           short(want)), replay)
    res.cov["c15_stats"] = dict(stats)
    if not res.cov["samples"]:
        res.sample({"cases": [k["m"]["c"] for k in meta[0][1]][:3]})
    res.assumptions += ["one long column name per schema, the others are short and unique", "U16 columns are created and reloaded but never written",
                        "the restart is a second instance start on the same root inside the driver process"]
    return res.finish()


def replay(rp):
    """python3 tools/check.py --replay replays/Cxx_<hash>.json : run the recorded ops again and print what the code does"""
    r = rp["replay"]
    binary = vlib.build_harness(cmd="mv_schema")
    print("property %s: %s" % (rp["property"], rp["description"][:2000]))
    if "ops" in r:
        scripts = [("ops", r["ops"])]
    else:
        scripts = [("before restart", r.get("ops_before_restart")), ("after restart", r.get("ops_after_restart"))]
    cases = [{"id": name, "ops": ops} for name, ops in scripts if isinstance(ops, list)]
    if not cases:
        print("the recorded ops were too large to store; re-run the check with VERIF_SEED=%s" % r.get("seed"))
        return 2
    if not any(o.get("op") in ("start", "jstart") for o in cases[0]["ops"]):
        cases[0]["ops"].insert(0, {"op": "start", "root": os.path.join(vlib.scratch(), "root_replay")})
    obs = vlib.run_cases(binary, cases)
    for c in cases:
        o = obs.get(json.dumps(c["id"]))
        print("--", c["id"])
        if isinstance(o, dict):
            print("   process died:", o)
            continue
        for op, ob in zip(c["ops"], o):
            what = op.get("key") or op.get("dest") or [b["key"] for b in op.get("buckets", [])] or ""
            print("   %-8s %-40s -> %s" % (op["op"], str(what)[:40], json.dumps({k: v for k, v in ob.items() if k != "stack"})[:300]))
    return 1


def run(prop, tier):
    if prop in ("C14", "C16"):      # (C15 uses column names that are not valid UTF-8: protobuf strings cannot carry them)
        os.environ.setdefault("VERIF_FRONT", "mix")
    res = Result(prop, tier)
    salt = {"C14": 14, "C15": 15, "C16": 16}[prop]
    rng = random.Random(vlib.seed() * 7919 + salt)
    binary = vlib.build_harness(cmd="mv_schema")
    if prop == "C16":
        return run_c16(res, tier, rng, binary)
    if prop == "C14":
        return run_c14(res, tier, rng, binary)
    if prop == "C15":
        return run_c15(res, tier, rng, binary)
    raise Undecided("not built yet")
