"""C14 / C15 / C16: bucket schemas and key paths.  Schema.tla / PathJail.tla cases replayed into the real DataService."""
PROPS = ["C14", "C15", "C16"]
READY = False
CLAIMS = {
 "C14": dict(technique="TLA+ model of Writer.WriteCSM (map-order loop, length check, GetMissingAndTypeCoercionColumns set algebra, queue-then-flush) checked by TLC against 'names match => stored by name, else nothing changes'; every TLC-enumerated schema pair / two-bucket request replayed into the real writer",
             text="TLC enumerates every pair <bucket schema, input schema> of <=3 columns over 3 names and 2 type ids (missing, extra, renamed, reordered, retyped, bucket absent) and every two-bucket request over the 2-name universe in both map iteration orders; it proves that the implementation-shaped check accepts exactly the name-matching pairs, that its coercion list is exactly the retyped columns and that the pure implementation satisfies the property. Every case is concretised (type ids -> ordered pairs of the 10 numeric wire types, boundary values) and replayed through DataService.Write / Writer.WriteCSM; error, contents of every bucket of the request right after the request and after a later successful write are compared with the property's answer.",
             note="Trusted: TLC, the Python numeric-conversion oracle (integer wrap, truncation toward zero, IEEE rounding; float->int only for representable values because Go leaves the rest implementation-defined; int->f4 accepts direct and via-f64 rounding). Bounded: 3 names, 3 columns, 2 buckets per request, 2 rows per bucket."),
 "C15": dict(technique="TLA+ model of the year-file header as byte regions (fixed part, 1024 x 32-byte names, 1024 type bytes, reserved tail) with Create / record write at IndexToOffset / reload, checked by TLC; every enumerated creation replayed into the real server with a restart",
             text="TLC enumerates column counts {1,2,255,437,438,1024,1025}, name lengths {1,31,32,33,40,64}, all 11 wire types and a rotating mix, both record types, timeframes 1D and 1Min and write patterns (none, mid-year, first interval of the year) and proves that the pure header model reports the created schema or rejects. Each case is replayed: Create, writes, restart on the same root, GetInfo, and a write with the created schema; the reported schema must equal the created one or the creation must have been rejected.",
             note="Trusted: TLC, the region arithmetic of the model (checked against metadata.go constants by ASSUME). Bounded: one long name per schema; U16 columns are created but not written (driver cannot encode them)."),
 "C16": dict(technique="TLA+ model of filepath.Join as a stack machine driving the per-component mkdir / category_name loop of AddTimeBucket, the in-memory alias of the first component and the RemoveAll loop of RemoveTimeBucket; invariant TouchedUnderRoot checked by TLC; every enumerated key replayed into the real DataService inside a snapshotted jail",
             text="TLC enumerates every key of <=4 components over {name, timeframe, '.', '..', '', the root's own name, a sibling's name} x three category layouts x two surrounding worlds x the op sequences query/destroy/create/destroy and write/query/destroy, proves TouchedUnderRoot for the validating implementation and computes the exact touch set of the unchanged one. Each case runs through the real DataService with the root nested four directories deep in a jail; everything outside the root is snapshotted (names, kinds, sizes, mtimes, inodes, SHA-1) before and after every request.",
             note="Trusted: TLC, the snapshot op of the driver. Lexical escapes only (no symlinks). Odd characters are concretisations of the 'name' class."),
}
import collections, itertools, json, os, random, re, struct, time
import vlib
from vlib import Result, Undecided

HDR_DUMMY = dict(Counts="{1}", Lens="{1}", TypePats="{1}", RecTypes='{"F"}', Tfs='{"1D"}', WritePats='{"none"}')
PAIR_DUMMY = dict(Names='{"a"}', MaxCols=1, NTypes=1, MaxBuckets=1)
CK = ":Symbol/Timeframe/AttributeGroup"


def tlaset(xs):
    return "{" + ", ".join('"%s"' % x if isinstance(x, str) else str(x) for x in xs) + "}"


def known_by_dev(prop):
    return {k["deviation"]: k for k in vlib.known_findings(prop)}


def chunks(xs, n):
    for i in range(0, len(xs), n):
        yield xs[i:i + n]


def run_chunked(binary, cases, size, timeout):
    """one driver process per chunk (every `start` keeps a WAL file and goroutines alive)"""
    obs = {}
    t_end = time.time() + timeout
    for ch in chunks(cases, size):
        obs.update(vlib.run_cases(binary, ch, timeout=max(30, t_end - time.time())))
    return obs


# ======================================================================================================
# C16  path jail
# ======================================================================================================
ROOT_REL = "jail/l1/l2/l3/root"
SAFE_NAMES = ["A", "a b", "...", "..%2f..", "%2e%2e", "~", "$HOME", "名前", "A\\..\\B", "-rf", "con", "..;", ".. ", " ..",
              "..\t", "*", "?x", "a|b", "etc", "tmp", "dev", "....", ".hidden", "..a"]
INEXACT_NAMES = ["A\u0000", "..\u0000", "n" * 300, "A:B", ":"]
TF_NAMES = ["1Min", "1D", "1H", "5Min", "1Sec", "15Min"]
E0 = 1577836800 + 86400 * 5


def jail_concretise(rng, c, widx, inexact=False):
    nm = rng.choice(INEXACT_NAMES) if inexact else rng.choice(SAFE_NAMES)
    tfn = rng.choice(TF_NAMES)
    tok = {"N": nm, "T": tfn, "D": ".", "U": "..", "E": "", "R": "root", "S": "sib"}
    items = [tok[t] for t in c["items"]]
    key = "/".join(items) + ":" + "/".join(c["cats"])
    W = os.path.join(vlib.scratch(), "w16", "w%d" % widx)
    root = os.path.join(W, ROOT_REL)
    files = {"canary0": "c0", "jail/canary": "cj", "jail/l1/canary": "c1", "jail/l1/l2/canary": "c2", "jail/l1/l2/l3/canary": "c3"}
    dirs = [ROOT_REL]
    if c["world"] == "sib":
        dirs.append("jail/l1/l2/l3/sib/keep")
        files["jail/l1/l2/l3/sib/keep/2020.bin"] = "foreign data"
        files["jail/l1/l2/l3/sib/notes.txt"] = "foreign notes"
    sx = {"dir": W, "exclude": [root]}
    via = rng.choice(["csm", "rpc"])
    ops = [{"op": "world", "x": {"dir": W, "dirs": dirs, "files": files}}, {"op": "start", "root": root}, {"op": "snap", "x": sx}]
    for st in c["steps"]:
        if st["op"] == "create":
            ops.append({"op": "create", "key": key, "names": ["a"], "types": ["i4"]})
        elif st["op"] == "write":
            ops.append({"op": "write", "via": via, "buckets": [{"key": key, "cols": [
                {"name": "Epoch", "type": "i8", "vals": [E0]}, {"name": "a", "type": "i4", "vals": [7]}]}]})
        elif st["op"] == "query":
            ops.append({"op": "query", "dest": key})
        else:
            ops.append({"op": "destroy", "key": key})
        ops.append({"op": "snap", "x": sx})
    ops.append({"op": "rmworld", "x": {"dir": W}})
    return dict(key=key, tok=tok, ops=ops, inexact=inexact, via=via)


YEARBIN = re.compile(r"^\d{1,5}\.bin$")


def norm_rel(p):
    parts = p.split("/")
    if YEARBIN.match(parts[-1]):
        parts[-1] = "YEAR.bin"
    return "/".join(parts)


def snap_diff(a, b):
    """real changes between two snapshots, outside the root: set of (sign, relpath).  A directory whose only change is
    its mtime is ignored when its set of direct children changed (that explains the mtime); the root entry itself
    (kind 'x') is inside the root by definition."""
    a, b = a["ents"], b["ents"]
    out = set()
    changed_parent = set()
    for p in set(a) | set(b):
        if p not in a or p not in b or (a[p][0] == "x" and a[p][4] != b[p][4]):
            changed_parent.add(os.path.dirname(p) or ".")
    for p in set(a) | set(b):
        if (a.get(p) or b.get(p))[0] == "x":
            continue
        if p not in a:
            out.add(("+", norm_rel(p)))
        elif p not in b:
            out.add(("-", norm_rel(p)))
        elif a[p] != b[p]:
            if a[p][0] == "d" and b[p][0] == "d" and p in changed_parent:
                continue
            out.add(("~", norm_rel(p)))
    return out


def model_out(step, tok, before):
    """the model's touches outside the root of one step -> expected snapshot changes"""
    exp = set()
    names = {"N": tok["N"], "T": tok["T"]}
    for t in step["out"]:
        rel = "/".join(names.get(x, x) for x in t["p"])
        if t["k"] in ("mkdir", "file"):
            exp.add(("+", rel))
        elif t["k"] == "write":
            if not any(u["k"] == "file" and u["p"] == t["p"] for u in step["out"]):
                exp.add(("~", rel))
        elif t["k"] == "rm":
            for q, ent in before["ents"].items():
                if ent[0] != "x" and (q == rel or q.startswith(rel + "/")):
                    exp.add(("-", norm_rel(q)))
    return exp


def run_c16(res, tier, rng, binary):
    quick = tier == "quick"
    known = known_by_dev("C16")
    alpha = '{"N","T","D","U","E","R","S"}'
    base = dict(Alphabet=alpha, Schemes='{"distinct","same","short"}', Worlds='{"bare","sib"}', OpSeqs='{"qdcd","wqd"}')
    # ---- E1: the validating implementation keeps every touch under the root (all keys of <= 4 components)
    cfg = "PathJail_pure.cfg"
    r = vlib.run_tlc("PathJail", cfg, timeout=1500,
                     cfg_text=vlib.cfg_text(dict(base, MaxLen=4, Deviations="{}"), invariants=["TouchedUnderRoot", "TreeShaped"]))
    vlib.tlc_ok(r, cfg)
    if r["violated"]:
        raise Undecided("MODEL-DRIFT: %s violates %s\n%s" % (cfg, r["violated"], r["out"][-3000:]))
    res.tlc(r, cfg)
    # ---- E1 + case export: the unchanged tree, exact touch sets per step
    cfg = "PathJail_dev.cfg"
    r = vlib.run_tlc("PathJail", cfg, timeout=1500, workers=4,
                     cfg_text=vlib.cfg_text(dict(base, MaxLen=4, Deviations='{"JoinUnchecked"}'),
                                            invariants=["DeviationsExplainAll", "TreeShaped", "Emit"]))
    vlib.tlc_ok(r, cfg)
    if r["violated"]:
        raise Undecided("MODEL-DRIFT: %s violates %s\n%s" % (cfg, r["violated"], r["out"][-3000:]))
    res.tlc(r, cfg)
    allc = r["records"].get("CASE", [])
    if r["records"].get("BAD") or sum(len(c["steps"]) + 1 for c in allc) != r["distinct"]:
        raise Undecided("TLC case export incomplete: %d cases, %d states" % (len(allc), r["distinct"]))
    allc.sort(key=lambda c: json.dumps(c, sort_keys=True))
    esc = [c for c in allc if any(s["out"] for s in c["steps"])]
    rest = [c for c in allc if not any(s["out"] for s in c["steps"])]
    if quick:
        short = [c for c in rest if len(c["items"]) <= 2]
        long_ = [c for c in rest if len(c["items"]) > 2]
        sel = rng.sample(esc, min(len(esc), 700)) + short + rng.sample(long_, min(len(long_), 1500))
    else:
        sel = allc
    res.cov["keys_enumerated"] = len({json.dumps(c["items"]) for c in allc})
    res.cov["cases_enumerated"] = len(allc)
    res.cov["cases_with_predicted_escape"] = len(esc)
    cases, meta = [], {}
    for n, c in enumerate(sel):
        inexact = n % 23 == 22
        k = jail_concretise(rng, c, n, inexact=inexact)
        cid = "j%d" % n
        cases.append({"id": cid, "ops": k["ops"]})
        meta[json.dumps(cid)] = (c, k)
    obs = run_chunked(binary, cases, 1500, timeout=3000)
    stats = collections.Counter()
    for cid, (c, k) in meta.items():
        o = obs.get(cid)
        replay = {"check": "schema", "prop": "C16", "key": k["key"], "world": c["world"], "via": k["via"], "model_case": c, "seed": vlib.seed(),
                  "ops": k["ops"]}
        if o is None:
            raise Undecided("no observation for case %s" % cid)
        if isinstance(o, dict) and "died" in o:
            # a dying server is not by itself a C16 violation; the jail of this case cannot be compared any more
            stats["died"] += 1
            raise Undecided("driver died in C16 case %s (%s): %s" % (k["key"], o["died"], (o.get("stderr") or o.get("stdout") or "")[-400:]))
        if any(x.get("driver_error") for x in o if isinstance(x, dict)):
            raise Undecided("driver error in C16 case %s: %s" % (k["key"], [x for x in o if x.get("driver_error")][:1]))
        res.cov["traces_validated_against_impl"] += 1
        snaps = [o[2]] + [o[4 + 2 * i] for i in range(len(c["steps"]))]
        for i, st in enumerate(c["steps"]):
            real = snap_diff(snaps[i], snaps[i + 1])
            exp = model_out(st, k["tok"], snaps[i])
            stats["steps"] += 1
            if not real:
                if exp:
                    stats["model_predicted_escape_not_observed"] += 1
                continue
            stats["steps_touching_outside"] += 1
            fits = (real <= exp) if k["inexact"] else (real == exp)
            if c["escapes"] and "JoinUnchecked" in known and fits:
                res.known_finding(known["JoinUnchecked"], {"key": k["key"], "op": st["op"], "touched_outside_root": sorted(real)[:6]})
                stats["known_escape_steps"] += 1
                continue
            res.violation("request %s with key %r (world %s) changed the file system outside the data root: %s%s" % (
                st["op"], k["key"], c["world"], sorted(real)[:12],
                "" if not c["escapes"] else "; the key has the known '..' signature but the changes differ from the known behaviour %s" % sorted(exp)[:12]),
                dict(replay, step=i))
            break
        res.sample({"key": k["key"], "world": c["world"], "ops": [s["op"] for s in c["steps"]], "escapes": c["escapes"]}, limit=4)
    res.cov["c16_stats"] = dict(stats)
    res.cov["distinct_keys_replayed"] = len({k["key"] for _, k in meta.values()})
    res.assumptions += ["lexical escapes only (no symbolic links inside the data root)",
                        "the class 'name' is concretised to odd but valid file names; names with NUL, ':' or 300 bytes are checked with the subset rule"]
    return res.finish()


def run(prop, tier):
    res = Result(prop, tier)
    salt = {"C14": 14, "C15": 15, "C16": 16}[prop]
    rng = random.Random(vlib.seed() * 7919 + salt)
    binary = vlib.build_harness(cmd="mv_schema")
    if prop == "C16":
        return run_c16(res, tier, rng, binary)
    raise Undecided("not built yet")
