"""C24 / C25: on-disk aggregation trigger and replication.
AggTrigger.tla histories are replayed into the real aggtrigger (installed in the real trigger dispatcher);
Repl.tla transaction-group histories are replayed into a real master and, through the real Replayer, a replica."""
PROPS = ["C24", "C25"]
READY = True
CLAIMS = {
 "C24": dict(technique="TLA+ invariant DestEqAggregateOfBase on an implementation-shaped model of OnDiskAggTrigger.Fire (cache validity, ColumnSeriesUnion, SliceColumnSeriesByEpoch, aggregate, cache store) checked by TLC; every TLC-enumerated write history replayed into the real trigger running in the real dispatcher",
             text="AggTrigger.tla models the base bucket as a last-writer-wins map and Fire as coded: head/tail from the first/last record, cachedAgg.Valid, RecordsToColumnSeries + ColumnSeriesUnion(new, cached) or the query of the upper-bound window, per destination SliceColumnSeriesByEpoch + aggregate (first/max/min/last/sum) + WriteCSM, and the deferred cache store. TLC checks exhaustively (bounded) that the intended design keeps every destination bucket equal to the aggregate of the base bars currently stored per window, and that the unchanged tree differs only through three named deviations. TLC enumerates every history of base write requests within the bound (in order, out of order, rewrites, requests spanning windows, one and two destinations) plus seeded longer random histories; each is replayed through the real write path with the real aggtrigger.NewTrigger installed in the server's trigger dispatcher (behind a wrapper that only signals that Fire returned), and after every request the destination buckets are queried and compared with open=first, high=max, low=min, close=last, volume=sum of the base bars stored in the window.",
             note="Trusted: TLC, the Python concretisation (positions -> minutes of consecutive destination windows incl. first and last minute, value ids -> exactly representable prices and power-of-two volumes), UTC, base timeframe 1Min, no nasdaq filter, one year. Bounded: quick 3 windows x 3 bars (one destination) / 2x2x2 (two destinations), <=2 rows per request, 2 requests exhaustively + seeded random histories of 4 requests x <=3 rows. Three open known findings (stale cache wins, partial window from cache, unsorted request) are modelled as named deviations and predicted exactly."),
 "C25": dict(technique="TLA+ invariant ReplicaConverged on an implementation-shaped model of Replayer.Replay (WTSetToCSM per write set, WriteCSM with the record type of the first set, bucket creation / column check / write by bucket type) checked by TLC; every TLC-enumerated transaction-group history replayed into a real master (capturing ReplicationSender) and a real replica (real Replayer)",
             text="Repl.tla models a master with a fixed and a variable-length bucket, transaction groups of <=3 write sets with every grouping of the writes, and the replica's replay as coded. TLC checks exhaustively (bounded) that the intended design converges and that the unchanged tree differs only through two named deviations. Every enumerated history is replayed: the writes go through the real DataService.Write of a master instance started by the server's DI container whose WAL sender captures the serialized groups handed over at executor/wal.go:318 (several client requests are forced into ONE group with the hook WriteCSM.beforeFlush); every captured group is fed to the real replication.NewReplayer(executor.ParseTGData, writer.WriteCSM, root).Replay of a second instance with its own root, catalog, WAL and writer; after every group the same queries run on both and must return the same columns and rows (variable-length timestamps within one resolution step). Concretised over all eleven timeframes, several schemas, intervals in one or two years.",
             note="Trusted: TLC, the Python concretisation, UTC, the in-process transport (the gRPC stream is replaced by a direct call of Replay with the captured bytes). Bounded: 2 intervals, 4 offset classes (with/without whole seconds x 2 sub-second classes), <=3 groups of <=3 write sets; quick: 3 write sets exhaustively + seeded random histories of up to 6 write sets with 2 records per set. Whole-second offsets and 1D/Jan 1 are avoided (storage-level findings of C08/C09). Two open known findings (replica drops whole seconds, mixed group replayed with the first set's record type) are modelled as named deviations and predicted exactly."),
}
import calendar, json, os, random, shutil
import vlib
from vlib import Result, Undecided

TFSEC = {"1Sec": 1, "10Sec": 10, "30Sec": 30, "1Min": 60, "5Min": 300, "15Min": 900, "30Min": 1800, "1H": 3600,
         "2H": 7200, "4H": 14400, "1D": 86400}
DAY = 86400


def year_start(y):
    return calendar.timegm((y, 1, 1, 0, 0, 0))


def year_len(y):
    return (366 if calendar.isleap(y) else 365) * DAY


def tla_set(xs):
    return "{" + ", ".join(str(x) for x in xs) + "}"


def tla_strset(xs):
    return "{" + ", ".join('"%s"' % x for x in xs) + "}"


def tlc_parallel(jobs):
    """run several TLC jobs [(module, cfg name, kwargs)] side by side; results in job order"""
    from concurrent.futures import ThreadPoolExecutor
    with ThreadPoolExecutor(max_workers=min(4, max(1, len(jobs)))) as ex:
        futs = [ex.submit(vlib.run_tlc, m, n, **kw) for m, n, kw in jobs]
        return [f.result() for f in futs]


def subsets_desc(devs):
    """all subsets of the listed deviations, largest first"""
    import itertools
    out = []
    for n in range(len(devs), -1, -1):
        out += [frozenset(x) for x in itertools.combinations(devs, n)]
    return out


def settle(all_devs, judge, primary, alternatives):
    """The tree under test has some subset S of the listed deviations (all of them on the unchanged tree, fewer once
    defects are repaired).  judge(pred) compares every real observation with the property's answer and, where they
    differ, with the model's prediction pred for one S; it returns (violations, known hits, stats).  S = all listed
    deviations comes from the primary TLC run; only if that leaves contradictions unexplained are the other subsets
    computed (alternatives() -> {S: pred}).  The verdict is the one of the largest S that explains every observation;
    if none does, the contradictions left by the best S are reported."""
    v, k, st = judge(primary)
    if not v:
        return v, k, st, frozenset(all_devs)
    best = (len(v), v, k, st, frozenset(all_devs))
    alt = alternatives()
    for S in subsets_desc(all_devs):
        if S == frozenset(all_devs) or S not in alt:
            continue
        v2, k2, st2 = judge(alt[S])
        if not v2:
            return v2, k2, st2, S
        if len(v2) < best[0]:
            best = (len(v2), v2, k2, st2, S)
    return best[1], best[2], best[3], best[4]


def report(res, known, verdict, prop):
    violations, hits, stats, S = verdict
    for d, example in hits:
        if d in known:
            res.known_finding(known[d], example)
        else:
            res.violation("deviation %s observed but not listed as an open known finding: %s" % (d, json.dumps(example, default=str)[:800]),
                          {"check": "repl", "prop": prop, "deviation": d, "example": example, "seed": vlib.seed()})
    for desc, replay in violations:
        res.violation(desc, replay)
    return stats, S


def rows_of(obs, key):
    """query observation -> (column names, [row tuples]) ; a missing bucket is an empty result"""
    if not isinstance(obs, dict):
        return "error: %r" % (obs,)
    if obs.get("panic"):
        return "panic: " + str(obs["panic"])
    if obs.get("err"):
        if "no files returned" in str(obs["err"]).lower():
            return ([], [])
        return "error: " + str(obs["err"])
    res = obs.get("result") or {}
    cols = None
    for k, v in res.items():
        if k.split(":")[0] == key:
            cols = v
    if not cols:
        return ([], [])
    names = [c["name"] for c in cols]
    n = len(cols[0]["vals"])
    return (names, [tuple(c["vals"][k] for c in cols) for k in range(n)])


# ==============================================================================================
# C24
# ==============================================================================================
AGG_DEVS = ["StaleCacheWins", "PartialWindowFromCache", "UnsortedRequest"]
# model configurations: destination window sizes in positions, number of positions, real destination choices
AGG_CONFIGS = {
    "one": dict(destset=[3], np=9, reals=[["5Min"], ["15Min"], ["30Min"], ["1H"], ["4H"]]),
    "two": dict(destset=[2, 4], np=8, reals=[["5Min", "15Min"], ["5Min", "1H"], ["15Min", "1H"], ["30Min", "2H"], ["1H", "4H"], ["5Min", "30Min"]]),
    "one6": dict(destset=[3], np=6, reals=[["5Min"], ["15Min"], ["30Min"], ["1H"], ["2H"]]),
}
AGG_SCHEMAS = [("f4", "i4"), ("f4", "f4"), ("f8", "f8"), ("f8", "i4"), ("f4", None), ("f4", "i8")]


def agg_triggers():
    """one real trigger per (configuration, destination choice); symbols select it by their prefix"""
    out = []
    for cname in sorted(AGG_CONFIGS):
        for k, reals in enumerate(AGG_CONFIGS[cname]["reals"]):
            out.append((cname, k, "T%s%d" % (cname, k)))
    return out


class AggConc:
    """positions / windows / value ids of AggTrigger.tla -> minutes, window starts, bars"""

    def __init__(self, rng, cname, hmul, lmul, n):
        cfg = AGG_CONFIGS[cname]
        self.cname, self.hmul, self.lmul = cname, hmul, lmul
        self.k = rng.randrange(len(cfg["reals"]))
        self.reals = cfg["reals"][self.k]
        self.sizes = sorted(cfg["destset"])
        self.np = cfg["np"]
        self.sym = "T%s%d_%d" % (cname, self.k, n)
        self.small = self.sizes[0]
        self.small_len = TFSEC[self.reals[0]]
        self.upper_len = TFSEC[self.reals[-1]]
        m = self.small_len // 60
        # bar slots inside a smallest window: first minute, last minute, seeded ones in between
        self.slots = [0] + sorted(rng.sample(range(1, m - 1), self.small - 2)) + [m - 1]
        if len(self.sizes) == 2:
            self.ratio = self.sizes[1] // self.sizes[0]
            r = self.upper_len // self.small_len
            pick = set(rng.sample(range(r), self.ratio))
            if rng.random() < 0.6:   # first and last small window of the upper window
                pick = set([0, r - 1] + sorted(pick)[:max(0, self.ratio - 2)]) if self.ratio >= 2 else pick
            self.sub = sorted(pick)
            assert len(self.sub) == self.ratio
        else:
            self.ratio, self.sub = 1, [0]
        nu = -(-self.np // self.sizes[-1])
        span = nu * self.upper_len
        self.year = rng.choice([2019, 2020, 2021, 2024])
        day = rng.randrange(1, year_len(self.year) // DAY - 1)
        slots_in_day = (DAY - span) // self.upper_len
        self.t0 = year_start(self.year) + day * DAY + rng.randrange(0, slots_in_day + 1) * self.upper_len
        self.ptype, self.vtype = AGG_SCHEMAS[n % len(AGG_SCHEMAS)]
        f = rng.choice([1.0, 0.25, 2.5])
        self.ob, self.hb, self.lb, self.cb = [rng.choice([-64.0, 0.5, 100.0, 1024.25]) for _ in range(4)]
        self.f = f

    def small_start(self, ws):
        if len(self.sizes) == 2:
            return self.t0 + (ws // self.ratio) * self.upper_len + self.sub[ws % self.ratio] * self.small_len
        return self.t0 + ws * self.small_len

    def pos_epoch(self, p):
        return self.small_start(p // self.small) + 60 * self.slots[p % self.small]

    def win_epoch(self, di, w):
        if self.sizes[di] == self.small:
            return self.small_start(w)
        return self.t0 + w * self.upper_len

    def index(self, p):
        return 1 + (self.pos_epoch(p) - year_start(self.year)) // 60

    def o(self, v): return self.ob + self.f * v
    def h(self, v): return self.hb + self.f * ((v * self.hmul) % 13)
    def l(self, v): return self.lb - self.f * (13 - (v * self.lmul) % 13)
    def c(self, v): return self.cb - self.f * v
    def vol(self, v): return 2 ** v

    def cols(self, rows):
        cols = [{"name": "Epoch", "type": "i8", "vals": [self.pos_epoch(r["p"]) for r in rows]}]
        for name, fn in (("Open", self.o), ("High", self.h), ("Low", self.l), ("Close", self.c)):
            cols.append({"name": name, "type": self.ptype, "vals": [fn(r["v"]) for r in rows]})
        if self.vtype:
            cols.append({"name": "Volume", "type": self.vtype, "vals": [self.vol(r["v"]) for r in rows]})
        return cols

    def dest_key(self, di):
        return "%s/%s/OHLCV" % (self.sym, self.reals[di])

    def dest_rows(self, dest, di):
        """model destination (sequence of bars per window) -> concrete rows"""
        out = []
        for w, bar in enumerate(dest):
            if bar["o"] == 0:
                continue
            row = [self.win_epoch(di, w), self.o(bar["o"]), self.h(bar["h"]), self.l(bar["l"]), self.c(bar["c"])]
            if self.vtype:
                row.append(sum(self.vol(v) for v in bar["s"]))
            out.append(tuple(row))
        return out

    def describe(self):
        return {"symbol": self.sym, "base": "1Min", "destinations": self.reals, "t0": self.t0, "slots_min": self.slots,
                "small_windows_used": self.sub, "price_type": self.ptype, "volume_type": self.vtype,
                "HMul": self.hmul, "LMul": self.lmul}

    def describe_rows(self, rows):
        return [(self.pos_epoch(r["p"]), self.o(r["v"]), self.h(r["v"]), self.l(r["v"]), self.c(r["v"]), self.vol(r["v"])) for r in rows]


def same_rows(a, b):
    return len(a) == len(b) and all(len(x) == len(y) and all(float(p) == float(q) for p, q in zip(x, y)) for x, y in zip(a, b))


def agg_case(c, beh):
    ops = []
    for st in beh:
        ops.append({"op": "write", "buckets": [{"key": c.sym + "/1Min/OHLCV", "cols": c.cols(st["rows"])}]})
        ops.append({"op": "agg_wait", "x": {"fires": 1, "records": len(st["recs"]), "timeout_ms": 30000}})
        for di in range(len(c.reals)):
            ops.append({"op": "query", "dest": c.dest_key(di)})
    ops.append({"op": "destroy", "key": c.sym + "/1Min/OHLCV"})
    for di in range(len(c.reals)):
        ops.append({"op": "destroy", "key": c.dest_key(di)})
    return ops


def agg_script_module(scripts):
    """AggTrigger_Script: the replayed histories as scripts, every subset of the listed deviations"""
    body = ",\n  ".join("<<" + ", ".join("<<" + ", ".join(str(p) for p in req) + ">>" for req in sc) + ">>" for sc in scripts)
    return """---- MODULE AggTrigger_Script ----
EXTENDS AggTrigger
VARIABLES sid, dv
Scripts == <<
  %s
>>
InitS == Init /\\ sid \\in 1..Len(Scripts) /\\ dv \\in SUBSET Deviations
NextS == /\\ UNCHANGED <<sid, dv>>
         /\\ (FireWith(dv) \\/ (Len(hist) < Len(Scripts[sid]) /\\ WriteBase(Scripts[sid][Len(hist) + 1])))
EmitS == (pending = <<>> /\\ Len(hist) = Len(Scripts[sid])) => PrintT(<<"SBEH", ToJson([sid |-> sid, dv |-> dv, hist |-> hist])>>)
====
""" % body


def run_c24(tier):
    prop = "C24"
    res = Result(prop, tier)
    rng = random.Random(vlib.seed() * 7919 + 24)
    binary = vlib.build_harness(cmd="mv_repl")
    known = {k["deviation"]: k for k in vlib.known_findings(prop)}
    quick = tier == "quick"
    devs = tla_strset(AGG_DEVS)
    # (config, MaxRows, Depth, mode, behaviours to replay (None = all), simulate count)
    if quick:
        plan = [("one", 2, 2, "mc", 600, 0), ("two", 2, 2, "mc", 450, 0), ("one6", 1, 4, "mc", 500, 0), ("two", 1, 3, "mc", None, 0),
                ("one", 3, 4, "sim", None, 130), ("two", 3, 4, "sim", None, 110)]
    else:
        plan = [("one", 2, 2, "mc", None, 0), ("two", 2, 2, "mc", None, 0), ("one6", 2, 3, "mc", 30000, 0),
                ("one", 3, 4, "sim", None, 4000), ("two", 3, 4, "sim", None, 4000), ("one", 1, 4, "mc", None, 0), ("two", 1, 4, "mc", None, 0)]
    behs, jobs, info = [], [], []
    for cname, maxrows, depth, mode, nreplay, nsim in plan:
        cfg = AGG_CONFIGS[cname]
        hmul, lmul = rng.randrange(1, 13), rng.randrange(1, 13)
        consts = dict(NP=cfg["np"], DestSet=tla_set(cfg["destset"]), MaxRows=maxrows, Depth=depth, HMul=hmul, LMul=lmul, Deviations=devs)
        name = "AggTrigger_%s_r%d_d%d_%s.cfg" % (cname, maxrows, depth, mode)
        invs = ["DestEqAggregateOfBase", "DeviationsExplainAll", "Emit"]
        if mode == "mc":
            # no VIEW: the history is part of the state, so that every history is visited (and emitted) once
            kw = dict(timeout=900 if quick else 6000, heap="6g", workers=6, cfg_text=vlib.cfg_text(consts, invariants=invs))
        else:
            kw = dict(simulate=nsim, depth=2 * depth + 1, seed_=rng.randrange(1, 2 ** 31), workers=1, timeout=900 if quick else 6000,
                      heap="2g", cfg_text=vlib.cfg_text(consts, invariants=invs, view="View"))
        jobs.append(("AggTrigger", name, kw))
        info.append((cname, maxrows, depth, mode, nreplay, nsim, hmul, lmul, name, consts))
    for pi, ((cname, maxrows, depth, mode, nreplay, nsim, hmul, lmul, name, consts), r) in enumerate(zip(info, tlc_parallel(jobs))):
        cfg = AGG_CONFIGS[cname]
        vlib.tlc_ok(r, name)
        if r["violated"]:
            raise Undecided("MODEL-DRIFT: %s violates %s in the model\n%s" % (name, r["violated"], r["out"][-3000:]))
        res.tlc(r, name)
        got = r["records"].get("BEH", [])
        want = nsim // 2 if mode == "sim" else (cfg["np"] * (cfg["np"] ** maxrows - 1) // (cfg["np"] - 1)) ** depth
        if len(got) < want:
            raise Undecided("TLC emitted %d histories for %s, expected at least %d" % (len(got), name, want))
        res.cov.setdefault("histories_emitted", {})[name] = len(got)
        if nreplay is not None and len(got) > nreplay:
            got = rng.sample(got, nreplay)      # seeded uniform sample of the enumerated histories
        for b in got:
            behs.append((pi, cname, hmul, lmul, b))
    # ------------------------------ replay into the real trigger ------------------------------
    root = os.path.join(vlib.scratch(), "root_c24")
    trigs = [{"dests": AGG_CONFIGS[cn]["reals"][k], "on": "%s_*/1Min/OHLCV" % pref} for cn, k, pref in agg_triggers()]
    for t in trigs:
        if rng.random() < 0.5:
            t["dests"] = list(reversed(t["dests"]))     # configuration order of the destinations
    cases = [{"id": "start", "ops": [{"op": "agg_start", "root": root, "x": {"triggers": trigs, "filter": ""}}]}]
    meta = []
    for n, (pi, cname, hmul, lmul, beh) in enumerate(behs):
        c = AggConc(rng, cname, hmul, lmul, n)
        cases.append({"id": "h%d" % n, "ops": agg_case(c, beh)})
        meta.append((pi, c, beh))
    vlib.log("[C24] %d histories concretised after %.0fs, replaying" % (len(meta), __import__("time").time() - res.t0))
    obs = vlib.run_cases(binary, cases, timeout=1500 if quick else 7000)
    shutil.rmtree(root, ignore_errors=True)
    vlib.log("[C24] replay done after %.0fs, comparing" % (__import__("time").time() - res.t0))
    st0 = obs.get(json.dumps("start"))
    if not isinstance(st0, list) or not st0[0].get("ok"):
        raise Undecided("instance with the aggregation triggers did not start: %s" % (st0,))
    # ------------------------------ what the real code did ------------------------------
    # per history: ("died", text) | list of steps; a step is ("writefail", obs) | ("split",) | ("ok", [rows per destination], panic)
    names_of = lambda c: ["Epoch", "Open", "High", "Low", "Close"] + (["Volume"] if c.vtype else [])
    real, split = [], 0
    for n, (pi, c, beh) in enumerate(meta):
        o = obs.get(json.dumps("h%d" % n))
        if o is None:
            raise Undecided("no observation for case h%d" % n)
        if isinstance(o, dict) and "died" in o:
            real.append(("died", "%s: %s" % (o["died"], o["stderr"][-500:])))
            continue
        res.cov["traces_validated_against_impl"] += 1
        nd, pos, steps = len(c.reals), 0, []
        for k, st in enumerate(beh):
            w, wait = o[pos], o[pos + 1]
            qs = o[pos + 2: pos + 2 + nd]
            pos += 2 + nd
            if w.get("driver_error") or wait.get("driver_error"):
                raise Undecided("driver error in h%d step %d: %s %s" % (n, k, w, wait))
            if w.get("err") or w.get("panic"):
                steps.append(("writefail", w))
                break
            fires = wait.get("fires") or []
            want_idx = [c.index(r["p"]) for r in st["recs"]]
            if len(fires) > 1 and sum((f["idx"] for f in fires), []) == want_idx:
                # the background WAL writer's ticker flushed the request in several transaction groups, so the
                # trigger ran once per group: the model's single-Fire prediction does not describe this run
                split += 1
                steps.append(("split",))
                break
            if len(fires) != 1 or fires[0]["idx"] != want_idx:
                raise Undecided("MODEL-DRIFT: the trigger was fired with records %s, the model expects indexes %s" % (fires, want_idx))
            rows = []
            for di in range(nd):
                x = rows_of(qs[di], c.dest_key(di))
                if not isinstance(x, str) and x[1] and x[0] != names_of(c):
                    x = "columns %s: %s" % (x[0], x[1])
                rows.append(x)
            steps.append(("ok", rows, fires[0].get("panic")))
        real.append(steps)
        res.sample({"concretisation": c.describe(), "requests": [s["rows"] for s in beh]}, limit=3)
    if split > len(meta) // 20:
        raise Undecided("%d of %d histories were split by the background WAL flush" % (split, len(meta)))

    def judge(pred):
        """pred[n] = model steps (expect / known / hit) of history n, or None when it is not needed"""
        violations, hits, stats = [], [], {"requests": 0, "equal_to_model": 0, "deviation_steps": {}}
        for n, (pi, c, beh) in enumerate(meta):
            replay = {"check": "repl", "prop": prop, "concretisation": c.describe(), "behaviour": [s["rows"] for s in beh],
                      "triggers": trigs, "ops": cases[n + 1]["ops"], "seed": vlib.seed()}
            if real[n] and real[n][0] == "died":
                violations.append(("server process died (%s) while aggregating %s" % (real[n][1], c.sym), replay))
                continue
            for k, step in enumerate(real[n]):
                reqs = [c.describe_rows(s["rows"]) for s in beh[:k + 1]]
                if step[0] == "writefail":
                    violations.append(("base write failed on %s request %d: %s" % (c.sym, k + 1, step[1]), replay))
                    break
                if step[0] == "split":
                    break
                stats["requests"] += 1
                bad = None
                for di, x in enumerate(step[1]):
                    want = c.dest_rows(beh[k]["expect"][di], di)     # destinations by ascending window size, like c.reals
                    if isinstance(x, str) or not same_rows(x[1], want):
                        bad = (di, x, want)
                        break
                mst = pred[n][k] if pred.get(n) is not None else None
                all_known = mst is not None and all(not isinstance(x, str) and same_rows(x[1], c.dest_rows(mst["known"][di], di))
                                                    for di, x in enumerate(step[1]))
                stats["equal_to_model"] += 1 if (all_known or (mst is None and bad is None)) else 0
                if bad is None:
                    continue
                di, x, want = bad
                if mst is not None and mst["hit"] and all_known:
                    for d in mst["hit"]:
                        stats["deviation_steps"][d] = stats["deviation_steps"].get(d, 0) + 1
                        hits.append((d, {"destinations": c.reals, "requests": reqs, "bucket": c.dest_key(di),
                                         "real": x[1][:4], "property": want[:4]}))
                    continue
                violations.append(("after request %d of %s (requests %s) the destination %s holds %s; the property demands %s (aggregate of the base bars stored per window)%s" % (
                    k + 1, c.sym, reqs, c.dest_key(di), str(x)[:500], want, "; Fire panicked: %s" % step[2] if step[2] else ""), replay))
                break
        return violations, hits, stats

    def alternatives():
        """predictions for every subset of the listed deviations, for the histories whose real result differs
        somewhere from the property's answer (AggTrigger_Script quantifies over SUBSET Deviations)"""
        need = {}
        for n, (pi, c, beh) in enumerate(meta):
            if not real[n] or real[n][0] == "died":
                continue
            for k, step in enumerate(real[n]):
                if step[0] == "ok" and any(isinstance(x, str) or not same_rows(x[1], c.dest_rows(beh[k]["expect"][di], di))
                                            for di, x in enumerate(step[1])):
                    need.setdefault(pi, []).append(n)
                    break
        jobs2, order = [], []
        for pi, ns in sorted(need.items()):
            consts = info[pi][9]
            scripts = [[[r["p"] for r in st["rows"]] for st in meta[n][2]] for n in ns]
            jobs2.append(("AggTrigger_Script", "script_%d.cfg" % pi, dict(
                timeout=1500 if quick else 6000, heap="6g", workers=6, files={"AggTrigger_Script.tla": agg_script_module(scripts)},
                cfg_text=vlib.cfg_text(consts, invariants=["EmitS"], init_next=("InitS", "NextS")))))
            order.append(ns)
        alt = {S: {} for S in subsets_desc(AGG_DEVS)}
        for ns, r in zip(order, tlc_parallel(jobs2)):
            vlib.tlc_ok(r, "AggTrigger_Script")
            res.tlc(r, "AggTrigger_Script")
            recs = r["records"].get("SBEH", [])
            if len(recs) != len(ns) * 2 ** len(AGG_DEVS):
                raise Undecided("AggTrigger_Script emitted %d predictions for %d histories" % (len(recs), len(ns)))
            for x in recs:
                alt[frozenset(x["dv"])][ns[x["sid"] - 1]] = x["hist"]
        return alt

    primary = {n: beh for n, (pi, c, beh) in enumerate(meta)}
    stats, S = report(res, known, settle(AGG_DEVS, judge, primary, alternatives), prop)
    res.cov["requests_replayed"] = stats["requests"]
    res.cov["histories_cut_short_because_the_background_flush_split_a_request"] = split
    res.cov["steps_equal_to_implementation_shaped_model"] = stats["equal_to_model"]
    res.cov["steps_showing_known_deviation"] = stats["deviation_steps"]
    res.cov["deviations_of_the_tree_under_test"] = sorted(S)
    res.cov["destination_configs"] = sorted(set(tuple(c.reals) for _, c, _ in meta))
    res.assumptions += ["time zone UTC", "base timeframe 1Min, trigger pattern <prefix>_*/1Min/OHLCV", "no market-hours filter",
                        "server default background WAL writer; the harness waits until Fire has returned before the next request (quiescence)"]
    return res.finish()


# ==============================================================================================
# C25
# ==============================================================================================
REPL_DEVS = ["ReplicaDropsSeconds", "ReplicaFirstSetType"]
REPL_SCHEMAS = [[("Px", "f4")], [("Bid", "f8"), ("Size", "i4")], [("a", "i2"), ("b", "u1"), ("c", "i8")], [("x", "f4"), ("y", "u4")]]


def col_val(t, v, salt):
    if t in ("f4", "f8"):
        return v + 0.5 + salt * 16
    lim = {"i1": 100, "u1": 200, "i2": 30000, "u2": 60000, "i4": 2 ** 31 - 1, "u4": 2 ** 32 - 1, "i8": 2 ** 62, "u8": 2 ** 63}[t]
    return (v * 7 + salt * 3 + 1) % lim


class ReplConc:
    def __init__(self, rng, n, ni, tflong):
        self.n = n
        tfs_long = [t for t in TFSEC if t != "1Sec"]
        self.tfV = rng.choice(tfs_long) if tflong else "1Sec"
        self.tfF = rng.choice(list(TFSEC))
        self.keyF = "RF%d/%s/G" % (n, self.tfF)
        self.keyV = "RV%d/%s/T" % (n, self.tfV)
        self.schF = REPL_SCHEMAS[n % len(REPL_SCHEMAS)]
        self.schV = REPL_SCHEMAS[(n // 2 + 1) % len(REPL_SCHEMAS)]
        self.salt = rng.randrange(0, 5)
        self.ivF = self.intervals(rng, TFSEC[self.tfF], ni)
        self.ivV = self.intervals(rng, TFSEC[self.tfV], ni)
        tfsec = TFSEC[self.tfV]
        self.secs = rng.randrange(1, tfsec) if tfsec > 1 else 0
        self.nanos = [rng.randrange(200_000_000, 400_000_000), rng.randrange(600_000_000, 800_000_000)]
        self.res_int = -(-tfsec * 10 ** 9 // 2 ** 32)

    @staticmethod
    def intervals(rng, tfsec, ni):
        """interval id -> (year, epoch): ascending; mostly one year, sometimes two; never on Jan 1 (1D hole, C08)"""
        y0 = rng.choice([2019, 2020, 2023])
        lo = max(DAY // tfsec, 1)
        n_iv = year_len(y0) // tfsec
        maxgap = max(2, min(1000, (n_iv - lo) // (4 * ni)))
        top = n_iv - 1 - ni * maxgap                      # the last id still fits into the year
        k = rng.randrange(lo, top + 1) if rng.random() < 0.8 else rng.choice([lo, top])
        out = []
        for j in range(ni):
            if j == ni - 1 and ni >= 2 and rng.random() < 0.25:
                y1 = y0 + rng.choice([1, 2])
                k1 = rng.randrange(lo, year_len(y1) // tfsec)
                out.append((y1, year_start(y1) + k1 * tfsec))
                break
            out.append((y0, year_start(y0) + k * tfsec))
            k += 1 if rng.random() < 0.5 else rng.randrange(2, maxgap + 1)
        return out

    def iv_epoch(self, b, i):
        return (self.ivF if b == "F" else self.ivV)[i - 1][1]

    def iv_index(self, b, i):
        y, ep = (self.ivF if b == "F" else self.ivV)[i - 1]
        tfsec = TFSEC[self.tfF if b == "F" else self.tfV]
        if tfsec == DAY:
            return (ep - year_start(y)) // DAY         # io.TimeToIndex for 1D: day of the year - 1
        return 1 + (ep - year_start(y)) // tfsec

    def iv_year(self, b, i):
        return (self.ivF if b == "F" else self.ivV)[i - 1][0]

    def vtime(self, i, o):
        """(epoch seconds, nanoseconds) of offset class o in interval i of V"""
        return self.iv_epoch("V", i) + (o // 2) * self.secs, self.nanos[o % 2]

    def vals(self, b, v):
        return [col_val(t, v, self.salt) for _, t in (self.schF if b == "F" else self.schV)]

    def request(self, sets):
        """one client write request producing exactly these write sets (same bucket)"""
        b = sets[0]["b"]
        sch = self.schF if b == "F" else self.schV
        eps, nss, vs = [], [], []
        for ws in sets:
            for r in ws["recs"]:
                if b == "F":
                    eps.append(self.iv_epoch("F", ws["i"]))
                else:
                    s, ns = self.vtime(ws["i"], r["o"])
                    eps.append(s)
                    nss.append(ns)
                vs.append(self.vals(b, r["v"]))
        cols = [{"name": "Epoch", "type": "i8", "vals": eps}]
        for k, (nm, t) in enumerate(sch):
            cols.append({"name": nm, "type": t, "vals": [x[k] for x in vs]})
        if b == "V":
            cols.append({"name": "Nanoseconds", "type": "i4", "vals": nss})
        return {"buckets": [{"key": self.keyF if b == "F" else self.keyV, "cols": cols}], "var": b == "V"}

    def requests(self, rng, tg):
        """split a transaction group into client requests: consecutive write sets of the same bucket with different
        intervals may share a request"""
        reqs, cur = [], []
        for ws in tg:
            if cur and cur[-1]["b"] == ws["b"] and cur[-1]["i"] != ws["i"] and rng.random() < 0.5 and \
                    self.iv_year(ws["b"], cur[-1]["i"]) == self.iv_year(ws["b"], ws["i"]):
                cur.append(ws)
            else:
                if cur:
                    reqs.append(cur)
                cur = [ws]
        reqs.append(cur)
        return [self.request(x) for x in reqs]

    def shape(self, tg):
        return [{"var": ws["b"] == "V", "path": "%s/%d.bin" % (self.keyF if ws["b"] == "F" else self.keyV, self.iv_year(ws["b"], ws["i"])),
                 "index": self.iv_index(ws["b"], ws["i"]), "n": len(ws["recs"])} for ws in tg]

    def describe(self):
        return {"F": self.keyF, "V": self.keyV, "schema_F": self.schF, "schema_V": self.schV, "intervals_F": self.ivF,
                "intervals_V": self.ivV, "whole_seconds": self.secs, "nanos": self.nanos}


def split_time(names, rows):
    """rows -> [(time in ns, other values)]"""
    out = []
    ie = names.index("Epoch")
    inn = names.index("Nanoseconds") if "Nanoseconds" in names else None
    for r in rows:
        t = r[ie] * 10 ** 9 + (r[inn] if inn is not None else 0)
        out.append((t, tuple(float(x) for k, x in enumerate(r) if k not in (ie, inn))))
    return out


def bag_match(a, b, tol):
    """same rows, times within tol (bag matching, both sides time-ordered)"""
    if len(a) != len(b):
        return False
    unused = list(range(len(b)))
    for t, vals in a:
        hit = None
        for u in unused:
            if abs(b[u][0] - t) <= tol and b[u][1] == vals:
                hit = u
                break
        if hit is None:
            return False
        unused.remove(hit)
    return True


def converged(m, r, variable, tol):
    """does the replica's answer equal the master's?  (columns and rows; variable-length times within tol)"""
    if isinstance(m, str):
        raise Undecided("the master's own query failed: %s" % m)
    if isinstance(r, str):
        return False
    if not m[1] and not r[1]:
        return True
    if m[0] != r[0]:
        return False
    return bag_match(split_time(*m), split_time(*r), tol if variable else 0)


def matches_view(c, b, view, real, tol):
    """does the replica's real answer equal the model's prediction (bucket view [nanos, rows])?"""
    if isinstance(real, str):
        return False
    names, rows = real
    if not view["rows"]:
        return not rows
    sch = c.schF if b == "F" else c.schV
    want_names = ["Epoch"] + [n for n, _ in sch] + (["Nanoseconds"] if view["nanos"] else [])
    if names != want_names:
        return False
    want = []
    for x in view["rows"]:
        if b == "F":
            t = c.iv_epoch("F", x["i"]) * 10 ** 9
        else:
            s, ns = c.vtime(x["i"], x["o"])
            t = s * 10 ** 9 + ns
        want.append((t, tuple(float(v) for v in c.vals(b, x["v"]))))
    return bag_match(want, split_time(names, rows), tol if view["nanos"] else 0)


def repl_script_module(scripts):
    """Repl_Script: the replayed histories as scripts, every subset of the listed deviations"""
    def ws(x):
        return '[b |-> "%s", i |-> %d, os |-> <<%s>>]' % (x["b"], x["i"], ", ".join(str(r["o"]) for r in x["recs"]))
    body = ",\n  ".join("<<" + ", ".join("<<" + ", ".join(ws(x) for x in tg) + ">>" for tg in sc) + ">>" for sc in scripts)
    return """---- MODULE Repl_Script ----
EXTENDS Repl
VARIABLES sid, dv
Scripts == <<
  %s
>>
InitS == Init /\\ sid \\in 1..Len(Scripts) /\\ dv \\in SUBSET Deviations
Cur == Len(hist) + 1
NextS == /\\ UNCHANGED <<sid, dv>>
         /\\ (IF Cur <= Len(Scripts[sid]) /\\ Len(open) < Len(Scripts[sid][Cur])
             THEN (LET ws == Scripts[sid][Cur][Len(open) + 1] IN IF ws.b = "F" THEN AddF(ws.i) ELSE AddV(ws.i, ws.os))
             ELSE FlushWith(dv))
EmitS == (open = <<>> /\\ Len(hist) = Len(Scripts[sid])) => PrintT(<<"SBEH", ToJson([sid |-> sid, dv |-> dv, hist |-> hist])>>)
====
""" % body


def run_c25(tier):
    prop = "C25"
    res = Result(prop, tier)
    rng = random.Random(vlib.seed() * 7919 + 25)
    binary = vlib.build_harness(cmd="mv_repl")
    known = {k["deviation"]: k for k in vlib.known_findings(prop)}
    quick = tier == "quick"
    devs = tla_strset(REPL_DEVS)
    # (NI, TfLong, MaxRecs, MaxSets, MaxTGs, MaxWrites, mode, replay count, simulate count)
    if quick:
        plan = [(2, True, 1, 3, 3, 3, "mc", 480, 0), (2, False, 1, 3, 3, 3, "mc", 120, 0),
                (2, True, 2, 3, 3, 6, "sim", None, 110), (2, False, 2, 3, 3, 6, "sim", None, 40)]
    else:
        plan = [(2, True, 1, 3, 3, 3, "mc", None, 0), (2, False, 1, 3, 3, 3, "mc", None, 0), (2, True, 1, 3, 3, 4, "mc", 7000, 0),
                (1, True, 2, 3, 3, 3, "mc", 4000, 0), (2, True, 2, 3, 3, 7, "sim", None, 3000), (2, False, 2, 3, 3, 7, "sim", None, 1000)]
    behs, jobs, info = [], [], []
    for ni, tflong, maxrecs, maxsets, maxtgs, maxwrites, mode, nreplay, nsim in plan:
        consts = dict(NI=ni, TfLong="TRUE" if tflong else "FALSE", MaxRecs=maxrecs, MaxSets=maxsets, MaxTGs=maxtgs,
                      MaxWrites=maxwrites, Deviations=devs)
        name = "Repl_i%d_%s_r%d_s%d_g%d_w%d_%s.cfg" % (ni, "long" if tflong else "sec", maxrecs, maxsets, maxtgs, maxwrites, mode)
        invs = ["ReplicaConverged", "DeviationsExplainAll", "Emit"]
        if mode == "mc":
            kw = dict(timeout=900 if quick else 6000, heap="6g", workers=6, cfg_text=vlib.cfg_text(consts, invariants=invs))
        else:
            kw = dict(simulate=nsim, depth=maxwrites + maxtgs + 2, seed_=rng.randrange(1, 2 ** 31), workers=1, heap="2g",
                      timeout=900 if quick else 6000, cfg_text=vlib.cfg_text(consts, invariants=invs, view="View"))
        jobs.append(("Repl", name, kw))
        info.append((ni, tflong, mode, nreplay, nsim, name, consts))
    for pi, ((ni, tflong, mode, nreplay, nsim, name, consts), r) in enumerate(zip(info, tlc_parallel(jobs))):
        vlib.tlc_ok(r, name)
        if r["violated"]:
            raise Undecided("MODEL-DRIFT: %s violates %s in the model\n%s" % (name, r["violated"], r["out"][-3000:]))
        res.tlc(r, name)
        got = r["records"].get("BEH", [])
        if len(got) < (nsim // 3 if mode == "sim" else 100):
            raise Undecided("TLC emitted only %d histories for %s" % (len(got), name))
        res.cov.setdefault("histories_emitted", {})[name] = len(got)
        if nreplay is not None and len(got) > nreplay:
            got = rng.sample(got, nreplay)
        for b in got:
            behs.append((pi, ni, tflong, b))
    # ------------------------------ replay into master + replica ------------------------------
    mroot = os.path.join(vlib.scratch(), "master_c25")
    rroot = os.path.join(vlib.scratch(), "replica_c25")
    cases = [{"id": "start", "ops": [{"op": "repl_start", "x": {"master": mroot, "replica": rroot}}]}]
    meta = []
    for n, (pi, ni, tflong, beh) in enumerate(behs):
        c = ReplConc(rng, n, ni, tflong)
        ops = []
        for st in beh:
            ops.append({"op": "repl_group", "x": {"reqs": c.requests(rng, st["tg"])}})
            ops.append({"op": "repl_sync"})
            ops.append({"op": "repl_cmp", "x": {"keys": [c.keyF, c.keyV]}})
        for who in ("replica", "master"):
            ops.append({"op": "repl_use", "x": {"who": who}})
            ops.append({"op": "destroy", "key": c.keyF})
            ops.append({"op": "destroy", "key": c.keyV})
        cases.append({"id": "g%d" % n, "ops": ops})
        meta.append((pi, c, beh))
    # ---- lagging replica: the master flushes several groups before the replica takes the first one from the queue ----
    lag_meta = []
    for ln in range(3 if quick else 12):
        c = ReplConc(rng, 900 + ln, 1, False)
        tfsec = TFSEC[c.tfF] if hasattr(c, "tfF") else 60
        base = year_start(2021) + 40 * DAY + 7 * 3600
        ngr = rng.choice([3, 5, 6])
        ops, want = [], []
        for k in range(ngr):
            ep = base + (k + 1) * tfsec * rng.choice([1, 2, 3]) + 97 * tfsec * k
            val = 100 + k
            ops.append({"op": "write", "buckets": [{"key": c.keyF, "cols": [{"name": "Epoch", "type": "i8", "vals": [ep - ep % tfsec]},
                                                                            {"name": "V", "type": "i4", "vals": [val]}]}]})
            want.append(val)
        # ... and one request with UNSORTED variable-length records of one interval (the master sorts them when it writes its
        # primary file - after the group was handed to the replication sender)
        vb = base + 500 * 86400 // 4
        vb -= vb % 60
        vkey = "RVL%d/1Min/T" % ln
        ops.append({"op": "write", "var": True, "buckets": [{"key": vkey, "cols": [
            {"name": "Epoch", "type": "i8", "vals": [vb + 40, vb + 10, vb + 30]}, {"name": "V", "type": "i4", "vals": [4, 1, 3]},
            {"name": "Nanoseconds", "type": "i4", "vals": [500000000, 600000000, 700000000]}]}]})
        ops.append({"op": "repl_sync", "x": {"refs": True}})
        ops.append({"op": "repl_cmp", "x": {"keys": [c.keyF]}})
        ops.append({"op": "repl_use", "x": {"who": "replica"}})
        ops.append({"op": "destroy", "key": vkey})
        ops.append({"op": "repl_use", "x": {"who": "master"}})
        ops.append({"op": "destroy", "key": vkey})
        for who in ("replica", "master"):
            ops.append({"op": "repl_use", "x": {"who": who}})
            ops.append({"op": "destroy", "key": c.keyF})
        ops.insert(0, {"op": "repl_use", "x": {"who": "master"}})
        cases.append({"id": "lag%d" % ln, "ops": ops})
        lag_meta.append((ln, c, ngr))
    # ---- the real replication.Sender in the chain (its channel and goroutine), one slow delivery: corrections of ONE record in
    # consecutive transactions must reach the replica in commit order
    ord_meta = []
    for on in range(2 if quick else 8):
        c = ReplConc(rng, 950 + on, 1, False)
        tfsec = TFSEC[c.tfF] if hasattr(c, "tfF") else 60
        ep = year_start(2022) + (50 + on) * DAY + 9 * 3600
        ep -= ep % tfsec
        nv = rng.choice([3, 4, 6])
        ops = [{"op": "repl_use", "x": {"who": "master"}}, {"op": "repl_real_sender", "x": {"slow_first_ms": rng.choice([0, 30]), "hold_first_until": nv}}]
        for k in range(nv):
            ops.append({"op": "write", "buckets": [{"key": c.keyF, "cols": [{"name": "Epoch", "type": "i8", "vals": [ep]},
                                                                            {"name": "V", "type": "i4", "vals": [500 + k]}]}]})
        ops.append({"op": "repl_sync", "x": {"wait": nv}})
        ops.append({"op": "repl_cmp", "x": {"keys": [c.keyF]}})
        ops.append({"op": "repl_real_sender", "x": {"off": True}})
        for who in ("replica", "master"):
            ops.append({"op": "repl_use", "x": {"who": who}})
            ops.append({"op": "destroy", "key": c.keyF})
        cases.append({"id": "ord%d" % on, "ops": ops})
        ord_meta.append((on, c, nv))
    vlib.log("[C25] %d histories concretised after %.0fs, replaying" % (len(meta), __import__("time").time() - res.t0))
    obs = vlib.run_cases(binary, cases, timeout=1500 if quick else 7000)
    for on, c, nv in ord_meta:
        o = obs.get(json.dumps("ord%d" % on))
        replay = {"check": "repl.real_sender_order", "key": c.keyF, "versions": nv, "seed": vlib.seed()}
        if o is None or (isinstance(o, dict) and "died" in o):
            res.violation("master or replica died in the real-sender scenario: %s" % str(o)[-300:], replay)
            continue
        wr = o[2:2 + nv]
        if any(x.get("err") or x.get("panic") for x in wr):
            raise Undecided("a master write of the real-sender scenario failed: %s" % [x for x in wr if x.get("err") or x.get("panic")][:1])
        sy, cm = o[2 + nv], o[3 + nv]
        if sy.get("driver_error") or cm.get("driver_error"):
            raise Undecided("driver error in the real-sender scenario: %s" % str(sy)[:200])
        if len(sy.get("tgs", [])) != nv:
            res.violation("%d transactions were committed on the master while the replica was connected through replication.Sender; %d reached it" % (nv, len(sy.get("tgs", []))), replay)
            continue
        m = rows_of(cm["master"][c.keyF], c.keyF)
        r = rows_of(cm["replica"][c.keyF], c.keyF)
        if not isinstance(m, tuple) or len(m[1]) != 1 or m[1][0][-1] != 500 + nv - 1:
            raise Undecided("real-sender scenario: the master does not hold the last version: %s" % str(m)[:200])
        res.cov["traces_validated_against_impl"] += 1
        res.cov.setdefault("real_sender_order_examples", []).append({"master": str(m[1]), "replica": str(r)[:120]})
        if [e for e in sy.get("replay", []) if e]:
            res.violation("real sender: replaying the transmitted transaction groups failed on the replica: %s" % [e for e in sy["replay"] if e][:2], replay)
        elif m != r:
            res.violation("%d successive versions of one record were committed on the master and transmitted through replication.Sender (the first delivery was held until the last version had been handed over): "
                          "after the replica applied every transmitted transaction, %s holds %s on the master and %s on the replica" % (nv, c.keyF, str(m)[:200], str(r)[:200]), replay)
    res.cov["real_sender_order_histories"] = len(ord_meta)
    for ln, c, ngr in lag_meta:
        o = obs.get(json.dumps("lag%d" % ln))
        replay = {"check": "repl.lagging_replica", "key": c.keyF, "groups": ngr, "seed": vlib.seed()}
        if o is None or (isinstance(o, dict) and "died" in o):
            res.violation("master or replica died in the lagging-replica scenario: %s" % str(o)[-300:], replay)
            continue
        wr = o[1:2 + ngr]
        if any(x.get("err") or x.get("panic") for x in wr):
            raise Undecided("a master write of the lagging-replica scenario failed: %s" % [x for x in wr if x.get("err") or x.get("panic")][:1])
        sy, cm = o[2 + ngr], o[3 + ngr]
        if sy.get("mutated_after_handover"):
            res.violation("the bytes of transaction group(s) %s changed after the master handed them to the replication sender (which transmits them "
                          "later from its own goroutine): a replica may receive something else than the committed transaction" % sy["mutated_after_handover"], replay)
        if sy.get("driver_error") or cm.get("driver_error"):
            raise Undecided("driver error in the lagging-replica scenario: %s" % str(sy)[:200])
        m = rows_of(cm["master"][c.keyF], c.keyF)
        r = rows_of(cm["replica"][c.keyF], c.keyF)
        res.cov["traces_validated_against_impl"] += 1
        if [e for e in sy.get("replay", []) if e]:
            res.violation("lagging replica: replaying the %d queued transaction groups failed on the replica: %s" % (ngr, [e for e in sy["replay"] if e][:2]), replay)
        elif m != r:
            res.violation("lagging replica (%d transaction groups flushed by the master before the replica took the first one): the fixed-length bucket %s "
                          "holds %s on the master and %s on the replica" % (ngr, c.keyF, str(m)[:300], str(r)[:300]), replay)
    res.cov["lagging_replica_histories"] = len(lag_meta)
    shutil.rmtree(mroot, ignore_errors=True)
    shutil.rmtree(rroot, ignore_errors=True)
    vlib.log("[C25] replay done after %.0fs, comparing" % (__import__("time").time() - res.t0))
    st0 = obs.get(json.dumps("start"))
    if not isinstance(st0, list) or not st0[0].get("ok") or st0[0].get("same_catalog") or st0[0].get("same_wal"):
        raise Undecided("master / replica did not start as two separate instances: %s" % (st0,))
    # ------------------------------ what the real code did ------------------------------
    # per history: ("died", text) | list of groups; a group is {"F": (master, replica, converged), "V": ..., "rerr": [...], "unsent": bool}
    real, groups, mixed, multi, tfs = [], 0, 0, 0, set()
    for n, (pi, c, beh) in enumerate(meta):
        o = obs.get(json.dumps("g%d" % n))
        if o is None:
            raise Undecided("no observation for case g%d" % n)
        if isinstance(o, dict) and "died" in o:
            real.append(("died", "%s: %s" % (o["died"], o["stderr"][-500:])))
            continue
        res.cov["traces_validated_against_impl"] += 1
        tfs.add(c.tfF)
        tfs.add(c.tfV)
        tolV = c.res_int + 1
        steps = []
        for k, st in enumerate(beh):
            g, sy, cmp_ = o[3 * k], o[3 * k + 1], o[3 * k + 2]
            for x in (g, sy, cmp_):
                if x.get("driver_error") or x.get("panic"):
                    raise Undecided("driver error in g%d group %d: %s" % (n, k, x))
            bad_w = [x for x in g.get("results", []) if x is None or x.get("err") or x.get("panic")]
            if bad_w:
                raise Undecided("a write on the master failed in g%d group %d: %s" % (n, k, bad_w))
            if sy.get("tgs") and sy.get("tgs") != [c.shape(st["tg"])]:
                # the requests were not flushed as the one group the model asked for: nothing can be concluded
                raise Undecided("MODEL-DRIFT: the master sent groups %s, the model expects %s" % (sy.get("tgs"), [c.shape(st["tg"])]))
            groups += 1
            mixed += 1 if len(set(ws["b"] for ws in st["tg"])) > 1 else 0
            multi += 1 if len(st["tg"]) > 1 else 0
            step = {"rerr": [e for e in sy.get("replay", []) if e], "unsent": not sy.get("tgs")}
            for b, key in (("F", c.keyF), ("V", c.keyV)):
                m = rows_of(cmp_["master"][key], key)
                r = rows_of(cmp_["replica"][key], key)
                step[b] = (m, r, converged(m, r, b == "V", tolV))
            steps.append(step)
        real.append(steps)
        res.sample({"concretisation": c.describe(), "groups": [s["tg"] for s in beh]}, limit=3)

    def judge(pred):
        violations, hits, stats = [], [], {"equal_to_model": 0, "deviation_steps": {}}
        for n, (pi, c, beh) in enumerate(meta):
            replay = {"check": "repl", "prop": prop, "concretisation": c.describe(), "behaviour": [s["tg"] for s in beh],
                      "ops": cases[n + 1]["ops"], "seed": vlib.seed()}
            if real[n] and real[n][0] == "died":
                violations.append(("process died (%s) while replicating %s / %s" % (real[n][1], c.keyF, c.keyV), replay))
                continue
            tolV = c.res_int + 1
            tolF = -(-TFSEC[c.tfF] * 10 ** 9 // 2 ** 32) + 1
            for k, step in enumerate(real[n]):
                bad = [(key, step[b][0], step[b][1]) for b, key in (("F", c.keyF), ("V", c.keyV)) if not step[b][2]]
                mst = pred[n][k] if pred.get(n) is not None else None
                all_known = mst is not None and matches_view(c, "F", mst["kF"], step["F"][1], 2 * tolF) and \
                    matches_view(c, "V", mst["kV"], step["V"][1], 2 * tolV)
                stats["equal_to_model"] += 1 if (all_known or (mst is None and not bad)) else 0
                if not bad:
                    continue
                key, m, r = bad[0]
                tgs = [x["tg"] for x in beh[:k + 1]]
                if mst is not None and mst["hit"] and all_known:
                    for d in mst["hit"]:
                        stats["deviation_steps"][d] = stats["deviation_steps"].get(d, 0) + 1
                        hits.append((d, {"bucket": key, "groups": tgs, "master": str(m)[:300], "replica": str(r)[:300],
                                         "replay_error": step["rerr"][:1]}))
                    continue
                violations.append(("after transaction group %d (%s) the query of %s returns %s on the master and %s on the replica (replay errors: %s%s)" % (
                    k + 1, tgs, key, str(m)[:500], str(r)[:500], step["rerr"],
                    "; the master handed no group to its ReplicationSender for this flush" if step["unsent"] else ""), replay))
                break
        return violations, hits, stats

    def alternatives():
        need = {}
        for n, (pi, c, beh) in enumerate(meta):
            if real[n] and real[n][0] != "died" and any(not (step["F"][2] and step["V"][2]) for step in real[n]):
                need.setdefault(pi, []).append(n)
        jobs2, order = [], []
        for pi, ns in sorted(need.items()):
            jobs2.append(("Repl_Script", "script_%d.cfg" % pi, dict(
                timeout=1500 if quick else 6000, heap="6g", workers=6,
                files={"Repl_Script.tla": repl_script_module([[st["tg"] for st in meta[n][2]] for n in ns])},
                cfg_text=vlib.cfg_text(info[pi][6], invariants=["EmitS"], init_next=("InitS", "NextS")))))
            order.append(ns)
        alt = {S: {} for S in subsets_desc(REPL_DEVS)}
        for ns, r in zip(order, tlc_parallel(jobs2)):
            vlib.tlc_ok(r, "Repl_Script")
            res.tlc(r, "Repl_Script")
            recs = r["records"].get("SBEH", [])
            if len(recs) != len(ns) * 2 ** len(REPL_DEVS):
                raise Undecided("Repl_Script emitted %d predictions for %d histories" % (len(recs), len(ns)))
            for x in recs:
                alt[frozenset(x["dv"])][ns[x["sid"] - 1]] = x["hist"]
        return alt

    primary = {n: beh for n, (pi, c, beh) in enumerate(meta)}
    stats, S = report(res, known, settle(REPL_DEVS, judge, primary, alternatives), prop)
    res.cov["groups_replayed"] = groups
    res.cov["groups_with_several_write_sets"] = multi
    res.cov["groups_mixing_fixed_and_variable"] = mixed
    res.cov["groups_equal_to_implementation_shaped_model"] = stats["equal_to_model"]
    res.cov["groups_showing_known_deviation"] = stats["deviation_steps"]
    res.cov["deviations_of_the_tree_under_test"] = sorted(S)
    res.cov["timeframes"] = sorted(tfs, key=lambda t: TFSEC[t])
    res.assumptions += ["time zone UTC", "transport: the serialized group captured from ReplicationSender.Send is handed to Replayer.Replay directly",
                        "several client requests are forced into one transaction group with the hook WriteCSM.beforeFlush",
                        "offsets of variable-length records avoid whole seconds (C09 finding) and 1D buckets avoid Jan 1 (C08 finding)"]
    return res.finish()


def run(prop, tier):
    return run_c24(tier) if prop == "C24" else run_c25(tier)
