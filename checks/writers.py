"""C07: a write returns only after it is durable and visible - schedules of concurrent writers and the WAL loop.

Writers.tla is model-checked (all interleavings of 3 writers with the loop incl. timer flushes); its behaviours are
forced on the real goroutines by the gate player (verifhook points), and at the instant a writer's WriteCSM returns
the controller queries the writer's bucket and inspects the WAL file of the real server."""
PROPS = ["C07"]
READY = True
CLAIMS = {
 "C07": dict(technique="TLC model checking of Writers.tla (3 writers x WAL loop incl. timer flushes, one action per hook-to-hook segment) + TLC behaviours forced on the real goroutines by a gate player at the verifhook points, with a query and a WAL search issued by the writer's own goroutine right after WriteCSM returns + TLC trace validation (Writers_Trace.tla) of free-running executions of four writers and the real SyncWAL loop recorded at the hook points",
             text="Writers.tla is model-checked exhaustively: without the deviation every returned writer's data is fsynced and visible (AckImpliesSyncedAndVisible) and no waiter is lost; with the listed deviation EarlyReturn TLC produces the violating schedules. TLC-generated behaviours (half of them chosen among those in which a writer returns early) are executed by the real RequestFlush / SyncWAL / FlushToWAL goroutines in exactly TLC's order (each goroutine parks at the hook points and is released by the controller; a schedule the real code cannot follow is reported as drift, never as a violation); when a writer's WriteCSM returns success the controller immediately queries its bucket through the real query path and searches the real WAL file for its record (in the writer's own goroutine, so a schedule the code does not follow still decides). Free-running executions (4 writers x 3-5 requests, loop at 1-5 ms) are recorded as one ordered log of hook points and validated by TLC against Writers_Trace.tla, in which every channel operation is an internal step between its two bracketing events and the property guards the return event: a trace that is explainable only without the guard is a violation; an early return is accepted under the guard only if the internal read of len(flushChannel) saw a queued request (the known deviation).",
             note="Interleavings = interleavings of the hook points; timer flushes are explored in the model only; fsync completion is inferred from the Flush.synced hook point having been passed before the return."),
}

import json, os, random, shutil
import vlib
from vlib import Result, Undecided

GATED = ["WriteCSM.beforeFlush", "RequestFlush.early", "RequestFlush.push", "RequestFlush.done",
         "SyncWAL.flushReq", "FlushToWAL.count", "Flush.synced", "Flush.primary", "SyncWAL.flushReq.flushed", "SyncWAL.tickWAL"]
CLIENTS = ["c1", "c2", "c3"]
EPOCH = 1577836800 + 3600 * 24 * 40     # 2020-02-10


def value_of(c, k):
    return 7000000 + 1000 * int(c[1:]) + k


def to_schedule(beh, keyof, tag):
    """model steps -> player steps (with probes at every return)"""
    steps = []
    for st in beh["steps"]:
        p, a, u = st["proc"], st["act"], st["until"]
        if a == "Primary":
            for _ in range(st["n"]):
                steps.append({"actor": "loop", "until": "Flush.primary", "label": "Primary"})
            steps.append({"actor": "loop", "until": "SyncWAL.flushReq.flushed", "label": "Flushed"})
            continue
        if a == "Count" and st["n"] == 0:
            steps.append({"actor": "loop", "until": "FlushToWAL.count", "label": "Count0"})
            steps.append({"actor": "loop", "until": "SyncWAL.flushReq.flushed", "label": "Flushed"})
            continue
        if a == "Return":
            probe = [{"op": "query", "dest": keyof[p]}, {"op": "walgrep", "x": {"value": value_of(p, 1)}}]
            steps.append({"actor": p, "until": "done", "label": "Return", "probe": probe})
            continue
        if a == "Push":
            # after the push the writer blocks in `<-f` (not a hook point): it must not arrive anywhere
            steps.append({"actor": p, "until": "blocked", "label": a, "wait_ms": 60})
        else:
            steps.append({"actor": p, "until": u, "label": a})
        if a == "Push" and st["n"] == 1:
            steps.append({"actor": "loop", "until": "SyncWAL.flushReq", "label": "Take(woken by push)"})
    return steps


EV = {"Queue.before": "QB", "Queue.after": "QA", "RequestFlush.enter": "EN", "RequestFlush.early": "EA", "RequestFlush.push": "PU",
      "RequestFlush.pushed": "PD", "RequestFlush.done": "DN", "WriteCSM.afterFlush": "RT"}
LOOPEV = {"SyncWAL.flushReq": "TK", "SyncWAL.flushReq.flushed": "FL", "SyncWAL.tickWAL": "TW", "FlushToWAL.count": "CT", "Flush.synced": "SY",
          "Flush.primary": "PR"}
TRACE_POINTS = ["Queue.", "RequestFlush.", "WriteCSM.afterFlush", "SyncWAL.flushReq", "SyncWAL.tickWAL", "FlushToWAL.count", "Flush."]


def abstract_trace(events, writers):
    """hook log -> events of Writers_Trace.tla"""
    out, cur = [], {}
    last_loop = None
    for e in events:
        a, p, args = e["actor"], e["point"], e["args"]
        if p == "op.begin":
            cur[a] = "%s.%s" % (a, args)
            continue
        if p == "op.end":
            continue
        if a in writers:
            if p in EV and a in cur:
                out.append({"e": EV[p], "r": cur[a], "w": a})
            continue
        if p not in LOOPEV:
            continue
        ev = LOOPEV[p]
        if ev == "CT":
            if last_loop not in ("TK", "TW"):
                out.append({"e": "TW"})      # a flush not announced by a take / timer point (the channel-nearly-full check): like a timer flush
            out.append({"e": "CT", "n": int(args)})
        elif ev == "PR":
            w = [x for x in writers if args.startswith("W%s/" % x)]
            if not w:
                continue
            out.append({"e": "PR", "w": w[0]})
        else:
            out.append({"e": ev})
        last_loop = ev
    return out


def tlc_trace(res, ab, monitor, label):
    nd = "".join(json.dumps(x) + "\n" for x in ab)
    r = vlib.run_tlc("Writers_Trace", "wtrace.cfg", cfg_text=vlib.cfg_text(dict(Monitor="TRUE" if monitor else "FALSE"), invariants=["EmitAcc"]),
                     files={"writers_trace.ndjson": nd}, timeout=600, workers=4)
    vlib.tlc_ok(r, "Writers_Trace " + label)
    res.tlc(r, "Writers_Trace/" + label)
    return r["records"].get("ACC", [])


def trace_validation(res, binary, rng, ntraces, known):
    writers = ["c1", "c2", "c3", "c4"]
    stats = dict(traces=0, accepted=0, events=0, early_returns=0, early_returns_not_durable=0, drift=0)
    for ti in range(ntraces):
        root = os.path.join(vlib.scratch(), "c07tr_%d" % ti)
        keyof = {c: "W%s/1Min/G" % c for c in writers}
        ops = [{"op": "start", "root": root, "loop_wal_ms": rng.choice([1, 2, 5]), "loop_prim_ms": 600000}]
        for c in writers:
            ops.append({"op": "create", "key": keyof[c] + ":Symbol/Timeframe/AttributeGroup", "names": ["V"], "types": ["i8"]})
        actors = {}
        nreq = rng.choice([3, 4, 5])
        for c in writers:
            actors[c] = []
            for k in range(nreq):
                actors[c].append({"op": "write", "via": "csm", "buckets": [{"key": keyof[c], "cols": [
                    {"name": "Epoch", "type": "i8", "vals": [EPOCH + 60 * (10 * int(c[1:]) + k)]}, {"name": "V", "type": "i8", "vals": [value_of(c, k + 2)]}]}]})
        ops.append({"op": "trace", "x": {"actors": actors, "points": TRACE_POINTS, "background": {"SyncWAL.": "loop", "FlushToWAL.": "loop", "Flush.": "loop"}}})
        ops.append({"op": "shutdown"})
        obs = vlib.run_cases(binary, [{"id": "t", "ops": ops}], timeout=300, tag="c07tr")
        shutil.rmtree(root, ignore_errors=True)
        o = obs.get(json.dumps("t"))
        if o is None or (isinstance(o, dict) and "died" in o):
            res.violation("the server died under free-running concurrent writers: %s" % str(o)[-400:], {"check": "writers.trace", "seed": vlib.seed()})
            continue
        tr = o[1 + len(writers)]
        werr = [ob.get("err") or ob.get("panic") for a, obl in (tr.get("actors") or {}).items() for ob in obl if ob.get("err") or ob.get("panic")]
        if werr:
            raise Undecided("a free-running write failed: %s" % werr[:2])
        ab = abstract_trace(tr["events"], writers)
        stats["traces"] += 1
        stats["events"] += len(ab)
        replay = {"check": "writers.trace", "abstract_trace": ab, "seed": vlib.seed()}
        acc = tlc_trace(res, ab, True, "monitor")
        if acc:
            stats["accepted"] += 1
            res.cov["traces_validated_against_impl"] += 1
            stats["early_returns"] += min(len(a["early"]) for a in acc)
            nbad = min(len(a["earlybad"]) for a in acc)
            stats["early_returns_not_durable"] += nbad
            if nbad and "EarlyReturn" in known:
                best = min(acc, key=lambda a: len(a["earlybad"]))
                res.known_finding(known["EarlyReturn"], {"free_running_trace": True, "requests_returned_early_before_their_fsync": best["earlybad"]})
            elif nbad:
                res.violation("free-running trace: requests %s returned through the early-return path before their data was fsynced and visible" % (
                    min(acc, key=lambda a: len(a["earlybad"]))["earlybad"]), replay)
            continue
        acc2 = tlc_trace(res, ab, False, "no-monitor")
        if acc2:
            res.violation("free-running trace of %d events: the recorded order of hook points is a behaviour of the write-path model only if some "
                          "request returns success before its data is in the fsynced WAL and in the primary file (no interpretation of the internal "
                          "channel steps satisfies the property)" % len(ab), replay)
        else:
            stats["drift"] += 1
            # how far can the model follow?  (bisect on the accepted prefix)
            lo, hi = 0, len(ab)
            while lo < hi:
                mid = (lo + hi + 1) // 2
                if tlc_trace(res, ab[:mid], False, "prefix"):
                    lo = mid
                else:
                    hi = mid - 1
            res.cov.setdefault("trace_drift_examples", [])
            if len(res.cov["trace_drift_examples"]) < 3:
                res.cov["trace_drift_examples"].append({"accepted_prefix": lo, "next_events": ab[max(0, lo - 3):lo + 2]})
    if stats["traces"] and stats["accepted"] == 0 and not res.violations:
        raise Undecided("SPEC-DRIFT: none of %d free-running traces is a behaviour of Writers_Trace.tla: %s" % (stats["traces"], res.cov.get("trace_drift_examples")))
    return stats


def bulk_request(res, binary, rng, quick):
    """The model's writers issue one command each.  A request is also a SIZE: one bulk request of 100 000 rows (one write command per
    row; the write channel holds 1 000 000) must be wholly in the WAL and wholly visible when it returns - with the inline flush and with
    the background loop."""
    n = 100000
    base = 1600000000 + rng.randrange(0, 1000) * 7
    last_v = (n - 1) * 3 + 1000001
    cases = []
    for mode in ("inline", "loop"):
        root = os.path.join(vlib.scratch(), "c07_bulk_" + mode)
        start = {"op": "start", "root": root}
        if mode == "loop":
            start.update({"loop_wal_ms": 5, "loop_prim_ms": 600000})
        key = "BULK%s/1Sec/G" % mode
        ops = [start, {"op": "create", "key": key + ":Symbol/Timeframe/AttributeGroup", "names": ["V"], "types": ["i8"]},
               {"op": "write", "var": False, "buckets": [{"key": key, "cols": [{"name": "Epoch", "type": "i8", "vals": [base + k for k in range(n)]},
                                                                               {"name": "V", "type": "i8", "vals": [k * 3 + 1000001 for k in range(n)]}]}]},
               {"op": "query", "dest": key}, {"op": "walgrep", "x": {"value": last_v}}, {"op": "walgrep", "x": {"value": 1000001}}]
        cases.append({"id": "bulk-" + mode, "ops": ops})
    obs = vlib.run_cases(binary, cases, timeout=900, tag="c07bulk")
    for c in cases:
        o = obs.get(json.dumps(c["id"]))
        mode = c["id"].split("-")[1]
        replay = {"check": "writers.bulk", "mode": mode, "rows": n, "base_epoch": base}
        what = "one write request of %d rows (%s flush)" % (n, "background loop" if mode == "loop" else "inline")
        if o is None:
            raise Undecided("no observation for %s" % c["id"])
        if isinstance(o, dict) and "died" in o:
            res.violation("%s: the server died: %s" % (what, (o.get("stderr") or "")[-400:]), replay)
            continue
        w, q, g_last, g_first = o[2], o[3], o[4], o[5]
        if w.get("driver_error") or o[1].get("err"):
            raise Undecided("bulk request could not be issued: %s %s" % (str(o[1])[:200], str(w)[:200]))
        if w.get("panic"):
            res.violation("%s panicked: %s" % (what, str(w["panic"])[:300]), replay)
            continue
        if w.get("err"):
            continue         # not acknowledged: nothing is promised
        vals = []
        if not q.get("err"):
            for k, cols in (q.get("result") or {}).items():
                for col in cols:
                    if col["name"] == "V":
                        vals = col["vals"]
        want = [k * 3 + 1000001 for k in range(n)]
        if q.get("err") or vals != want:
            first_bad = next((k for k in range(min(len(vals), n)) if vals[k] != want[k]), min(len(vals), n))
            res.violation("%s returned success, but a query started after the return %s: %d of %d rows, first difference at row %d" % (
                what, "failed (%s)" % str(q.get("err"))[:200] if q.get("err") else "does not see all of it", len(vals), n, first_bad), replay)
        elif not g_last.get("found") or not g_first.get("found"):
            res.violation("%s returned success and is visible, but its %s record is not in the WAL file" % (what, "last" if not g_last.get("found") else "first"), replay)
        else:
            res.cov["traces_validated_against_impl"] += 1
    res.cov["bulk_request_rows"] = n


def run(prop, tier):
    res = Result(prop, tier)
    rng = random.Random(vlib.seed() * 32452843 + 7)
    binary = vlib.build_harness()
    quick = tier == "quick"
    known = {k["deviation"]: k for k in vlib.known_findings(prop)}
    # E1
    consts = dict(Clients='{"c1","c2","c3"}', Deviations="{}", WithTick="TRUE")
    r = vlib.run_tlc("Writers", "wr_pure.cfg", cfg_text=vlib.cfg_text(consts, invariants=["AckImpliesSyncedAndVisible", "NoLostWaiter"], view="View"), timeout=1800, coverage=not quick)
    vlib.tlc_ok(r, "Writers pure")
    res.tlc(r, "Writers/pure")
    if r["violated"]:
        raise Undecided("MODEL-DRIFT: Writers.tla (pure) violates %s" % r["violated"])
    r = vlib.run_tlc("Writers", "wr_dev.cfg", cfg_text=vlib.cfg_text(dict(consts, Deviations='{"EarlyReturn"}'), invariants=["AckImpliesSyncedAndVisible"], view="View"), timeout=900)
    res.tlc(r, "Writers/EarlyReturn(expected to fail)")
    if not r["violated"]:
        raise Undecided("MODEL-DRIFT: EarlyReturn no longer breaks AckImpliesSyncedAndVisible in the model")
    # E2: schedules
    nb = 24 if quick else 300
    consts = dict(Clients='{"c1","c2","c3"}', Deviations='{"EarlyReturn"}', WithTick="FALSE")
    r = vlib.run_tlc("Writers", "wr_sim.cfg", cfg_text=vlib.cfg_text(consts, invariants=["Emit"], view="View"), simulate=nb * 2, depth=60,
                     seed_=rng.randrange(1, 2 ** 31), workers=1, timeout=900)
    vlib.tlc_ok(r, "Writers simulate")
    res.tlc(r, "Writers/simulate")
    behs = r["records"].get("BEH", [])
    uniq = {json.dumps(b, sort_keys=True): b for b in behs}
    behs = list(uniq.values())
    # make sure schedules in which a writer returns early are among them
    early = [b for b in behs if any(not s["ok"] for s in b["steps"])]
    rest = [b for b in behs if b not in early]
    rng.shuffle(early)
    rng.shuffle(rest)
    behs = (early[:nb // 2] + rest)[:nb]
    if not behs:
        raise Undecided("no schedules from TLC")
    cases, meta = [], {}
    for bi, beh in enumerate(behs):
        root = os.path.join(vlib.scratch(), "c07_%d" % bi)
        keyof = {c: "W%s/1Min/G" % c for c in CLIENTS}
        ops = [{"op": "start", "root": root, "loop_wal_ms": 4000, "loop_prim_ms": 600000}]
        for c in CLIENTS:
            ops.append({"op": "create", "key": keyof[c] + ":Symbol/Timeframe/AttributeGroup", "names": ["V"], "types": ["i8"]})
        actors = {}
        for c in CLIENTS:
            # the write, and IN THE SAME GOROUTINE right after its return a query of the writer's bucket and a search of
            # the WAL file: "any query that starts after the return sees it" is observed whatever the rest of the play does
            actors[c] = [{"op": "write", "via": "csm", "buckets": [{"key": keyof[c], "cols": [
                {"name": "Epoch", "type": "i8", "vals": [EPOCH + 60 * int(c[1:])]}, {"name": "V", "type": "i8", "vals": [value_of(c, 1)]}]}]},
                {"op": "query", "dest": keyof[c]}, {"op": "walgrep", "x": {"value": value_of(c, 1)}}]
        sched = to_schedule(beh, keyof, bi)
        ops.append({"op": "play", "x": {"actors": actors, "gated": GATED, "schedule": sched, "timeout_ms": 400,
                                        "background": {"SyncWAL.": "loop", "FlushToWAL.": "loop", "Flush.": "loop"}, "finish": True}})
        ops.append({"op": "shutdown"})
        cases.append({"id": bi, "ops": ops})
        meta[json.dumps(bi)] = (beh, sched, keyof, root)
    obs = vlib.run_cases(binary, cases, timeout=(900 if quick else 7200), tag="c07")
    drifts = 0
    played = 0
    for cid, (beh, sched, keyof, root) in meta.items():
        shutil.rmtree(root, ignore_errors=True)
        o = obs.get(cid)
        replay = {"check": "writers", "schedule": sched, "model_steps": beh["steps"], "seed": vlib.seed()}
        if o is None:
            raise Undecided("no observation for schedule")
        if isinstance(o, dict) and "died" in o:
            res.violation("the server died while playing a writer schedule: %s" % (o.get("stderr") or "")[-400:], replay)
            continue
        play = o[1 + len(CLIENTS)]
        if play.get("driver_error") or play.get("panic"):
            raise Undecided("player failed: %s" % str(play)[:300])
        # ---- whatever happened to the schedule: every writer that returned success must be visible and in the WAL ----
        for c in CLIENTS:
            fin = (play.get("finished") or {}).get(c)
            if not fin or len(fin) < 3:
                continue
            wobs, q, g = fin[0], fin[1], fin[2]
            if wobs.get("panic"):
                res.violation("writer %s panicked: %s" % (c, str(wobs["panic"])[:300]), replay)
                continue
            if wobs.get("err"):
                continue
            vis = any(col["name"] == "V" and value_of(c, 1) in col["vals"] for k, cols in (q.get("result") or {}).items() for col in cols) if not q.get("err") else False
            inwal = bool(g.get("found"))
            if vis and inwal:
                continue
            passed = (play.get("passed") or {}).get(c) or []
            what = "writer %s returned success but the query it issued right after the return %s its row and its record is %s the WAL file" % (
                c, "sees" if vis else "does not see", "in" if inwal else "not in")
            # the known defect: the writer saw ANOTHER FLUSH REQUEST QUEUED and returned without waiting (the hook reports how many
            # requests it saw; in a forced schedule nobody else runs between the test and the hook)
            seen_queued = [int(x.split("|")[1]) for x in passed if x.startswith("RequestFlush.early|") and x.split("|")[1].isdigit()]
            if seen_queued and seen_queued[-1] > 0 and "EarlyReturn" in known:
                res.known_finding(known["EarlyReturn"], {"schedule": [(s_["actor"], s_["until"]) for s_ in sched][:14], "writer": c, "path": "RequestFlush.early"})
            else:
                res.violation(what + " (hook points passed by the writer: %s; schedule %s%s)" % (
                    passed, [(s_["actor"], s_["until"]) for s_ in sched][:16], ", not followed by the code: " + play["drift"] if play["drift"] else ""), replay)
        if play["drift"]:
            drifts += 1
            res.cov.setdefault("drift_examples", [])
            if len(res.cov["drift_examples"]) < 3:
                res.cov["drift_examples"].append(play["drift"])
            continue
        played += 1
        res.cov["traces_validated_against_impl"] += 1
        model_ok = {}
        for st in beh["steps"]:
            if st["act"] == "Return":
                model_ok[st["proc"]] = st["ok"]
        for st in play["steps"]:
            if st.get("label") != "Return":
                continue
            c = st["actor"]
            wobs = (st.get("obs") or [{}])[0]
            if wobs.get("panic"):
                res.violation("writer %s panicked: %s" % (c, str(wobs["panic"])[:300]), replay)
                continue
            if wobs.get("err"):
                continue     # the write did not return success: nothing is promised
            q, g = st["probe"][0], st["probe"][1]
            vis = False
            if not q.get("err"):
                for k, cols in (q.get("result") or {}).items():
                    for col in cols:
                        if col["name"] == "V" and value_of(c, 1) in col["vals"]:
                            vis = True
            inwal = bool(g.get("found"))
            if vis and inwal:
                continue
            what = "writer %s returned success but a query started after the return %s its row and its record is %s the WAL file" % (
                c, "sees" if vis else "does not see", "in" if inwal else "not in")
            if not model_ok.get(c, True) and "EarlyReturn" in known:
                res.known_finding(known["EarlyReturn"], {"schedule": [(s["actor"], s["until"]) for s in sched][:14], "writer": c})
            else:
                res.violation(what + " (schedule forced with gates)", replay)
        res.sample({"schedule": [(s["actor"], s["until"]) for s in sched]}, limit=2)
    bulk_request(res, binary, rng, quick)
    # ---- E3: free-running executions validated against Writers_Trace.tla (code -> spec) ----
    ntr = 3 if quick else 25
    tv = trace_validation(res, binary, rng, ntr, known)
    res.cov["free_running_traces"] = tv
    res.cov["schedules_played"] = played
    res.cov["schedules_infeasible_on_real_code"] = drifts
    if played < max(3, len(meta) // 3) and not res.violations:
        raise Undecided("only %d of %d schedules could be forced on the real code (drift): %s" % (played, len(meta), res.cov.get("drift_examples")))
    res.assumptions += ["'all interleavings' on the real code = all interleavings of the hook points; timer flushes are explored in the model (WithTick) "
                        "but not forced on the code (tickers cannot be triggered); durability is observed as 'record bytes are in the WAL file at return' "
                        "together with the fsync hook point having been passed in the forced schedule"]
    return res.finish()
