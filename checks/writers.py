"""C07: a write returns only after it is durable and visible - schedules of concurrent writers and the WAL loop.

Writers.tla is model-checked (all interleavings of 3 writers with the loop incl. timer flushes); its behaviours are
forced on the real goroutines by the gate player (verifhook points), and at the instant a writer's WriteCSM returns
the controller queries the writer's bucket and inspects the WAL file of the real server."""
PROPS = ["C07"]
READY = True
CLAIMS = {
 "C07": dict(technique="TLC model checking of Writers.tla (3 writers x WAL loop incl. timer flushes, one action per hook-to-hook segment) + TLC behaviours forced on the real goroutines by a gate player at the verifhook points, with a query and a WAL inspection at the instant each WriteCSM returns",
             text="Writers.tla is model-checked exhaustively: without the deviation every returned writer's data is fsynced and visible (AckImpliesSyncedAndVisible) and no waiter is lost; with the listed deviation EarlyReturn TLC produces the violating schedules. TLC-generated behaviours (half of them chosen among those in which a writer returns early) are executed by the real RequestFlush / SyncWAL / FlushToWAL goroutines in exactly TLC's order (each goroutine parks at the hook points and is released by the controller; a schedule the real code cannot follow is reported as drift, never as a violation); when a writer's WriteCSM returns success the controller immediately queries its bucket through the real query path and searches the real WAL file for its record.",
             note="Interleavings = interleavings of the hook points; timer flushes are explored in the model only; fsync completion is inferred from the Flush.synced hook point having been passed before the return."),
}

import json, os, random, shutil
import vlib
from vlib import Result, Undecided

GATED = ["WriteCSM.beforeFlush", "RequestFlush.early", "RequestFlush.push", "RequestFlush.done",
         "SyncWAL.flushReq", "FlushToWAL.count", "Flush.synced", "Flush.primary", "SyncWAL.flushReq.flushed", "SyncWAL.tickWAL"]
CLIENTS = ["c1", "c2", "c3"]
EPOCH = 1577836800 + 3600 * 24 * 40     # 2020-02-10


def value_of(c, k):
    return 7000000 + 1000 * int(c[1:]) + k


def to_schedule(beh, keyof, tag):
    """model steps -> player steps (with probes at every return)"""
    steps = []
    for st in beh["steps"]:
        p, a, u = st["proc"], st["act"], st["until"]
        if a == "Primary":
            for _ in range(st["n"]):
                steps.append({"actor": "loop", "until": "Flush.primary", "label": "Primary"})
            steps.append({"actor": "loop", "until": "SyncWAL.flushReq.flushed", "label": "Flushed"})
            continue
        if a == "Count" and st["n"] == 0:
            steps.append({"actor": "loop", "until": "FlushToWAL.count", "label": "Count0"})
            steps.append({"actor": "loop", "until": "SyncWAL.flushReq.flushed", "label": "Flushed"})
            continue
        if a == "Return":
            probe = [{"op": "query", "dest": keyof[p]}, {"op": "walgrep", "x": {"value": value_of(p, 1)}}]
            steps.append({"actor": p, "until": "done", "label": "Return", "probe": probe})
            continue
        if a == "Push":
            # after the push the writer blocks in `<-f` (not a hook point): it must not arrive anywhere
            steps.append({"actor": p, "until": "blocked", "label": a, "wait_ms": 60})
        else:
            steps.append({"actor": p, "until": u, "label": a})
        if a == "Push" and st["n"] == 1:
            steps.append({"actor": "loop", "until": "SyncWAL.flushReq", "label": "Take(woken by push)"})
    return steps


def run(prop, tier):
    res = Result(prop, tier)
    rng = random.Random(vlib.seed() * 32452843 + 7)
    binary = vlib.build_harness()
    quick = tier == "quick"
    known = {k["deviation"]: k for k in vlib.known_findings(prop)}
    # E1
    consts = dict(Clients='{"c1","c2","c3"}', Deviations="{}", WithTick="TRUE")
    r = vlib.run_tlc("Writers", "wr_pure.cfg", cfg_text=vlib.cfg_text(consts, invariants=["AckImpliesSyncedAndVisible", "NoLostWaiter"], view="View"), timeout=900)
    vlib.tlc_ok(r, "Writers pure")
    res.tlc(r, "Writers/pure")
    if r["violated"]:
        raise Undecided("MODEL-DRIFT: Writers.tla (pure) violates %s" % r["violated"])
    r = vlib.run_tlc("Writers", "wr_dev.cfg", cfg_text=vlib.cfg_text(dict(consts, Deviations='{"EarlyReturn"}'), invariants=["AckImpliesSyncedAndVisible"], view="View"), timeout=900)
    res.tlc(r, "Writers/EarlyReturn(expected to fail)")
    if not r["violated"]:
        raise Undecided("MODEL-DRIFT: EarlyReturn no longer breaks AckImpliesSyncedAndVisible in the model")
    # E2: schedules
    nb = 24 if quick else 300
    consts = dict(Clients='{"c1","c2","c3"}', Deviations='{"EarlyReturn"}', WithTick="FALSE")
    r = vlib.run_tlc("Writers", "wr_sim.cfg", cfg_text=vlib.cfg_text(consts, invariants=["Emit"], view="View"), simulate=nb * 2, depth=60,
                     seed_=rng.randrange(1, 2 ** 31), workers=1, timeout=900)
    vlib.tlc_ok(r, "Writers simulate")
    res.tlc(r, "Writers/simulate")
    behs = r["records"].get("BEH", [])
    uniq = {json.dumps(b, sort_keys=True): b for b in behs}
    behs = list(uniq.values())
    # make sure schedules in which a writer returns early are among them
    early = [b for b in behs if any(not s["ok"] for s in b["steps"])]
    rest = [b for b in behs if b not in early]
    rng.shuffle(early)
    rng.shuffle(rest)
    behs = (early[:nb // 2] + rest)[:nb]
    if not behs:
        raise Undecided("no schedules from TLC")
    cases, meta = [], {}
    for bi, beh in enumerate(behs):
        root = os.path.join(vlib.scratch(), "c07_%d" % bi)
        keyof = {c: "W%s/1Min/G" % c for c in CLIENTS}
        ops = [{"op": "start", "root": root, "loop_wal_ms": 4000, "loop_prim_ms": 600000}]
        for c in CLIENTS:
            ops.append({"op": "create", "key": keyof[c] + ":Symbol/Timeframe/AttributeGroup", "names": ["V"], "types": ["i8"]})
        actors = {}
        for c in CLIENTS:
            # the write, and IN THE SAME GOROUTINE right after its return a query of the writer's bucket and a search of
            # the WAL file: "any query that starts after the return sees it" is observed whatever the rest of the play does
            actors[c] = [{"op": "write", "via": "csm", "buckets": [{"key": keyof[c], "cols": [
                {"name": "Epoch", "type": "i8", "vals": [EPOCH + 60 * int(c[1:])]}, {"name": "V", "type": "i8", "vals": [value_of(c, 1)]}]}]},
                {"op": "query", "dest": keyof[c]}, {"op": "walgrep", "x": {"value": value_of(c, 1)}}]
        sched = to_schedule(beh, keyof, bi)
        ops.append({"op": "play", "x": {"actors": actors, "gated": GATED, "schedule": sched, "timeout_ms": 400,
                                        "background": {"SyncWAL.": "loop", "FlushToWAL.": "loop", "Flush.": "loop"}, "finish": True}})
        ops.append({"op": "shutdown"})
        cases.append({"id": bi, "ops": ops})
        meta[json.dumps(bi)] = (beh, sched, keyof, root)
    obs = vlib.run_cases(binary, cases, timeout=(900 if quick else 7200), tag="c07")
    drifts = 0
    played = 0
    for cid, (beh, sched, keyof, root) in meta.items():
        shutil.rmtree(root, ignore_errors=True)
        o = obs.get(cid)
        replay = {"check": "writers", "schedule": sched, "model_steps": beh["steps"], "seed": vlib.seed()}
        if o is None:
            raise Undecided("no observation for schedule")
        if isinstance(o, dict) and "died" in o:
            res.violation("the server died while playing a writer schedule: %s" % (o.get("stderr") or "")[-400:], replay)
            continue
        play = o[1 + len(CLIENTS)]
        if play.get("driver_error") or play.get("panic"):
            raise Undecided("player failed: %s" % str(play)[:300])
        # ---- whatever happened to the schedule: every writer that returned success must be visible and in the WAL ----
        for c in CLIENTS:
            fin = (play.get("finished") or {}).get(c)
            if not fin or len(fin) < 3:
                continue
            wobs, q, g = fin[0], fin[1], fin[2]
            if wobs.get("panic"):
                res.violation("writer %s panicked: %s" % (c, str(wobs["panic"])[:300]), replay)
                continue
            if wobs.get("err"):
                continue
            vis = any(col["name"] == "V" and value_of(c, 1) in col["vals"] for k, cols in (q.get("result") or {}).items() for col in cols) if not q.get("err") else False
            inwal = bool(g.get("found"))
            if vis and inwal:
                continue
            passed = (play.get("passed") or {}).get(c) or []
            what = "writer %s returned success but the query it issued right after the return %s its row and its record is %s the WAL file" % (
                c, "sees" if vis else "does not see", "in" if inwal else "not in")
            if "RequestFlush.early" in passed and "EarlyReturn" in known:
                res.known_finding(known["EarlyReturn"], {"schedule": [(s_["actor"], s_["until"]) for s_ in sched][:14], "writer": c, "path": "RequestFlush.early"})
            else:
                res.violation(what + " (hook points passed by the writer: %s; schedule %s%s)" % (
                    passed, [(s_["actor"], s_["until"]) for s_ in sched][:16], ", not followed by the code: " + play["drift"] if play["drift"] else ""), replay)
        if play["drift"]:
            drifts += 1
            res.cov.setdefault("drift_examples", [])
            if len(res.cov["drift_examples"]) < 3:
                res.cov["drift_examples"].append(play["drift"])
            continue
        played += 1
        res.cov["traces_validated_against_impl"] += 1
        model_ok = {}
        for st in beh["steps"]:
            if st["act"] == "Return":
                model_ok[st["proc"]] = st["ok"]
        for st in play["steps"]:
            if st.get("label") != "Return":
                continue
            c = st["actor"]
            wobs = (st.get("obs") or [{}])[0]
            if wobs.get("panic"):
                res.violation("writer %s panicked: %s" % (c, str(wobs["panic"])[:300]), replay)
                continue
            if wobs.get("err"):
                continue     # the write did not return success: nothing is promised
            q, g = st["probe"][0], st["probe"][1]
            vis = False
            if not q.get("err"):
                for k, cols in (q.get("result") or {}).items():
                    for col in cols:
                        if col["name"] == "V" and value_of(c, 1) in col["vals"]:
                            vis = True
            inwal = bool(g.get("found"))
            if vis and inwal:
                continue
            what = "writer %s returned success but a query started after the return %s its row and its record is %s the WAL file" % (
                c, "sees" if vis else "does not see", "in" if inwal else "not in")
            if not model_ok.get(c, True) and "EarlyReturn" in known:
                res.known_finding(known["EarlyReturn"], {"schedule": [(s["actor"], s["until"]) for s in sched][:14], "writer": c})
            else:
                res.violation(what + " (schedule forced with gates)", replay)
        res.sample({"schedule": [(s["actor"], s["until"]) for s in sched]}, limit=2)
    res.cov["schedules_played"] = played
    res.cov["schedules_infeasible_on_real_code"] = drifts
    if played < max(3, len(meta) // 3) and not res.violations:
        raise Undecided("only %d of %d schedules could be forced on the real code (drift): %s" % (played, len(meta), res.cov.get("drift_examples")))
    res.assumptions += ["'all interleavings' on the real code = all interleavings of the hook points; timer flushes are explored in the model (WithTick) "
                        "but not forced on the code (tickers cannot be triggered); durability is observed as 'record bytes are in the WAL file at return' "
                        "together with the fsync hook point having been passed in the forced schedule"]
    return res.finish()
