"""C19 / C20: the SQL front end.  Sql.tla statements (TLC-enumerated) rendered as SQL text and executed by the real
DataService.Query -> sqlparser.BuildQueryTree -> NewExecutableStatement -> Materialize on one fixed-length and one
variable-length bucket."""
PROPS = ["C19", "C20"]
READY = True
CLAIMS = {
 "C19": dict(technique="TLA+ refinement (StaticPredicate group / Epoch push-down / scan / post-filter model vs declarative filter) checked by TLC; every TLC-enumerated conjunction rendered as SQL text and executed by the real server on a fixed and a variable bucket",
             text="Sql.tla models the WHERE pipeline as coded (AddComparison tightening, BETWEEN = (>,<), IsFalse short cut, Epoch push-down with its +-1 adjustment and literal kinds, interval scan / trimResultsToRange, per-column post-filter) next to the declarative filter. TLC checks exhaustively that the deviation-free pipeline equals the declarative filter for all conjunctions of <= 2 comparisons (thorough: plus the conjunctions of 3 that extend every 300th pair) over {Epoch, three value columns} x {<,<=,>,>=,=,BETWEEN} x bounds on / between / outside stored values x literal kinds {datetime string, epoch seconds, epoch nanoseconds} (quick: BETWEEN with datetime strings over a reduced set of bounds). TLC also derives, per statement, the answers the tree gives under every subset of the exercised named deviations. All single comparisons and a seeded sample of the longer conjunctions are rendered as SQL text and run through DataService.Query on a 5-row fixed-length and a 6-row variable-length 1Min bucket; the returned rows must be exactly the rows the declarative filter selects from the rows a plain query returns.",
             note="Trusted: TLC, the Python rendering (grid positions -> timestamps / literals, levels -> column values). Value literals are non-negative (unary minus is rejected by the parser with an explicit error) and integer for integer columns; <> is not part of the statement. A response without columns (provably false predicate) is read as zero rows."),
 "C20": dict(technique="TLA+ model of Project/Rename, LIMIT (pushed down or not) and InsertIntoStatement vs the relational answer, checked by TLC; TLC-enumerated statements executed as SQL text by the real server, INSERT targets re-queried",
             text="TLC enumerates every select list (ordered subsets of Epoch and three value columns, each item without alias, with a fresh alias or with an alias that is the name of another bucket column), LIMIT 0..rows+1 with and without WHERE, and INSERT INTO for source selections (no WHERE, lower/upper/BETWEEN Epoch range, value predicate, empty selection, LIMIT) x select lists containing Epoch x target timeframes (same, 5x, 60x; fixed and variable target), and checks that the deviation-free pipeline equals the relational answer. Every LIMIT value with and without WHERE, every select list of <= 2 items and a seeded sample of the rest (other WHERE clauses, longer lists, INSERTs) are executed as SQL text on a fixed and a variable bucket; result columns (by output name) and rows are compared; after INSERT the target bucket is queried with the plain query API and must hold the selected rows at timestamps truncated to the target timeframe. Select lists of aggregate calls (min / max / count, with and without aliases; outside the model's column-only lists) are run as directed statements: every item must come back under its own alias or the function's default name with the aggregate of the stored column.",
             note="Trusted: TLC, the Python rendering. Rows of one INSERT that fall into the same interval of a fixed-length target: any one of them is accepted. Variable-length target: time accepted within [start of target interval, source time + 1 s] (sub-second part is not carried by INSERT; KF-C09-1). Column order of a result is not compared. The statement result of INSERT itself is not part of the property."),
}
import calendar, json, os, random, shutil, struct, time
import vlib
from vlib import Result, Undecided

ALL_DEVS = ["EpochLteExcludesBound", "EpochGteExcludesBound", "EpochSecondsRaw", "LooserBoundKept", "StickyInclusive",
            "LastEqualityWins", "UnfilteredColumnType", "LimitZeroIsNoLimit", "AliasCollision"]
G = 4
NIV = 8
TFSEC = 60
# grid layouts: stored rows (grid position) and Epoch bounds on / between / outside them
LAYOUT = {
    "fixed": dict(rows=[4, 8, 12, 20, 24], lits=[2, 4, 6, 8, 12, 16, 18, 24, 26], btw=[4, 12, 18], btwq=[2, 4, 8, 18, 24, 26]),
    "variable": dict(rows=[5, 7, 9, 17, 19, 23], lits=[2, 4, 5, 6, 7, 8, 9, 14, 17, 19, 23, 26], btw=[4, 7, 14, 19],
                     btwq=[2, 5, 7, 14, 19, 23, 26]),
}
REAL_NAME = {"Epoch": "Epoch", "A": "Bid", "B": "Qty", "C": "Cnt", "F1": "x1", "F2": "x2", "F3": "x3", "F4": "x4"}
TGT_TF = {1: ("1Min", 60), 2: ("5Min", 300), 3: ("1H", 3600), 4: ("5Min", 300)}


def f32(x):
    return struct.unpack("<f", struct.pack("<f", x))[0]


class Bucket:
    """One stored bucket: model layout + its concrete rendering."""

    def __init__(self, rng, kind, sym, passengers=False):
        self.kind, self.key = kind, "%s/1Min/G" % sym
        # passenger columns (C19): one column of every numeric element type that no predicate mentions; SELECT * must return them
        # with the stored row's values whatever the filter kept
        self.passengers = [("X" + t, t) for t in ("i1", "i2", "i4", "i8", "u1", "u2", "u4", "u8", "f4", "f8")] if passengers else []
        lay = LAYOUT[kind]
        self.pos = lay["rows"]
        n = len(self.pos)
        # levels 1..3 per value column, every level present in A
        while True:
            self.lv = {c: [rng.randint(1, 3) for _ in range(n)] for c in "ABC"}
            if set(self.lv["A"]) == {1, 2, 3} and len(set(self.lv["B"])) >= 2:
                break
        self.lits, self.btw, self.btwq = lay["lits"], lay["btw"], lay["btwq"]
        # concrete time axis: interval 0 starts at minute m0 of some hour well inside a year
        y, mo, d = rng.choice([(2021, 3, 4), (2019, 7, 15), (2024, 2, 29), (2022, 10, 31), (2023, 6, 1)])
        h = rng.randrange(1, 22)
        self.m0 = rng.choice([53, 54, 56, 57, 58, 11, 23])
        self.base = calendar.timegm((y, mo, d, h, self.m0, 0))
        if kind == "fixed":
            self.off_ns = [0, 15 * 10 ** 9, 30 * 10 ** 9, 45 * 10 ** 9]
        else:
            # record offsets are not whole seconds (KF-C09-1: whole seconds may come back one second late)
            self.off_ns = [0, rng.randrange(3, 15) * 10 ** 9 + rng.randrange(10 ** 8, 9 * 10 ** 8), 20 * 10 ** 9,
                           rng.randrange(25, 50) * 10 ** 9 + rng.randrange(10 ** 8, 9 * 10 ** 8)]
        self.types = {"A": rng.choice(["f4", "f8"]), "B": rng.choice(["i8", "i4"]), "C": rng.choice(["i2", "u1", "u2", "u4", "u8"])}
        ba = rng.choice([1.1, 0.7, 2.3, 10.01])
        bb = rng.choice([100, 7, 3000000])
        bc = rng.choice([7, 2, 40])
        self.on = {"A": {l: repr(round(ba * l, 4)) for l in (1, 2, 3)}, "B": {l: str(bb * l) for l in (1, 2, 3)},
                   "C": {l: str(bc * l) for l in (1, 2, 3)}}
        self.mid = {"A": {y: repr(round(ba * y / 2.0, 4)) for y in (1, 3, 5, 7)},
                    "B": {y: str(bb * y // 2) for y in (1, 3, 5, 7)}, "C": {y: str(bc * y // 2) for y in (1, 3, 5, 7)}}
        self.fmt_pick = rng.randrange(3)
        self.stored = None   # rows as a plain query returns them: list of dict(Epoch, Nanoseconds?, A, B, C)

    # ---- model constants ----
    def consts(self, quick=True):
        codes = [1000 * p + 100 * self.lv["A"][k] + 10 * self.lv["B"][k] + self.lv["C"][k] for k, p in enumerate(self.pos)]
        s = lambda xs: "{" + ", ".join(str(x) for x in xs) + "}"
        return dict(Kind='"%s"' % self.kind, G=G, RowCodes=s(codes), SecOffs="{0, 2}", EpochLits=s(self.lits), BtwLits=s(self.btw),
                    BtwStrLits=s(self.btwq if quick else self.lits),
                    ALits=s(range(1, 8)), BLits="{2, 3, 6}", CLits="{3, 4}", Unfiltered='{"C"}',
                    Phase5=self.m0 % 5, Phase60=self.m0 % 60)

    # ---- writing ----
    def pos_time_ns(self, p):
        return (self.base + TFSEC * (p // G)) * 10 ** 9 + self.off_ns[p % G]

    def write_cols(self):
        ts = [self.pos_time_ns(p) for p in self.pos]
        cols = [{"name": "Epoch", "type": "i8", "vals": [t // 10 ** 9 for t in ts]}]
        for c in "ABC":
            vals = [json.loads(self.on[c][l]) for l in self.lv[c]]
            cols.append({"name": REAL_NAME[c], "type": self.types[c], "vals": vals})
        for j, (nm, t) in enumerate(self.passengers):
            cols.append({"name": nm, "type": t, "vals": [(7 * k + 3 * j + 1) % 120 for k in range(len(ts))]})
        if self.kind == "variable":
            cols.append({"name": "Nanoseconds", "type": "i4", "vals": [t % 10 ** 9 for t in ts]})
        return cols

    def take_baseline(self, obs):
        rows = table_of(obs)
        if isinstance(rows, str):
            raise Undecided("baseline query of %s failed: %s" % (self.key, rows))
        names, recs = rows
        want = ["Epoch", "Bid", "Qty", "Cnt"] + [nm for nm, _ in self.passengers] + (["Nanoseconds"] if self.kind == "variable" else [])
        if names != want or len(recs) != len(self.pos):
            raise Undecided("baseline of %s is not what was written: %s %s" % (self.key, names, recs))
        res_ns = TFSEC * 10 ** 9 // 2 ** 32 + 2
        for k, r in enumerate(recs):
            t = r["Epoch"] * 10 ** 9 + r.get("Nanoseconds", 0)
            w = self.pos_time_ns(self.pos[k])
            if not (w - res_ns <= t <= w):
                raise Undecided("baseline time of row %d of %s: wrote %d read %d (storage level, not this check)" % (k, self.key, w, t))
            for c in "ABC":
                v = json.loads(self.on[c][self.lv[c][k]])
                v = f32(v) if self.types[c] == "f4" else v
                if r[REAL_NAME[c]] != v:
                    raise Undecided("baseline value of row %d.%s of %s: wrote %r read %r" % (k, c, self.key, v, r[REAL_NAME[c]]))
            for j, (nm, t) in enumerate(self.passengers):
                if r[nm] != (7 * k + 3 * j + 1) % 120:
                    raise Undecided("baseline value of row %d.%s of %s: wrote %r read %r" % (k, nm, self.key, (7 * k + 3 * j + 1) % 120, r[nm]))
        self.stored = recs
        self.cols = names

    def row_time_ns(self, k):   # k = 1-based model row number
        r = self.stored[k - 1]
        return r["Epoch"] * 10 ** 9 + r.get("Nanoseconds", 0)

    # ---- literals ----
    def lit_time_ns(self, x):
        p = x // 2
        if p in self.pos:
            return self.row_time_ns(self.pos.index(p) + 1)     # a bound "on" a stored row: exactly its stored time
        return self.pos_time_ns(p)

    def epoch_literal(self, x, kind):
        t = self.lit_time_ns(x)
        sec, ns = divmod(t, 10 ** 9)
        if kind == "sec":
            if ns:
                raise Undecided("seconds literal for a fractional time")
            return str(sec)
        if kind == "ns":
            return str(t)
        tm = time.gmtime(sec)
        s = time.strftime("%Y-%m-%d-%H:%M:%S", tm)
        if ns:
            return "'%s.%09d'" % (s, ns)
        if self.fmt_pick == 1 and tm.tm_sec == 0:
            return "'%s'" % time.strftime("%Y-%m-%d-%H:%M", tm)
        if self.fmt_pick == 2:
            return "'%s UTC'" % s
        return "'%s'" % s

    def value_literal(self, col, y):
        return self.on[col][y // 2] if y % 2 == 0 else self.mid[col][y]

    def atom_sql(self, a):
        col = REAL_NAME[a["col"]]
        lit = (lambda v: self.epoch_literal(v, a["k"])) if a["col"] == "Epoch" else (lambda v: self.value_literal(a["col"], v))
        if a["op"] == "btw":
            return "%s BETWEEN %s AND %s" % (col, lit(a["v"]), lit(a["w"]))
        return "%s %s %s" % (col, a["op"], lit(a["v"]))

    def where_sql(self, atoms):
        return (" WHERE " + " AND ".join(self.atom_sql(a) for a in atoms)) if atoms else ""

    def describe(self):
        return {"key": self.key, "kind": self.kind, "positions": self.pos, "levels": self.lv, "types": self.types,
                "base_epoch": self.base, "offsets_ns": self.off_ns, "stored": self.stored, "passengers": self.passengers}


def zero_column_response(obs):
    """panic of the repository's client-side decoder, called by the driver itself, on a response without columns"""
    st = obs.get("stack", "")
    if "index out of range [0] with length 0" not in str(obs.get("panic")) or "(*NumpyDataset).ToColumnSeries" not in st:
        return False
    after = st.split("(*NumpyDataset).ToColumnSeries", 1)[1].split("\n")
    return len(after) > 2 and after[2].startswith("mktsverif/drv.resultObs")


def table_of(obs):
    """driver observation of a query / sql op -> (column names, list of row dicts) | 'error: ..' string"""
    if obs.get("driver_error"):
        raise Undecided("driver error: %s" % obs)
    if obs.get("panic"):
        if zero_column_response(obs):
            # the server answered with a dataset that has no columns and no rows; the repository's client-side decoder
            # (NumpyDataset.ToColumnSeries, called by the driver) indexes column 0 of it.  Zero rows were returned.
            return ([], [])
        return "panic: " + obs["panic"]
    if obs.get("err"):
        if "no files returned" in str(obs["err"]).lower():
            return ([], [])
        return "error: " + str(obs["err"])
    res = obs.get("result") or {}
    if len(res) > 1:
        return "error: %d result sets" % len(res)
    cols = list(res.values())[0] if res else []
    cols = cols or []
    names = [c["name"] for c in cols]
    n = len(cols[0]["vals"]) if cols else 0
    if any(len(c["vals"]) != n for c in cols):
        return "error: ragged result %s" % [(c["name"], len(c["vals"])) for c in cols]
    return (names, [{c["name"]: c["vals"][k] for c in cols} for k in range(n)])


def expected_table(b, ans, star):
    """model answer [rows, cols] -> {output name: [values]} over the stored rows"""
    if ans["cols"] and ans["cols"][0]["n"] == "ERR":
        return "error"
    out = {}
    cols = [(c["n"], c["s"]) for c in ans["cols"]]
    for n, s in cols:
        out[REAL_NAME.get(n, n)] = [b.stored[k - 1][REAL_NAME[s]] for k in ans["rows"]]
    if star:
        for nm, _ in getattr(b, "passengers", []):
            out[nm] = [b.stored[k - 1][nm] for k in ans["rows"]]
    if star and b.kind == "variable":
        out["Nanoseconds"] = [b.stored[k - 1]["Nanoseconds"] for k in ans["rows"]]
    return out


def same_table(real, exp):
    """real: table_of() result; exp: expected_table() result"""
    if exp == "error":
        return isinstance(real, str) and real.startswith("error:")
    if isinstance(real, str):
        return False
    names, recs = real
    n = len(next(iter(exp.values()))) if exp else 0
    if n == 0:
        return len(recs) == 0           # an empty answer may come without columns
    if sorted(names) != sorted(exp) or len(recs) != n:
        return False
    return all(recs[k][c] == exp[c][k] for c in exp for k in range(n))


def chunked_run(binary, root, setup_ops, stmts, tag):
    """stmts: list of (id, [ops]).  One driver case per chunk of statements; returns {id: [obs per op]}"""
    cases = [{"id": "setup", "ops": [{"op": "start", "root": root}] + setup_ops}]
    chunk, size = [], 0
    for sid, ops in stmts:
        chunk.append((sid, ops))
        size += len(ops)
        if size >= 400:
            cases.append({"id": "c%d" % len(cases), "ops": [o for _, os_ in chunk for o in os_], "_map": chunk})
            chunk, size = [], 0
    if chunk:
        cases.append({"id": "c%d" % len(cases), "ops": [o for _, os_ in chunk for o in os_], "_map": chunk})
    maps = {json.dumps(c["id"]): c.pop("_map", None) for c in cases}
    obs = vlib.run_cases(binary, cases, timeout=3000, tag=tag)
    out = {}
    for cid, m in maps.items():
        o = obs.get(cid)
        if o is None:
            raise Undecided("no observation for case %s" % cid)
        if isinstance(o, dict) and "died" in o:
            out["__died__"] = (cid, o, [s for s, _ in (m or [])])
            continue
        if m is None:
            out["__setup__"] = o
            continue
        i = 0
        for sid, ops in m:
            out[sid] = o[i:i + len(ops)]
            i += len(ops)
    return out


def tlc_consts(b, depth, mod, salt, mod20, classes, rich=False):
    c = b.consts(quick=not rich)
    c.update(Depth=depth, Deviations="{" + ", ".join('"%s"' % d for d in ALL_DEVS) + "}", SampleMod=mod, SampleSalt=salt, TripleMod=300,
             TgtClasses="{" + ", ".join(str(x) for x in classes) + "}", SampleMod20=mod20, Rich="TRUE" if rich else "FALSE")
    return c


def run(prop, tier):
    res = Result(prop, tier)
    quick = tier == "quick"
    rng = random.Random(vlib.seed() * 104729 + (19 if prop == "C19" else 20))
    binary = vlib.build_harness()
    known = {k["deviation"]: k for k in vlib.known_findings(prop)}
    root = os.path.join(vlib.scratch(), "root_%s" % prop)
    buckets = [Bucket(rng, "fixed", "FX", passengers=(prop == "C19")), Bucket(rng, "variable", "VR", passengers=(prop == "C19"))]
    setup = []
    for b in buckets:
        setup.append({"op": "write", "var": b.kind == "variable", "buckets": [{"key": b.key, "cols": b.write_cols()}]})
        setup.append({"op": "query", "dest": b.key})

    # ------------------------------------ TLC ------------------------------------
    jobs = []      # (bucket, case)
    for b in buckets:
        salt = rng.randrange(1, 10 ** 6)
        if prop == "C19":
            cfg = "Sql_%s_where.cfg" % b.kind
            r = vlib.run_tlc("Sql", cfg, timeout=1500, heap="6g",
                             cfg_text=vlib.cfg_text(tlc_consts(b, 2 if quick else 3, 60 if quick else 8, salt, 1, [1], rich=not quick), spec="SpecW",
                                                    invariants=["CheckW", "EmitW"]))
            vlib.tlc_ok(r, cfg)
            if r["violated"]:
                raise Undecided("MODEL-DRIFT: %s violates %s in the model\n%s" % (cfg, r["violated"], r["out"][-3000:]))
            res.tlc(r, cfg)
            cs = r["records"].get("CASE", [])
            if r["records"].get("BAD"):
                raise Undecided("unparsable TLC records: %s" % r["records"]["BAD"][:2])
        else:
            cfg = "Sql_%s_select.cfg" % b.kind
            classes = [1, 2, 3] + ([4] if b.kind == "variable" else [])
            r = vlib.run_tlc("Sql", cfg, timeout=1500, heap="6g",
                             cfg_text=vlib.cfg_text(tlc_consts(b, 1, 1, salt, 12 if quick else 3, classes, rich=not quick), spec="Spec20",
                                                    invariants=["Check20", "Emit20"]))
            vlib.tlc_ok(r, cfg)
            if r["violated"]:
                raise Undecided("MODEL-DRIFT: %s violates %s in the model\n%s" % (cfg, r["violated"], r["out"][-3000:]))
            res.tlc(r, cfg)
            cs = r["records"].get("CASE", [])
            if r["records"].get("BAD"):
                raise Undecided("unparsable TLC records: %s" % r["records"]["BAD"][:2])
        seen = set()
        for c in cs:
            kkey = json.dumps(c, sort_keys=True)
            if kkey not in seen:
                seen.add(kkey)
                jobs.append((b, c))
    vlib.log("[sql] TLC done, %d cases, t=%.1fs" % (len(jobs), time.time() - res.t0))
    if len(jobs) < 100:
        raise Undecided("TLC produced only %d cases" % len(jobs))

    # ------------------------------------ render ------------------------------------
    stmts, meta = [], {}
    ntgt = 0
    # the baseline (what a plain query returns) is needed to render bounds "on" stored rows: run the setup first
    o0 = chunked_run(binary, root + "_baseline", setup, [], "setup_" + prop)
    shutil.rmtree(root + "_baseline", ignore_errors=True)
    if "__died__" in o0:
        raise Undecided("driver died during setup: %s" % (o0["__died__"][1],))
    so = o0["__setup__"]
    for i, b in enumerate(buckets):
        w, qy = so[1 + 2 * i], so[2 + 2 * i]
        if w.get("err") or w.get("panic"):
            raise Undecided("writing the bucket failed: %s" % w)
        b.take_baseline(qy)
    for n, (b, c) in enumerate(jobs):
        sid = "s%d" % n
        if prop == "C19":
            sql = "SELECT * FROM `%s`%s;" % (b.key, b.where_sql(c["conj"]))
            stmts.append((sid, [{"op": "sql", "stmt": sql}]))
            meta[sid] = (b, c, sql, None)
            continue
        sel = "*" if c["star"] else ", ".join(REAL_NAME[i["c"]] + ((" AS " if (n + k) % 2 else " ") + REAL_NAME[i["al"]] if i["al"] else "")
                                               for k, i in enumerate(c["sel"]))
        sql = "SELECT %s FROM `%s`%s%s;" % (sel, b.key, b.where_sql(c["w"]), "" if c["lim"] < 0 else " LIMIT %d" % c["lim"])
        if not c["ins"]:
            stmts.append((sid, [{"op": "sql", "stmt": sql}]))
            meta[sid] = (b, c, sql, None)
            continue
        ntgt += 1
        tfname, tfsec = TGT_TF[c["ins"]]
        outcols = [(x["n"], x["s"]) for x in c["expect"]["cols"] if x["s"] != "Epoch"]
        k = ntgt % len(outcols)
        outcols = outcols[k:] + outcols[:k]           # target schema order need not be the select order
        tkey = "T%d%s/%s/G" % (ntgt, prop, tfname)
        sql = "INSERT INTO `%s` %s" % (tkey, sql)
        ops = [{"op": "create", "key": tkey + ":Symbol/Timeframe/AttributeGroup", "names": [REAL_NAME.get(nm, nm) for nm, _ in outcols],
                "types": [b.types[s] for _, s in outcols], "var": c["ins"] == 4},
               {"op": "sql", "stmt": sql}, {"op": "query", "dest": tkey}]
        stmts.append((sid, ops))
        meta[sid] = (b, c, sql, (tkey, tfsec, outcols, ops))

    # ------------------------------------ run on the real code ------------------------------------
    vlib.log("[sql] rendered, t=%.1fs" % (time.time() - res.t0))
    obs = chunked_run(binary, root, setup, stmts, "run_" + prop)
    vlib.log("[sql] executed, t=%.1fs" % (time.time() - res.t0))
    shutil.rmtree(root, ignore_errors=True)
    if "__died__" not in obs:
        for i, b in enumerate(buckets):      # same deterministic setup in the fresh root: same stored rows
            was = b.stored
            b.take_baseline(obs["__setup__"][2 + 2 * i])
            if b.stored != was:
                raise Undecided("the stored rows of %s differ between two identical set-ups" % b.key)
    if "__died__" in obs:
        cid, o, sids = obs["__died__"]
        res.violation("server process died (%s) while executing SQL statements: %s" % (o["died"], o["stderr"][-600:]),
                      {"check": "sql", "prop": prop, "statements": [meta[s][2] for s in sids], "seed": vlib.seed()})
        return res.finish()
    counts = {"statements": 0, "deviating_as_listed": 0, "zero_column_responses": 0, "inserts": 0, "insert_empty_selection_panics": 0}
    per_dev = {}
    deviating = []
    for sid, (b, c, sql, tgt) in meta.items():
        o = obs[sid]
        counts["statements"] += 1
        res.cov["traces_validated_against_impl"] += 1
        replay = {"check": "sql", "prop": prop, "sql": sql, "bucket": b.describe(), "case": c, "seed": vlib.seed(),
                  "setup": [s for s in setup if s["op"] == "write" and s["buckets"][0]["key"] == b.key]}
        if prop == "C19":
            verdict, detail = judge_select(b, o[0], {"rows": c["expect"], "cols": STAR},
                                           [(a["devs"], {"rows": a["ans"], "cols": STAR}) for a in c["alts"]], True)
        elif tgt is None:
            verdict, detail = judge_select(b, o[0], c["expect"], [(a["devs"], a["ans"]) for a in c["alts"]], c["star"])
        else:
            counts["inserts"] += 1
            verdict, detail = judge_insert(b, o, c, tgt, counts)
            replay["ops"] = tgt[3]
        if tgt is None and o[0].get("panic") and zero_column_response(o[0]):
            counts["zero_column_responses"] += 1
        if verdict == "ok":
            pass
        elif verdict == "bad":
            res.violation("%s\n  returned %s" % (sql, detail), replay)
        else:
            # the answer is the one the model predicts under listed deviations; `verdict` = the smallest sets of
            # deviations (all exercised by this statement) that explain it
            counts["deviating_as_listed"] += 1
            deviating.append(([frozenset(d) for d in verdict], sql, detail, replay))
        res.sample({"sql": sql, "expect_rows": c["expect"] if prop == "C19" else c["expect"]["rows"], "bucket": b.key}, limit=4)
    # which listed defects does this run re-demonstrate?  Statements with a single explanation decide; a statement
    # with several possible explanations adds something only when none of them is already demonstrated.
    live, example = set(), {}
    for expl, sql, detail, replay in deviating:
        if len(expl) == 1:
            for d in expl[0]:
                live.add(d)
                example.setdefault(d, (sql, detail))
    for expl, sql, detail, replay in deviating:
        if len(expl) > 1 and not any(e <= live for e in expl):
            for d in sorted(expl, key=lambda e: (len(e), sorted(e)))[0]:
                live.add(d)
                example.setdefault(d, (sql, detail))
    for expl, sql, detail, replay in deviating:
        for d in set().union(*[e for e in expl if e <= live]):
            per_dev[d] = per_dev.get(d, 0) + 1
    for d in sorted(live):
        if d in known:
            res.known_finding(known[d], {"sql": example[d][0], "got": example[d][1][:200]})
        else:
            rp = [r for e, s_, _, r in deviating if any(d in x for x in e)][0]
            res.violation("deviation %s observed but not listed as known for %s: %s -> %s" % (d, prop, example[d][0], example[d][1]), rp)
    if prop == "C20":
        aggregate_items(res, binary, rng, buckets, setup, root)
    res.cov.update(counts)
    res.cov["known_deviation_hits"] = per_dev
    res.cov["buckets"] = [b.describe() for b in buckets]
    res.assumptions += ["time zone UTC", "1Min source buckets of one year, times away from Jan 1",
                        "value literals non-negative; integer literals for integer columns"]
    return res.finish()


def aggregate_items(res, binary, rng, buckets, setup, root):
    """Select lists whose items are aggregate calls (outside the column-only lists of Sql.tla): every item is returned under its OWN
    alias, or under the function's default name when it has none, with the aggregate of the stored column."""
    import struct
    f32 = lambda x: struct.unpack("<f", struct.pack("<f", float(x)))[0]
    default = {"min": "Min", "max": "Max", "count": "Count"}
    stmts = []
    for b in buckets:
        for k in range(6):
            n = rng.choice([2, 2, 3])
            items = []
            used = set()
            for j in range(n):
                fn = rng.choice(["min", "max", "count"])
                col = rng.choice(["A", "B"])
                alias = rng.choice([None, "al%d" % j, "x%d" % j]) if (k + j) % 3 else ("lo%d" % j if j == 0 else None)
                name = alias or default[fn]
                if name in used:
                    continue
                used.add(name)
                items.append((fn, col, alias))
            if len(items) < 2:
                continue
            sel = ", ".join("%s(%s)%s" % (fn, REAL_NAME[col], (" AS " + al) if al else "") for fn, col, al in items)
            stmts.append((b, items, "SELECT %s FROM `%s`;" % (sel, b.key)))
    ops = [{"op": "start", "root": root + "_agg"}] + setup + [{"op": "sql", "stmt": st} for _, _, st in stmts]
    obs = vlib.run_cases(binary, [{"id": "agg", "ops": ops}], timeout=300, tag="c20agg")
    shutil.rmtree(root + "_agg", ignore_errors=True)
    o = obs.get(json.dumps("agg"))
    if o is None or (isinstance(o, dict) and "died" in o):
        res.violation("the server died on a select list of aggregate calls: %s" % str(o)[-300:], {"check": "sql.aggregate_items", "seed": vlib.seed()})
        return
    n0 = 1 + len(setup)
    ok = 0
    for (b, items, st), ob in zip(stmts, o[n0:]):
        replay = {"check": "sql.aggregate_items", "sql": st, "seed": vlib.seed()}
        t = table_of(ob)
        if isinstance(t, str):
            res.violation("%s failed: %s" % (st, t[:300]), replay)
            continue
        names, recs = t
        outn = [x for x in names if not (x.startswith("Epoch") and x[5:].isdigit() or x == "Epoch")]
        want = [al or default[fn] for fn, col, al in items]
        if outn != want or len(recs) != 1:
            res.violation("%s returned the columns %s (%d rows); the select list names %s (one row)" % (st, outn, len(recs), want), replay)
            continue
        bad = None
        for (fn, col, al), nm in zip(items, want):
            vals = [r[REAL_NAME[col]] for r in b.stored]
            exp = len(vals) if fn == "count" else f32(min(vals) if fn == "min" else max(vals))
            if recs[0][nm] != exp:
                bad = "%s = %r, the stored column gives %r" % (nm, recs[0][nm], exp)
        if bad:
            res.violation("%s: %s" % (st, bad), replay)
        else:
            ok += 1
            res.cov["traces_validated_against_impl"] += 1
    res.cov["aggregate_select_lists"] = ok


STAR = [{"n": x, "s": x} for x in ("Epoch", "A", "B", "C")]


def judge_select(b, o, expect, alts, star):
    """'ok' | 'bad' | list of deviations whose predicted answer the real code gave"""
    real = table_of(o)
    exp = expected_table(b, expect, star)
    if same_table(real, exp):
        return "ok", ""
    want = "the property demands rows %s = %s" % (expect["rows"], json.dumps(exp)[:500])
    got = real if isinstance(real, str) else "columns %s rows %s" % (real[0], json.dumps(real[1])[:600])
    for devs, ans in alts:
        if devs and same_table(real, expected_table(b, ans, star)):
            return [sorted(d) for d in devs], got + "; " + want
    return "bad", got + "; " + want


def judge_insert(b, o, c, tgt, counts):
    tkey, tfsec, outcols, _ = tgt
    cr, ins, qy = o
    if cr.get("err") or cr.get("panic"):
        raise Undecided("creating target %s failed: %s" % (tkey, cr))
    rows = c["expect"]["rows"]
    if not rows and ins.get("panic"):
        counts["insert_empty_selection_panics"] += 1      # observed, not judged: the target is what the property talks about
    real = table_of(qy)
    if isinstance(real, str):
        return "bad", "target query: " + real
    names, recs = real
    slot_of = {x["row"]: x["slot"] for x in c["expect"]["tgt"]}
    note = "" if not (ins.get("err") or ins.get("panic")) else " [INSERT said: %s]" % (ins.get("err") or ins.get("panic"))
    vals = lambda k: [b.stored[k - 1][REAL_NAME[s]] for _, s in outcols]
    rvals = lambda r: [r[REAL_NAME.get(n, n)] for n, _ in outcols]
    want_names = ["Epoch"] + [REAL_NAME.get(n, n) for n, _ in outcols] + (["Nanoseconds"] if c["ins"] == 4 else [])
    if recs and names != want_names:
        return "bad", "target columns %s, expected %s%s" % (names, want_names, note)
    if c["ins"] == 4:
        # variable-length target: every selected row once, time within [start of its target interval, source time + 1s]
        unused = list(rows)
        if len(recs) != len(rows):
            return "bad", "target holds %d rows, %d were selected: %s%s" % (len(recs), len(rows), json.dumps(recs)[:400], note)
        for r in recs:
            t = r["Epoch"] * 10 ** 9 + r["Nanoseconds"]
            hit = [k for k in unused if rvals(r) == vals(k) and
                   (b.row_time_ns(k) // (tfsec * 10 ** 9)) * tfsec * 10 ** 9 <= t <= b.row_time_ns(k) + 10 ** 9]
            if not hit:
                return "bad", "target row %s matches no selected row %s%s" % (r, rows, note)
            unused.remove(hit[0])
        return "ok", ""
    # fixed-length target: one row per target interval holding a selected row; timestamps truncated to the timeframe
    groups = {}
    for k in rows:
        groups.setdefault((b.row_time_ns(k) // 10 ** 9) // tfsec * tfsec, []).append(k)
    # the model's target grid must be the concrete one (else the rendering is wrong, not the code)
    model_groups = {}
    for x in c["expect"]["tgt"]:
        model_groups[x["slot"]] = x["row"]
    if sorted(max(g) for g in groups.values()) != sorted(model_groups.values()):
        raise Undecided("model target grid %s differs from the concrete one %s" % (model_groups, groups))
    if len(recs) != len(groups):
        return "bad", "target holds %d rows %s, expected one per interval of %s%s" % (len(recs), json.dumps(recs)[:400], sorted(groups), note)
    for r in recs:
        g = groups.get(r["Epoch"])
        if g is None:
            return "bad", "target row at %d, expected timestamps %s (selected rows truncated to the target timeframe)%s" % (r["Epoch"], sorted(groups), note)
        if not any(rvals(r) == vals(k) for k in g):
            return "bad", "target row %s differs from the selected rows %s of its interval%s" % (r, [vals(k) for k in g], note)
    return "ok", ""


class _ReplayBucket(Bucket):
    def __init__(self, d):
        self.kind, self.key, self.types, self.stored = d["kind"], d["key"], d["types"], d["stored"]
        self.passengers = [tuple(x) for x in d.get("passengers", [])]


def replay(rp):
    """python3 tools/check.py --replay replays/<file>.json : re-executes one recorded statement on the current tree"""
    r = rp["replay"]
    prop, c = r["prop"], r.get("case")
    if c is None:
        print("UNDECIDED: this replay file records a process death over several statements: %s" % r.get("statements", [])[:5])
        return 2
    binary = vlib.build_harness()
    b = _ReplayBucket(r["bucket"])
    root = os.path.join(vlib.scratch(), "root_replay")
    ops = [{"op": "start", "root": root}] + r["setup"] + [{"op": "query", "dest": b.key}] + (r.get("ops") or [{"op": "sql", "stmt": r["sql"]}])
    obs = vlib.run_cases(binary, [{"id": "r", "ops": ops}])['"r"']
    if isinstance(obs, dict) and "died" in obs:
        print("VIOLATION property=%s replay: process died: %s" % (prop, obs["stderr"][-500:]))
        return 1
    base = table_of(obs[len(r["setup"]) + 1])
    if isinstance(base, str) or base[1] != b.stored:
        print("UNDECIDED: the stored rows differ from the recorded ones: %s" % (base,))
        return 2
    o = obs[len(r["setup"]) + 2:]
    print(r["sql"])
    for x in o:
        print("observed:", json.dumps({k: v for k, v in x.items() if k != "stack"})[:800])
    if prop == "C19":
        verdict, detail = judge_select(b, o[0], {"rows": c["expect"], "cols": STAR},
                                       [(a["devs"], {"rows": a["ans"], "cols": STAR}) for a in c["alts"]], True)
    elif not c["ins"]:
        verdict, detail = judge_select(b, o[0], c["expect"], [(a["devs"], a["ans"]) for a in c["alts"]], c["star"])
    else:
        cr = r["ops"][0]
        outcols = []
        for nm in cr["names"]:
            for x in c["expect"]["cols"]:
                if REAL_NAME.get(x["n"], x["n"]) == nm:
                    outcols.append((x["n"], x["s"]))
        verdict, detail = judge_insert(b, o, c, (r["ops"][2]["dest"], TGT_TF[c["ins"]][1], outcols, r["ops"]), {"insert_empty_selection_panics": 0})
    if verdict == "ok":
        print("OK property=%s: the recorded statement no longer violates the property" % prop)
        return 0
    if verdict == "bad":
        print("VIOLATION property=%s (replayed)\n  %s" % (prop, detail[:1000]))
        return 1
    known = {k["deviation"]: k for k in vlib.known_findings(prop)}
    expl = sorted(verdict, key=lambda e: (len(e), e))[0]
    if all(d in known for d in expl):
        for d in expl:
            print("KNOWN-FINDING: property=%s %s: %s" % (prop, known[d]["id"], known[d]["what"]))
        return 0
    print("VIOLATION property=%s (replayed): deviation %s is not a listed finding\n  %s" % (prop, expl, detail[:1000]))
    return 1
