module mktsverif

go 1.18

require (
	github.com/alpacahq/marketstore/v4 v4.0.0
	github.com/alpacahq/rpc v1.3.0
	github.com/vmihailenco/msgpack v4.0.4+incompatible
	google.golang.org/grpc v1.46.2
	google.golang.org/protobuf v1.28.0
)

require (
	github.com/antlr/antlr4 v0.0.0-20181031000400-73836edf1f84 // indirect
	github.com/beorn7/perks v1.0.1 // indirect
	github.com/cespare/xxhash/v2 v2.1.2 // indirect
	github.com/chzyer/readline v0.0.0-20180603132655-2972be24d48e // indirect
	github.com/golang/protobuf v1.5.2 // indirect
	github.com/klauspost/compress v1.10.4 // indirect
	github.com/matttproud/golang_protobuf_extensions v1.0.1 // indirect
	github.com/pkg/errors v0.9.1 // indirect
	github.com/prometheus/client_golang v1.7.1 // indirect
	github.com/prometheus/client_model v0.2.0 // indirect
	github.com/prometheus/common v0.10.0 // indirect
	github.com/prometheus/procfs v0.1.3 // indirect
	go.uber.org/atomic v1.6.0 // indirect
	go.uber.org/multierr v1.5.0 // indirect
	go.uber.org/zap v1.15.0 // indirect
	golang.org/x/net v0.0.0-20220722155237-a158d28d115b // indirect
	golang.org/x/sys v0.0.0-20220722155257-8c9f86f7a55f // indirect
	golang.org/x/text v0.3.7 // indirect
	gonum.org/v1/gonum v0.0.0-20190618015908-5dc218f86579 // indirect
	google.golang.org/genproto v0.0.0-20220527130721-00d5c0f3be58 // indirect
	gopkg.in/yaml.v2 v2.4.0 // indirect
)

replace github.com/alpacahq/marketstore/v4 => /repo
