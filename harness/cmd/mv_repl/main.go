// mv_repl is the driver binary of the "repl" family (C24 on-disk aggregation, C25 replication).
// Besides the generic ops of package drv it offers
//
//	agg_start  root=R x={"triggers":[{"dests":[..],"on":"K1_*/1Min/OHLCV"},..],"filter":""}
//	           a real instance (server DI container) whose trigger dispatcher holds, per entry, the REAL
//	           aggtrigger.NewTrigger(config) behind a wrapper that only reports when Fire returned
//	agg_wait   x={"fires":n,"records":m,"timeout_ms":t}   wait until n more Fire calls have RETURNED, they were
//	           given m records in total and no Fire is running; reports their key paths and record indexes
//	repl_start x={"master":R1,"replica":R2}
//	           master = real instance through the DI container, its WAL's ReplicationSender replaced by a
//	           capturing sender; replica = own root, catalog, WAL, writer (wired like internal/di does for a
//	           replica: replication.NewReplayer(executor.ParseTGData, writer.WriteCSM, root))
//	repl_use   x={"who":"master"|"replica"}  directs the generic ops (query, write, ...) to that instance
//	repl_group x={"reqs":[{"buckets":[..],"var":bool},..]}
//	           several client write requests that end up in ONE transaction group: all but the last are
//	           held (in their own goroutines) at the hook point WriteCSM.beforeFlush, i.e. after they queued
//	           their write commands, the last one flushes, then the others are released
//	repl_cmp   x={"keys":[..]}  the same unrestricted query on master and replica
//	repl_sync  feeds every captured transaction group, in order, to the real Replayer.Replay of the replica;
//	           reports the parsed shape of each group and the replay errors
package main

import (
	"bytes"
	"context"
	"encoding/json"
	"fmt"
	"os"
	"path/filepath"
	"sync"
	"sync/atomic"
	"time"

	"github.com/alpacahq/marketstore/v4/catalog"
	"github.com/alpacahq/marketstore/v4/contrib/ondiskagg/aggtrigger"
	"github.com/alpacahq/marketstore/v4/executor"
	"github.com/alpacahq/marketstore/v4/frontend"
	"github.com/alpacahq/marketstore/v4/plugins/trigger"
	"github.com/alpacahq/marketstore/v4/replication"
	"github.com/alpacahq/marketstore/v4/utils/io"
	"github.com/alpacahq/marketstore/v4/verifhook"

	"mktsverif/drv"
	"mktsverif/inst"
)

// ---------------------------------------------------------------------------------------------
// C24: the real trigger behind a wrapper that signals completion
// ---------------------------------------------------------------------------------------------

type fireRec struct {
	Key     string  `json:"key"`
	Indexes []int64 `json:"idx"`
	Panic   string  `json:"panic,omitempty"`
}

// fireLog is shared by all installed triggers: it counts the Fire calls that have returned.
type fireLog struct {
	mu      sync.Mutex
	cond    *sync.Cond
	started int
	done    int
	taken   int
	log     []fireRec
}

type waitTrigger struct {
	real trigger.Trigger
	fl   *fireLog
}

func (w *waitTrigger) Fire(keyPath string, records []trigger.Record) {
	rec := fireRec{Key: keyPath}
	for i := range records {
		rec.Indexes = append(rec.Indexes, records[i].Index())
	}
	w.fl.mu.Lock()
	w.fl.started++
	w.fl.mu.Unlock()
	defer func() {
		r := recover()
		if r != nil {
			rec.Panic = fmt.Sprint(r)
		}
		w.fl.mu.Lock()
		w.fl.done++
		w.fl.log = append(w.fl.log, rec)
		w.fl.mu.Unlock()
		w.fl.cond.Broadcast()
		if r != nil {
			panic(r) // the dispatcher recovers, exactly as for the unwrapped trigger
		}
	}()
	w.real.Fire(keyPath, records)
}

var wt *fireLog

type trigSpec struct {
	Dests []string `json:"dests"`
	On    string   `json:"on"`
}

type aggStartArgs struct {
	Triggers []trigSpec `json:"triggers"`
	Filter   string     `json:"filter"`
	// NoBgSync: flush in the caller's goroutine instead of the server's default background WAL writer.
	// (Then the flusher and a trigger that writes share TriggerPluginDispatcher.m without synchronisation
	// and a request can be dispatched twice; the checks use the default.)
	NoBgSync bool `json:"nobgsync"`
}

func aggStart(c *drv.Ctx, o *drv.Op) drv.Obs {
	a := &aggStartArgs{}
	if err := json.Unmarshal(o.X, a); err != nil {
		return drv.Obs{"err": err.Error(), "driver_error": true}
	}
	wt = &fireLog{}
	wt.cond = sync.NewCond(&wt.mu)
	var ms []*trigger.Matcher
	for _, ts := range a.Triggers {
		dests := make([]interface{}, len(ts.Dests))
		for i, d := range ts.Dests {
			dests[i] = d
		}
		real, err := aggtrigger.NewTrigger(map[string]interface{}{"destinations": dests, "filter": a.Filter})
		if err != nil {
			return drv.Obs{"err": err.Error(), "driver_error": true}
		}
		ms = append(ms, trigger.NewMatcher(&waitTrigger{real: real, fl: wt}, ts.On))
	}
	c.In = inst.Start(o.Root, inst.Opts{Triggers: ms, Verbose: o.Verbose, BackgroundSync: !a.NoBgSync})
	atomic.StoreUint32(&frontend.Queryable, 1)
	return drv.Obs{"ok": true, "triggers": len(ms)}
}

type aggWaitArgs struct {
	Fires     int `json:"fires"`   // wait for this many returned Fire calls ...
	Records   int `json:"records"` // ... and until they were given at least this many records in total
	TimeoutMS int `json:"timeout_ms"`
}

func aggWait(c *drv.Ctx, o *drv.Op) drv.Obs {
	a := &aggWaitArgs{TimeoutMS: 10000}
	if len(o.X) > 0 {
		if err := json.Unmarshal(o.X, a); err != nil {
			return drv.Obs{"err": err.Error(), "driver_error": true}
		}
	}
	if wt == nil {
		return drv.Obs{"err": "no trigger", "driver_error": true}
	}
	deadline := time.Now().Add(time.Duration(a.TimeoutMS) * time.Millisecond)
	timer := time.AfterFunc(time.Duration(a.TimeoutMS)*time.Millisecond, func() { wt.cond.Broadcast() })
	defer timer.Stop()
	wt.mu.Lock()
	defer wt.mu.Unlock()
	// The background WAL writer may flush a request in two transaction groups (its 500 ms ticker can fall
	// between two queued write commands); the trigger is then fired once per group.  Wait for all records.
	nrec := func() int {
		n := 0
		for _, r := range wt.log[wt.taken:wt.done] {
			n += len(r.Indexes)
		}
		return n
	}
	want := wt.taken + a.Fires
	for (wt.done < want || nrec() < a.Records || wt.started != wt.done) && time.Now().Before(deadline) {
		wt.cond.Wait()
	}
	if wt.done < want || nrec() < a.Records || wt.started != wt.done {
		return drv.Obs{"err": fmt.Sprintf("timeout: %d fires returned (%d started) with %d records, waiting for %d fires / %d records",
			wt.done-wt.taken, wt.started-wt.taken, nrec(), a.Fires, a.Records), "driver_error": true}
	}
	out := append([]fireRec{}, wt.log[wt.taken:wt.done]...)
	extra := wt.done - want
	wt.taken = wt.done
	return drv.Obs{"err": nil, "fires": out, "extra": extra}
}

// ---------------------------------------------------------------------------------------------
// C25: master with a capturing sender, replica with the real replayer
// ---------------------------------------------------------------------------------------------

type capSender struct {
	mu   sync.Mutex
	tgs  [][]byte
	refs [][]byte
}

func (s *capSender) Run(_ context.Context) {}
func (s *capSender) Send(tg []byte) {
	// tgs: a copy taken at the hand-over (what a replica that keeps up receives).
	// refs: like replication.Sender the group is queued BY REFERENCE and read only when it is delivered, which may be after
	// the master has written its primary files and flushed further groups (a lagging replica, repl_sync {"refs":true}).
	b := make([]byte, len(tg))
	copy(b, tg)
	s.mu.Lock()
	s.tgs = append(s.tgs, b)
	s.refs = append(s.refs, tg)
	s.mu.Unlock()
}

// capService stands for the network + replica end of the REAL replication.Sender: what the sender's goroutine delivers is
// captured in arrival order.  The first delivery can be made slow (a slow link for one message).
type capService struct {
	s         *capSender
	slowFirst time.Duration
	holdUntil int32 // the first delivery is held until this many groups have been handed to the sender (or 5 s)
	handed    *int32
	n         int32
}

func (c *capService) SendReplicationMessage(tg []byte) {
	if atomic.AddInt32(&c.n, 1) == 1 {
		if c.slowFirst > 0 {
			time.Sleep(c.slowFirst)
		}
		deadline := time.Now().Add(5 * time.Second)
		for c.holdUntil > 0 && atomic.LoadInt32(c.handed) < c.holdUntil && time.Now().Before(deadline) {
			time.Sleep(time.Millisecond)
		}
	}
	c.s.Send(tg)
}

// countingSender is what the WAL sees: the real replication.Sender, with the hand-overs counted
type countingSender struct {
	inner  *replication.Sender
	handed int32
}

func (c *countingSender) Run(ctx context.Context) { c.inner.Run(ctx) }
func (c *countingSender) Send(tg []byte) {
	c.inner.Send(tg)
	atomic.AddInt32(&c.handed, 1)
}

var realSenderCancel context.CancelFunc

// repl_real_sender {"slow_first_ms": n} | {"off": true}: route the master's transaction groups through replication.Sender
// (its channel and goroutine) into the capturing end, or back to the plain capturing sender
func replRealSender(c *drv.Ctx, o *drv.Op) drv.Obs {
	var a struct {
		Off         bool `json:"off"`
		SlowFirstMs int  `json:"slow_first_ms"`
		HoldUntil   int  `json:"hold_first_until"`
	}
	_ = json.Unmarshal(o.X, &a)
	if realSenderCancel != nil {
		realSenderCancel()
		realSenderCancel = nil
	}
	if a.Off {
		master.WAL.ReplicationSender = sender
		return drv.Obs{"ok": true}
	}
	cs := &countingSender{}
	cs.inner = replication.NewSender(&capService{s: sender, slowFirst: time.Duration(a.SlowFirstMs) * time.Millisecond,
		holdUntil: int32(a.HoldUntil), handed: &cs.handed})
	var ctx context.Context
	ctx, realSenderCancel = context.WithCancel(context.Background())
	cs.Run(ctx)
	master.WAL.ReplicationSender = cs
	return drv.Obs{"ok": true}
}

var (
	master, replica *inst.Instance
	sender          *capSender
	replayer        *replication.ReplayerImpl
	sent            int
)

type replStartArgs struct {
	Master  string `json:"master"`
	Replica string `json:"replica"`
}

func replStart(c *drv.Ctx, o *drv.Op) drv.Obs {
	a := &replStartArgs{}
	if err := json.Unmarshal(o.X, a); err != nil {
		return drv.Obs{"err": err.Error(), "driver_error": true}
	}
	// master: the server's own start-up path; the container chose the Nop sender (replication is
	// configured off), the WAL's sender field is then pointed to the capturing sender
	master = inst.Start(a.Master, inst.Opts{Verbose: o.Verbose})
	sender = &capSender{}
	master.WAL.ReplicationSender = sender
	sent = 0
	// replica: own root / catalog / WAL / writer, like internal/di.GetReplicationClientWithRetry wires it
	if err := os.MkdirAll(a.Replica, 0o770); err != nil {
		return drv.Obs{"err": err.Error(), "driver_error": true}
	}
	root, _ := filepath.Abs(a.Replica)
	cat, _ := catalog.NewDirectory(root) // a new root has no category_name file yet: same tolerance as internal/di
	if cat == nil {
		return drv.Obs{"err": "no replica catalog", "driver_error": true}
	}
	tpd := executor.StartNewTriggerPluginDispatcher(nil)
	w, err := executor.NewWALFile(root, time.Now().UTC().UnixNano(), &executor.NopReplicationSender{}, false,
		&sync.WaitGroup{}, tpd, executor.NewTransactionPipe())
	if err != nil {
		return drv.Obs{"err": err.Error(), "driver_error": true}
	}
	writer, err := executor.NewWriter(cat, w)
	if err != nil {
		return drv.Obs{"err": err.Error(), "driver_error": true}
	}
	qs := frontend.NewQueryService(cat)
	replica = &inst.Instance{Root: root, Cat: cat, WAL: w, Writer: writer, Query: qs}
	replica.Data = frontend.NewDataService(root, cat, nil, writer, qs)
	replayer = replication.NewReplayer(executor.ParseTGData, writer.WriteCSM, root)
	c.In = master
	atomic.StoreUint32(&frontend.Queryable, 1)
	return drv.Obs{"ok": true, "master_root": master.Root, "replica_root": root,
		"same_catalog": master.Cat == replica.Cat, "same_wal": master.WAL == replica.WAL}
}

type replUseArgs struct {
	Who string `json:"who"`
}

func replUse(c *drv.Ctx, o *drv.Op) drv.Obs {
	a := &replUseArgs{}
	if err := json.Unmarshal(o.X, a); err != nil {
		return drv.Obs{"err": err.Error(), "driver_error": true}
	}
	switch a.Who {
	case "master":
		c.In = master
	case "replica":
		c.In = replica
	default:
		return drv.Obs{"err": "who?", "driver_error": true}
	}
	return drv.Obs{"ok": true}
}

type groupReq struct {
	Buckets []drv.Bucket `json:"buckets"`
	Var     bool         `json:"var"`
}
type replGroupArgs struct {
	Reqs []groupReq `json:"reqs"`
}

// replGroup issues len(reqs) client write requests against the master so that their write commands are
// flushed as one transaction group.  Goroutine k (k < last) runs the real DataService.Write and is stopped
// by the hook handler at WriteCSM.beforeFlush (its commands are in the write channel by then); the last
// request runs unhindered and its RequestFlush takes everything that is queued.
func replGroup(c *drv.Ctx, o *drv.Op) drv.Obs {
	a := &replGroupArgs{}
	if err := json.Unmarshal(o.X, a); err != nil {
		return drv.Obs{"err": err.Error(), "driver_error": true}
	}
	if c.In != master {
		return drv.Obs{"err": "repl_group runs on the master", "driver_error": true}
	}
	n := len(a.Reqs)
	results := make([]drv.Obs, n)
	if n == 0 {
		return drv.Obs{"err": nil, "results": results}
	}
	var gateOpen int32
	release := make(chan struct{})
	arrived := make(chan struct{}, n)
	verifhook.Set(func(point string, _ ...interface{}) {
		if point == "WriteCSM.beforeFlush" && atomic.LoadInt32(&gateOpen) == 0 {
			arrived <- struct{}{}
			<-release
		}
	})
	defer verifhook.Set(nil)
	var wg sync.WaitGroup
	for k := 0; k < n-1; k++ {
		wg.Add(1)
		finished := make(chan struct{})
		go func(k int) {
			defer wg.Done()
			defer close(finished)
			results[k] = c.Exec(&drv.Op{Op: "write", Buckets: a.Reqs[k].Buckets, Var: a.Reqs[k].Var})
		}(k)
		select {
		case <-arrived: // queued its commands, waits in front of RequestFlush
		case <-finished: // ended without reaching the flush (rejected request)
		case <-time.After(10 * time.Second):
			atomic.StoreInt32(&gateOpen, 1)
			close(release)
			return drv.Obs{"err": "request did not reach the gate", "driver_error": true}
		}
	}
	atomic.StoreInt32(&gateOpen, 1)
	results[n-1] = c.Exec(&drv.Op{Op: "write", Buckets: a.Reqs[n-1].Buckets, Var: a.Reqs[n-1].Var})
	close(release)
	wg.Wait()
	return drv.Obs{"err": nil, "results": results}
}

func replSync(c *drv.Ctx, o *drv.Op) drv.Obs {
	var sa struct {
		Refs bool `json:"refs"`
		Wait int  `json:"wait"` // wait until this many groups have arrived (asynchronous delivery through the real sender)
	}
	if len(o.X) > 0 {
		_ = json.Unmarshal(o.X, &sa)
	}
	if sa.Wait > 0 {
		deadline := time.Now().Add(8 * time.Second)
		for time.Now().Before(deadline) {
			sender.mu.Lock()
			n := len(sender.tgs) - sent
			sender.mu.Unlock()
			if n >= sa.Wait {
				break
			}
			time.Sleep(2 * time.Millisecond)
		}
	}
	sender.mu.Lock()
	src := sender.tgs
	if sa.Refs {
		src = sender.refs
	}
	tgs := append([][]byte{}, src[sent:]...)
	// groups whose bytes are no longer what was handed over (the master kept writing into the buffer it gave away)
	mutated := []int{}
	for i := sent; i < len(sender.tgs); i++ {
		if !bytes.Equal(sender.tgs[i], sender.refs[i]) {
			mutated = append(mutated, i)
		}
	}
	sent = len(sender.tgs)
	sender.mu.Unlock()
	shapes := []interface{}{}
	errs := []interface{}{}
	for _, tg := range tgs {
		// shape of the group, parsed with the code's own parser (for the harness only)
		_, sets := executor.ParseTGData(tg, master.Root)
		sh := []map[string]interface{}{}
		for i := range sets {
			rel, _ := filepath.Rel(master.Root, sets[i].FilePath)
			nrec := 1
			if sets[i].RecordType == io.VARIABLE && sets[i].VarRecLen > 0 {
				nrec = len(sets[i].Buffer.Payload()) / sets[i].VarRecLen
			}
			sh = append(sh, map[string]interface{}{"var": sets[i].RecordType == io.VARIABLE, "path": rel,
				"index": sets[i].Buffer.Index(), "n": nrec})
		}
		shapes = append(shapes, sh)
		errs = append(errs, replayOne(tg))
	}
	return drv.Obs{"err": nil, "tgs": shapes, "replay": errs, "mutated_after_handover": mutated}
}

type replCmpArgs struct {
	Keys []string `json:"keys"`
}

// replCmp runs the same unrestricted query on the master and on the replica.
func replCmp(c *drv.Ctx, o *drv.Op) drv.Obs {
	a := &replCmpArgs{}
	if err := json.Unmarshal(o.X, a); err != nil {
		return drv.Obs{"err": err.Error(), "driver_error": true}
	}
	out := drv.Obs{"err": nil}
	keep := c.In
	defer func() { c.In = keep }()
	for _, who := range []string{"master", "replica"} {
		if who == "master" {
			c.In = master
		} else {
			c.In = replica
		}
		m := map[string]drv.Obs{}
		for _, k := range a.Keys {
			m[k] = c.Exec(&drv.Op{Op: "query", Dest: k})
		}
		out[who] = m
	}
	return out
}

func replayOne(tg []byte) (res interface{}) {
	defer func() {
		if r := recover(); r != nil {
			res = "panic: " + fmt.Sprint(r)
		}
	}()
	if err := replayer.Replay(tg); err != nil {
		return err.Error()
	}
	return nil
}

func init() {
	drv.Extra["repl_real_sender"] = replRealSender
	drv.Extra["agg_start"] = aggStart
	drv.Extra["agg_wait"] = aggWait
	drv.Extra["repl_start"] = replStart
	drv.Extra["repl_use"] = replUse
	drv.Extra["repl_group"] = replGroup
	drv.Extra["repl_sync"] = replSync
	drv.Extra["repl_cmp"] = replCmp
}

func main() { drv.Main() }
