// mv_fanout: real replication fan-out (GRPCReplicationServer + Sender) with in-process fake streams (C26).
package main

import (
	"context"
	"encoding/json"
	"errors"
	"sync"
	"time"

	"google.golang.org/grpc/metadata"
	"google.golang.org/grpc/peer"

	pb "github.com/alpacahq/marketstore/v4/proto"
	"github.com/alpacahq/marketstore/v4/replication"
	"github.com/alpacahq/marketstore/v4/verifhook"

	"mktsverif/drv"
)

type addr string

func (a addr) Network() string { return "tcp" }
func (a addr) String() string  { return string(a) }

type fakeStream struct {
	name    string
	mu      sync.Mutex
	cond    *sync.Cond
	fail    bool
	stalled bool // Send blocks (the replica does not read) until the stall ends or the connection breaks
	got     []int
}

func msgID(b []byte) int {
	if len(b) >= 2 {
		return int(b[0]) + 256*int(b[1])
	}
	return int(b[0])
}

func (s *fakeStream) Send(r *pb.GetWALStreamResponse) error {
	verifhook.At("Stream.send", s.name) // the handler has taken a message from its channel and is about to send it
	s.mu.Lock()
	defer s.mu.Unlock()
	for s.stalled && !s.fail {
		s.cond.Wait()
	}
	if s.fail {
		return errors.New("transport is closing")
	}
	if len(r.TransactionGroup) > 0 {
		s.got = append(s.got, msgID(r.TransactionGroup))
	}
	return nil
}
func (s *fakeStream) Context() context.Context {
	return peer.NewContext(context.Background(), &peer.Peer{Addr: addr(s.name)})
}
func (s *fakeStream) SetHeader(metadata.MD) error  { return nil }
func (s *fakeStream) SendHeader(metadata.MD) error { return nil }
func (s *fakeStream) SetTrailer(metadata.MD)       {}
func (s *fakeStream) SendMsg(m interface{}) error  { return nil }
func (s *fakeStream) RecvMsg(m interface{}) error  { return nil }

var (
	server  *replication.GRPCReplicationServer
	sender  *replication.Sender
	streams = map[string]*fakeStream{}
	smu     sync.Mutex
	cancel  context.CancelFunc
)

func stream(name string) *fakeStream {
	smu.Lock()
	defer smu.Unlock()
	s, ok := streams[name]
	if !ok {
		s = &fakeStream{name: name}
		s.cond = sync.NewCond(&s.mu)
		streams[name] = s
	}
	return s
}

type xarg struct {
	R   string `json:"r"`
	Msg int    `json:"msg"`
	Ms  int    `json:"ms"`
	N   int    `json:"n"`
}

func arg(o *drv.Op) xarg {
	var x xarg
	_ = json.Unmarshal(o.X, &x)
	return x
}

func init() {
	drv.Extra["fan_start"] = func(c *drv.Ctx, o *drv.Op) drv.Obs {
		server = replication.NewGRPCReplicationServer()
		sender = replication.NewSender(server)
		smu.Lock()
		streams = map[string]*fakeStream{}
		smu.Unlock()
		var ctx context.Context
		ctx, cancel = context.WithCancel(context.Background())
		sender.Run(ctx)
		return drv.Obs{"ok": true}
	}
	// the replica's stream handler: returns when the stream ends
	drv.Extra["fan_serve"] = func(c *drv.Ctx, o *drv.Op) drv.Obs {
		x := arg(o)
		err := server.GetWALStream(nil, stream(x.R))
		if err != nil {
			return drv.Obs{"err": err.Error()}
		}
		return drv.Obs{"ended": true}
	}
	// the same handler in a goroutine of its own: the op returns at once (free-running runs must not wait for a
	// handler that a defect may leave blocked for ever)
	drv.Extra["fan_serve_bg"] = func(c *drv.Ctx, o *drv.Op) drv.Obs {
		x := arg(o)
		st := stream(x.R)
		go func() { _ = server.GetWALStream(nil, st) }()
		return drv.Obs{"ok": true}
	}
	drv.Extra["fan_fail"] = func(c *drv.Ctx, o *drv.Op) drv.Obs { // the replica goes away: the next Send on its stream fails
		s := stream(arg(o).R)
		s.mu.Lock()
		s.fail = true
		s.cond.Broadcast()
		s.mu.Unlock()
		return drv.Obs{"ok": true}
	}
	drv.Extra["fan_stall"] = func(c *drv.Ctx, o *drv.Op) drv.Obs { // the replica stops reading: Send blocks from now on
		s := stream(arg(o).R)
		s.mu.Lock()
		s.stalled = true
		s.mu.Unlock()
		return drv.Obs{"ok": true}
	}
	drv.Extra["fan_unstall"] = func(c *drv.Ctx, o *drv.Op) drv.Obs {
		s := stream(arg(o).R)
		s.mu.Lock()
		s.stalled = false
		s.cond.Broadcast()
		s.mu.Unlock()
		return drv.Obs{"ok": true}
	}
	// hand over `n` transaction groups msg, msg+1, ...; gives up (blocked: true) when the sender does not accept one within ms
	drv.Extra["fan_send_many"] = func(c *drv.Ctx, o *drv.Op) drv.Obs {
		x := arg(o)
		ms := x.Ms
		if ms == 0 {
			ms = 3000
		}
		for i := 0; i < x.N; i++ {
			id := x.Msg + i
			ok := make(chan struct{})
			go func() { sender.Send([]byte{byte(id % 256), byte(id / 256)}); close(ok) }()
			select {
			case <-ok:
			case <-time.After(time.Duration(ms) * time.Millisecond):
				return drv.Obs{"blocked": true, "accepted": i}
			}
		}
		return drv.Obs{"ok": true, "accepted": x.N}
	}
	// wait until replica r has received n messages (or ms elapsed)
	drv.Extra["fan_wait"] = func(c *drv.Ctx, o *drv.Op) drv.Obs {
		x := arg(o)
		s := stream(x.R)
		deadline := time.Now().Add(time.Duration(x.Ms) * time.Millisecond)
		for {
			s.mu.Lock()
			n := len(s.got)
			s.mu.Unlock()
			if n >= x.N || time.Now().After(deadline) {
				return drv.Obs{"n": n, "reached": n >= x.N}
			}
			time.Sleep(5 * time.Millisecond)
		}
	}
	drv.Extra["fan_send"] = func(c *drv.Ctx, o *drv.Op) drv.Obs { // the WAL writer hands a committed TG to the sender
		id := arg(o).Msg
		sender.Send([]byte{byte(id % 256), byte(id / 256)})
		return drv.Obs{"ok": true}
	}
	drv.Extra["fan_state"] = func(c *drv.Ctx, o *drv.Op) drv.Obs {
		x := arg(o)
		if x.Ms > 0 {
			time.Sleep(time.Duration(x.Ms) * time.Millisecond)
		}
		out := map[string][]int{}
		smu.Lock()
		for n, s := range streams {
			s.mu.Lock()
			out[n] = append([]int{}, s.got...)
			s.mu.Unlock()
		}
		smu.Unlock()
		return drv.Obs{"received": out}
	}
	drv.Extra["fan_stop"] = func(c *drv.Ctx, o *drv.Op) drv.Obs {
		if cancel != nil {
			cancel()
		}
		return drv.Obs{"ok": true}
	}
}

func main() { drv.Main() }
