// mv_schema is the driver binary of the "schema" family (C14, C15, C16).
// Besides the generic ops of package drv it offers three file-system ops used by the
// path-jail check (C16):
//
//	world   x={"dir":D,"dirs":[rel...],"files":{rel:content}}  build a directory tree
//	snap    x={"dir":D,"exclude":[abs...]}                      names, kinds, sizes, mtimes, inodes, content hashes
//	rmworld x={"dir":D}                                         remove the tree again
//	jstart  root=R x={"waldir":D}   a light instance on root R: the real catalog, writer, query service and
//	                                DataService wired by hand around ONE write-ahead log shared by all such
//	                                instances of the process (kept in D, outside every world); used for the bulk of
//	                                the C16 cases, a sample of them still goes through the generic "start"
package main

import (
	"crypto/sha1"
	"encoding/hex"
	"encoding/json"
	"io"
	"os"
	"path/filepath"
	"strings"
	"sync"
	"sync/atomic"
	"syscall"
	"time"

	"github.com/alpacahq/marketstore/v4/catalog"
	"github.com/alpacahq/marketstore/v4/executor"
	"github.com/alpacahq/marketstore/v4/frontend"
	"github.com/alpacahq/marketstore/v4/utils"
	"github.com/alpacahq/marketstore/v4/utils/log"

	"mktsverif/drv"
	"mktsverif/inst"
)

type jstartArgs struct {
	WalDir string `json:"waldir"`
}

var sharedWAL *executor.WALFileType

// jstart wires catalog.NewDirectory + executor.NewWriter + frontend.NewQueryService + frontend.NewDataService
// exactly like internal/di does, but re-uses one WAL file / trigger dispatcher for the whole process.
func jstart(c *drv.Ctx, o *drv.Op) drv.Obs {
	a := &jstartArgs{}
	if err := json.Unmarshal(o.X, a); err != nil {
		return drv.Obs{"err": err.Error(), "driver_error": true}
	}
	log.SetLevel(log.FATAL + 1)
	cfg := utils.NewDefaultConfig(o.Root)
	cfg.Timezone = time.UTC
	utils.InstanceConfig = *cfg
	if err := os.MkdirAll(o.Root, 0o770); err != nil {
		return drv.Obs{"err": err.Error(), "driver_error": true}
	}
	if sharedWAL == nil {
		if err := os.MkdirAll(a.WalDir, 0o770); err != nil {
			return drv.Obs{"err": err.Error(), "driver_error": true}
		}
		tpd := executor.StartNewTriggerPluginDispatcher(nil)
		w, err := executor.NewWALFile(a.WalDir, time.Now().UTC().UnixNano(), &executor.NopReplicationSender{}, false,
			&sync.WaitGroup{}, tpd, executor.NewTransactionPipe())
		if err != nil {
			return drv.Obs{"err": err.Error(), "driver_error": true}
		}
		sharedWAL = w
	}
	root, _ := filepath.Abs(o.Root)
	cat, _ := catalog.NewDirectory(root) // a new root has no category_name file yet: same tolerance as internal/di
	if cat == nil {
		return drv.Obs{"err": "no catalog", "driver_error": true}
	}
	writer, err := executor.NewWriter(cat, sharedWAL)
	if err != nil {
		return drv.Obs{"err": err.Error(), "driver_error": true}
	}
	meta := executor.NewInstanceSetup(cat, sharedWAL)
	qs := frontend.NewQueryService(cat)
	c.In = &inst.Instance{Root: root, Cat: cat, WAL: sharedWAL, Writer: writer, Query: qs, Meta: meta}
	c.In.Data = frontend.NewDataService(root, cat, nil, writer, qs)
	atomic.StoreUint32(&frontend.Queryable, 1)
	return drv.Obs{"ok": true}
}

type worldArgs struct {
	Dir     string            `json:"dir"`
	Dirs    []string          `json:"dirs"`
	Files   map[string]string `json:"files"`
	Exclude []string          `json:"exclude"`
}

func args(o *drv.Op) (*worldArgs, error) {
	a := &worldArgs{}
	if err := json.Unmarshal(o.X, a); err != nil {
		return nil, err
	}
	return a, nil
}

func world(_ *drv.Ctx, o *drv.Op) drv.Obs {
	a, err := args(o)
	if err != nil {
		return drv.Obs{"err": err.Error(), "driver_error": true}
	}
	if err := os.MkdirAll(a.Dir, 0o770); err != nil {
		return drv.Obs{"err": err.Error(), "driver_error": true}
	}
	for _, d := range a.Dirs {
		if err := os.MkdirAll(filepath.Join(a.Dir, d), 0o770); err != nil {
			return drv.Obs{"err": err.Error(), "driver_error": true}
		}
	}
	for f, content := range a.Files {
		p := filepath.Join(a.Dir, f)
		if err := os.MkdirAll(filepath.Dir(p), 0o770); err != nil {
			return drv.Obs{"err": err.Error(), "driver_error": true}
		}
		if err := os.WriteFile(p, []byte(content), 0o660); err != nil {
			return drv.Obs{"err": err.Error(), "driver_error": true}
		}
	}
	return drv.Obs{"ok": true}
}

func under(p string, roots []string) bool {
	for _, r := range roots {
		if p == r || strings.HasPrefix(p, r+string(os.PathSeparator)) {
			return true
		}
	}
	return false
}

// snap lists everything below dir except the excluded subtrees (the excluded directory itself is
// listed as an entry of kind "x" with its inode, so that its removal / re-creation is visible).
func snap(_ *drv.Ctx, o *drv.Op) drv.Obs {
	a, err := args(o)
	if err != nil {
		return drv.Obs{"err": err.Error(), "driver_error": true}
	}
	ents := map[string][]interface{}{}
	werr := filepath.Walk(a.Dir, func(p string, info os.FileInfo, err error) error {
		if err != nil {
			return nil
		}
		rel, _ := filepath.Rel(a.Dir, p)
		var ino uint64
		if st, ok := info.Sys().(*syscall.Stat_t); ok {
			ino = st.Ino
		}
		if under(p, a.Exclude) {
			ents[rel] = []interface{}{"x", 0, 0, "", ino}
			if info.IsDir() {
				return filepath.SkipDir
			}
			return nil
		}
		switch {
		case info.IsDir():
			ents[rel] = []interface{}{"d", 0, info.ModTime().UnixNano(), "", ino}
		case info.Mode().IsRegular():
			h := sha1.New()
			if f, err := os.Open(p); err == nil {
				_, _ = io.Copy(h, f)
				f.Close()
			}
			ents[rel] = []interface{}{"f", info.Size(), info.ModTime().UnixNano(), hex.EncodeToString(h.Sum(nil)), ino}
		default:
			ents[rel] = []interface{}{"o:" + info.Mode().String(), info.Size(), info.ModTime().UnixNano(), "", ino}
		}
		return nil
	})
	if werr != nil {
		return drv.Obs{"err": werr.Error(), "driver_error": true}
	}
	return drv.Obs{"ents": ents}
}

func rmworld(_ *drv.Ctx, o *drv.Op) drv.Obs {
	a, err := args(o)
	if err != nil {
		return drv.Obs{"err": err.Error(), "driver_error": true}
	}
	return drv.Obs{"ok": os.RemoveAll(a.Dir) == nil}
}

func init() {
	drv.Extra["world"] = world
	drv.Extra["snap"] = snap
	drv.Extra["rmworld"] = rmworld
	drv.Extra["jstart"] = jstart
}

func main() { drv.Main() }
