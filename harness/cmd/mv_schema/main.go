// mv_schema is the driver binary of the "schema" family (C14, C15, C16).
// Besides the generic ops of package drv it offers three file-system ops used by the
// path-jail check (C16):
//
//	world   x={"dir":D,"dirs":[rel...],"files":{rel:content}}  build a directory tree
//	snap    x={"dir":D,"exclude":[abs...]}                      names, kinds, sizes, mtimes, inodes, content hashes
//	rmworld x={"dir":D}                                         remove the tree again
package main

import (
	"crypto/sha1"
	"encoding/hex"
	"encoding/json"
	"io"
	"os"
	"path/filepath"
	"strings"
	"syscall"

	"mktsverif/drv"
)

type worldArgs struct {
	Dir     string            `json:"dir"`
	Dirs    []string          `json:"dirs"`
	Files   map[string]string `json:"files"`
	Exclude []string          `json:"exclude"`
}

func args(o *drv.Op) (*worldArgs, error) {
	a := &worldArgs{}
	if err := json.Unmarshal(o.X, a); err != nil {
		return nil, err
	}
	return a, nil
}

func world(_ *drv.Ctx, o *drv.Op) drv.Obs {
	a, err := args(o)
	if err != nil {
		return drv.Obs{"err": err.Error(), "driver_error": true}
	}
	if err := os.MkdirAll(a.Dir, 0o770); err != nil {
		return drv.Obs{"err": err.Error(), "driver_error": true}
	}
	for _, d := range a.Dirs {
		if err := os.MkdirAll(filepath.Join(a.Dir, d), 0o770); err != nil {
			return drv.Obs{"err": err.Error(), "driver_error": true}
		}
	}
	for f, content := range a.Files {
		p := filepath.Join(a.Dir, f)
		if err := os.MkdirAll(filepath.Dir(p), 0o770); err != nil {
			return drv.Obs{"err": err.Error(), "driver_error": true}
		}
		if err := os.WriteFile(p, []byte(content), 0o660); err != nil {
			return drv.Obs{"err": err.Error(), "driver_error": true}
		}
	}
	return drv.Obs{"ok": true}
}

func under(p string, roots []string) bool {
	for _, r := range roots {
		if p == r || strings.HasPrefix(p, r+string(os.PathSeparator)) {
			return true
		}
	}
	return false
}

// snap lists everything below dir except the excluded subtrees (the excluded directory itself is
// listed as an entry of kind "x" with its inode, so that its removal / re-creation is visible).
func snap(_ *drv.Ctx, o *drv.Op) drv.Obs {
	a, err := args(o)
	if err != nil {
		return drv.Obs{"err": err.Error(), "driver_error": true}
	}
	ents := map[string][]interface{}{}
	werr := filepath.Walk(a.Dir, func(p string, info os.FileInfo, err error) error {
		if err != nil {
			return nil
		}
		rel, _ := filepath.Rel(a.Dir, p)
		var ino uint64
		if st, ok := info.Sys().(*syscall.Stat_t); ok {
			ino = st.Ino
		}
		if under(p, a.Exclude) {
			ents[rel] = []interface{}{"x", 0, 0, "", ino}
			if info.IsDir() {
				return filepath.SkipDir
			}
			return nil
		}
		switch {
		case info.IsDir():
			ents[rel] = []interface{}{"d", 0, info.ModTime().UnixNano(), "", ino}
		case info.Mode().IsRegular():
			h := sha1.New()
			if f, err := os.Open(p); err == nil {
				_, _ = io.Copy(h, f)
				f.Close()
			}
			ents[rel] = []interface{}{"f", info.Size(), info.ModTime().UnixNano(), hex.EncodeToString(h.Sum(nil)), ino}
		default:
			ents[rel] = []interface{}{"o:" + info.Mode().String(), info.Size(), info.ModTime().UnixNano(), "", ino}
		}
		return nil
	})
	if werr != nil {
		return drv.Obs{"err": werr.Error(), "driver_error": true}
	}
	return drv.Obs{"ents": ents}
}

func rmworld(_ *drv.Ctx, o *drv.Op) drv.Obs {
	a, err := args(o)
	if err != nil {
		return drv.Obs{"err": err.Error(), "driver_error": true}
	}
	return drv.Obs{"ok": os.RemoveAll(a.Dir) == nil}
}

func init() {
	drv.Extra["world"] = world
	drv.Extra["snap"] = snap
	drv.Extra["rmworld"] = rmworld
}

func main() { drv.Main() }
