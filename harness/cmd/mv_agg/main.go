// mv_agg is the harness binary of the "agg" family (C21, C22, C23).
//
// It adds one op, "agg", that feeds column batches to the real aggregate
// functions of the repository (tickcandler, candlecandler, count, min, max,
// avg, gap).  Two modes:
//
//	"run"   : sqlparser.NewDefaultAggRunner(nil).Run(chain, cs, tbk) -- the
//	          pipeline the query service uses (one input, a chain of calls,
//	          each call consuming the previous output);
//	"accum" : the same preparation steps as AggRunner.Run for ONE call
//	          (ParseFunctionCall, NewArgumentMap, PrepareArguments, New) and
//	          then Accum once per batch on the same aggregate instance; the
//	          output after every batch is reported.
//
// All abstraction lives on the Python side; nothing is interpreted here.
package main

import (
	"encoding/json"
	"fmt"
	"runtime/debug"

	"github.com/alpacahq/marketstore/v4/sqlparser"
	"github.com/alpacahq/marketstore/v4/utils/functions"
	"github.com/alpacahq/marketstore/v4/utils/io"

	"mktsverif/drv"
)

type aggArgs struct {
	Mode    string      `json:"mode"`
	Chain   []string    `json:"chain"`
	Call    string      `json:"call"`
	Tbk     string      `json:"tbk"`
	Batches [][]drv.Col `json:"batches"`
}

func errS(err error) interface{} {
	if err == nil {
		return nil
	}
	return err.Error()
}

func aggOp(_ *drv.Ctx, o *drv.Op) (obs drv.Obs) {
	defer func() {
		if r := recover(); r != nil {
			obs = drv.Obs{"panic": fmt.Sprint(r), "stack": string(debug.Stack())}
		}
	}()
	var a aggArgs
	if err := json.Unmarshal(o.X, &a); err != nil {
		return drv.Obs{"err": err.Error(), "driver_error": true}
	}
	css := make([]*io.ColumnSeries, 0, len(a.Batches))
	for _, b := range a.Batches {
		cs, err := drv.ToCS(b)
		if err != nil {
			return drv.Obs{"err": err.Error(), "driver_error": true}
		}
		css = append(css, cs)
	}
	if a.Tbk == "" {
		a.Tbk = "SYM/1Min/TICK"
	}
	tbk := io.NewTimeBucketKey(a.Tbk)
	runner := sqlparser.NewDefaultAggRunner(nil)
	switch a.Mode {
	case "run":
		if len(css) != 1 {
			return drv.Obs{"err": "mode run takes exactly one batch", "driver_error": true}
		}
		out, err := runner.Run(a.Chain, css[0], *tbk)
		if err != nil {
			return drv.Obs{"err": err.Error()}
		}
		return drv.Obs{"err": nil, "out": drv.FromCS(out)}
	case "accum":
		name, lits, params, err := sqlparser.ParseFunctionCall(a.Call)
		if err != nil {
			return drv.Obs{"err": err.Error(), "driver_error": true}
		}
		agg := runner.GetFunc(name)
		if agg == nil {
			return drv.Obs{"err": "no aggregate " + name, "driver_error": true}
		}
		argMap := functions.NewArgumentMap(agg.GetRequiredArgs(), agg.GetOptionalArgs()...)
		if err := argMap.PrepareArguments(params); err != nil {
			return drv.Obs{"err": "prepare: " + err.Error()}
		}
		f, err := agg.New(argMap, lits)
		if err != nil {
			return drv.Obs{"err": "new: " + err.Error()}
		}
		outs := []interface{}{}
		for _, cs := range css {
			out, err := f.Accum(*tbk, argMap, cs)
			if err != nil {
				outs = append(outs, map[string]interface{}{"err": err.Error()})
				continue
			}
			outs = append(outs, map[string]interface{}{"err": nil, "out": drv.FromCS(out)})
		}
		return drv.Obs{"err": nil, "outs": outs}
	}
	return drv.Obs{"err": "unknown mode " + a.Mode, "driver_error": true}
}

func init() { drv.Extra["agg"] = aggOp }

func main() { drv.Main() }
