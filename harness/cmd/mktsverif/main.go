// mktsverif is the generic driver binary (ops of package drv only).
package main

import "mktsverif/drv"

func main() { drv.Main() }
