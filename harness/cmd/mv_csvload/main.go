// mv_csvload is the harness binary of the "csvload" family (C33).
//
// Op "csvload"  x={"key":K,"data":CSV,"control":YAML|"","chunk":N}
//
//	runs the CSV import against the instance started with the generic "start" op.  session.(*Client).load is
//	unexported and hard-wires chunkSize := 1000000, so this op replicates ONLY its outer loop, calling the same
//	exported functions in the same order:
//	    session.NewClient(apiClient).GetBucketInfo(tbk)
//	    loader.ReadMetadata(dataFD, controlFD, resp.DSV)
//	    for { loader.CSVtoNumpyMulti(reader, tbk, cvm, chunk, resp.RecordType == VARIABLE);
//	          err -> return;  npm != nil -> writeNumpy;  endReached -> break }
//	with the chunk size as a parameter.  The apiClient is a recording wrapper: GetBucketInfo and Write are forwarded to
//	the real frontend.DataService of the instance, every NumpyMultiDataset handed to Write is decoded
//	(ToColumnSeriesMap) and reported.  A panic is reported together with the chunks recorded before it.
//
// Subcommand "connect <dir>"
//
//	is `marketstore connect --dir <dir>` (cmd/connect/main.go: session.NewLocalAPIClient(dir),
//	session.NewClient(conn).Read()): the real, unmodified command loop including the real session.load, fed from
//	stdin.  Python pipes `\load KEY data control` lines into it; errors appear on stderr as "error: ...".
package main

import (
	"encoding/json"
	"fmt"
	"os"
	"runtime/debug"
	"time"

	"github.com/alpacahq/marketstore/v4/cmd/connect/loader"
	"github.com/alpacahq/marketstore/v4/cmd/connect/session"
	"github.com/alpacahq/marketstore/v4/frontend"
	"github.com/alpacahq/marketstore/v4/utils/io"
	"github.com/alpacahq/marketstore/v4/utils/log"

	"mktsverif/drv"
)

type loadArgs struct {
	Key     string `json:"key"`
	Data    string `json:"data"`
	Control string `json:"control"`
	Chunk   int    `json:"chunk"`
}

type chunkRec struct {
	Var  bool                    `json:"var"`
	Cols map[string][]drv.OutCol `json:"cols"`
	Err  interface{}             `json:"decode_err"`
}

// recClient implements session.APIClient on top of the real DataService of the running instance.
type recClient struct {
	ds     *frontend.DataService
	chunks []chunkRec
}

func (r *recClient) PrintConnectInfo() {}
func (r *recClient) Create(reqs *frontend.MultiCreateRequest, resp *frontend.MultiServerResponse) error {
	return r.ds.Create(nil, reqs, resp)
}

func (r *recClient) Write(reqs *frontend.MultiWriteRequest, resp *frontend.MultiServerResponse) error {
	for _, q := range reqs.Requests {
		rec := chunkRec{Var: q.IsVariableLength, Cols: map[string][]drv.OutCol{}}
		csm, err := q.Data.ToColumnSeriesMap()
		if err != nil {
			rec.Err = err.Error()
		} else {
			for tbk, cs := range csm {
				rec.Cols[tbk.GetItemKey()] = drv.FromCS(cs)
			}
		}
		r.chunks = append(r.chunks, rec)
	}
	return r.ds.Write(nil, reqs, resp)
}

func (r *recClient) Destroy(reqs *frontend.MultiKeyRequest, resp *frontend.MultiServerResponse) error {
	return r.ds.Destroy(nil, reqs, resp)
}

func (r *recClient) Show(_ *io.TimeBucketKey, _, _ *time.Time) (io.ColumnSeriesMap, error) {
	return nil, fmt.Errorf("not used")
}

func (r *recClient) GetBucketInfo(reqs *frontend.MultiKeyRequest, resp *frontend.MultiGetInfoResponse) error {
	return r.ds.GetInfo(nil, reqs, resp)
}

func (r *recClient) SQL(string) (*io.ColumnSeries, error) { return nil, fmt.Errorf("not used") }

// writeNumpy is a copy of session.writeNumpy (unexported): one request, "any response is an error".
func writeNumpy(ac session.APIClient, npm *io.NumpyMultiDataset, isVariable bool) error {
	req := frontend.WriteRequest{Data: npm, IsVariableLength: isVariable}
	reqs := &frontend.MultiWriteRequest{Requests: []frontend.WriteRequest{req}}
	responses := &frontend.MultiServerResponse{}
	if err := ac.Write(reqs, responses); err != nil {
		return err
	}
	if len(responses.Responses) != 0 {
		return fmt.Errorf("%s", responses.Responses[0].Error)
	}
	return nil
}

func csvload(c *drv.Ctx, o *drv.Op) (obs drv.Obs) {
	var a loadArgs
	if err := json.Unmarshal(o.X, &a); err != nil {
		return drv.Obs{"err": err.Error(), "driver_error": true}
	}
	if c.In == nil {
		return drv.Obs{"err": "no instance", "driver_error": true}
	}
	rc := &recClient{ds: c.In.Data}
	ncalls := 0
	defer func() {
		if r := recover(); r != nil {
			obs = drv.Obs{"panic": fmt.Sprint(r), "stack": string(debug.Stack()), "chunks": rc.chunks, "calls": ncalls}
		}
	}()
	client := session.NewClient(rc)
	tbk := io.NewTimeBucketKey(a.Key)
	dataFD, err := os.Open(a.Data)
	if err != nil {
		return drv.Obs{"err": err.Error(), "driver_error": true}
	}
	defer dataFD.Close()
	var controlFD *os.File
	if a.Control != "" {
		controlFD, err = os.Open(a.Control) // closed by loader.readControlFile
		if err != nil {
			return drv.Obs{"err": err.Error(), "driver_error": true}
		}
	}
	// ---- from here on: the body of session.(*Client).load ----
	resp, err := client.GetBucketInfo(tbk)
	if err != nil {
		return drv.Obs{"err": "error finding existing bucket: " + err.Error(), "stage": "getinfo", "chunks": rc.chunks}
	}
	csvReader, cvm, err := loader.ReadMetadata(dataFD, controlFD, resp.DSV)
	if err != nil {
		return drv.Obs{"err": "error: " + err.Error(), "stage": "metadata", "chunks": rc.chunks}
	}
	for {
		npm, endReached, err := loader.CSVtoNumpyMulti(csvReader, *tbk, cvm, a.Chunk, resp.RecordType == io.VARIABLE)
		ncalls++
		if err != nil {
			return drv.Obs{"err": "error: " + err.Error(), "stage": "convert", "chunks": rc.chunks, "calls": ncalls}
		}
		if npm != nil {
			err = writeNumpy(rc, npm, resp.RecordType == io.VARIABLE)
			if err != nil {
				return drv.Obs{"err": "error: " + err.Error(), "stage": "write", "chunks": rc.chunks, "calls": ncalls}
			}
		}
		if endReached {
			break
		}
	}
	return drv.Obs{"err": nil, "chunks": rc.chunks, "calls": ncalls}
}

// connectMain is cmd/connect's executeConnect in local mode.
func connectMain(args []string) int {
	if len(args) < 1 {
		fmt.Fprintln(os.Stderr, "usage: connect <dir>")
		return 2
	}
	log.SetLevel(log.FATAL + 1)
	conn, err := session.NewLocalAPIClient(args[0])
	if err != nil {
		fmt.Fprintln(os.Stderr, "connect failed:", err)
		return 3
	}
	c := session.NewClient(conn)
	if err := c.Read(); err != nil {
		fmt.Fprintln(os.Stderr, "read failed:", err)
		return 4
	}
	return 0
}

func init() {
	drv.Extra["csvload"] = csvload
	drv.Subcommands["connect"] = connectMain
}

func main() { drv.Main() }
