// mv_trig: a real instance (DI container, real trigger dispatcher, real SyncWAL loop) with recording triggers (C32).
package main

import (
	"encoding/hex"
	"encoding/json"
	"path/filepath"
	"sort"
	"sync"
	"sync/atomic"
	"time"

	"github.com/alpacahq/marketstore/v4/frontend"
	"github.com/alpacahq/marketstore/v4/plugins/trigger"

	"mktsverif/drv"
	"mktsverif/inst"
)

type fired struct {
	Key     string `json:"key"`
	Index   int64  `json:"index"`
	Payload string `json:"payload"`
	Call    int    `json:"call"`
}

type recTrigger struct {
	on    string
	mu    sync.Mutex
	calls int
	held  []heldCall
}

// Fire keeps the slice it was handed and reads the records only when the state is collected (a trigger may well
// process its records later, e.g. in batches): what it sees then must still be what was written.
func (t *recTrigger) Fire(keyPath string, records []trigger.Record) {
	t.mu.Lock()
	t.calls++
	t.held = append(t.held, heldCall{key: keyPath, recs: records, call: t.calls, n: len(records)})
	t.mu.Unlock()
}

type heldCall struct {
	key  string
	recs []trigger.Record
	call int
	n    int
}

// collect decodes the held records (must be called with t.mu held)
func (t *recTrigger) collect() []fired {
	var out []fired
	for _, h := range t.held {
		for i := 0; i < h.n; i++ {
			r := h.recs[i]
			out = append(out, fired{Key: h.key, Index: r.Index(), Payload: hex.EncodeToString(r.Payload()), Call: h.call})
		}
	}
	return out
}

var (
	trigs []*recTrigger
	tmu   sync.Mutex
)

type xarg struct {
	Root      string   `json:"root"`
	Patterns  []string `json:"patterns"`
	LoopWalMs int      `json:"loop_wal_ms"`
	LoopPrimMs int     `json:"loop_prim_ms"`
	Ms        int      `json:"ms"`
	Expect    int      `json:"expect"`
}

func init() {
	drv.Extra["trig_start"] = func(c *drv.Ctx, o *drv.Op) drv.Obs {
		var x xarg
		_ = json.Unmarshal(o.X, &x)
		tmu.Lock()
		trigs = nil
		var ms []*trigger.Matcher
		for _, p := range x.Patterns {
			t := &recTrigger{on: p}
			trigs = append(trigs, t)
			ms = append(ms, trigger.NewMatcher(t, p))
		}
		tmu.Unlock()
		c.In = inst.Start(x.Root, inst.Opts{Triggers: ms})
		atomic.StoreUint32(&frontend.Queryable, 1)
		drv.ResetLoopSeen()
		if x.LoopWalMs > 0 {
			go c.In.WAL.SyncWAL(time.Duration(x.LoopWalMs)*time.Millisecond, time.Duration(x.LoopPrimMs)*time.Millisecond, 5)
			c.In.WAL.IncrementWaitGroup()
			for i := 0; i < 2000 && !drv.LoopRunning(); i++ {
				time.Sleep(time.Millisecond)
			}
		}
		return drv.Obs{"ok": true, "wal": filepath.Base(c.In.WAL.FilePtr.Name())}
	}
	// what every trigger has received so far; waits (up to ms) until `expect` records in total have arrived
	drv.Extra["trig_state"] = func(c *drv.Ctx, o *drv.Op) drv.Obs {
		var x xarg
		_ = json.Unmarshal(o.X, &x)
		deadline := time.Now().Add(time.Duration(x.Ms) * time.Millisecond)
		for {
			n := 0
			tmu.Lock()
			for _, t := range trigs {
				t.mu.Lock()
				for _, h := range t.held {
					n += h.n
				}
				t.mu.Unlock()
			}
			tmu.Unlock()
			if n >= x.Expect || time.Now().After(deadline) {
				break
			}
			time.Sleep(2 * time.Millisecond)
		}
		// a little longer, so that a surplus delivery would be seen too
		time.Sleep(15 * time.Millisecond)
		out := map[string][]fired{}
		tmu.Lock()
		for _, t := range trigs {
			t.mu.Lock()
			g := t.collect()
			t.mu.Unlock()
			sort.SliceStable(g, func(i, j int) bool { return g[i].Call < g[j].Call })
			out[t.on] = g
		}
		tmu.Unlock()
		return drv.Obs{"delivered": out}
	}
}

func main() { drv.Main() }
